(* Gaussian rationals C = Qc * Qc: exact coefficients of every symbolic operator.
   Every Python int/float/complex is an exact dyadic rational, so implementation values are
   imported exactly. *)
From Coq Require Import QArith Qcanon ZArith Ring Bool.
Close Scope Qc_scope. Close Scope Q_scope.

Definition C : Type := (Qc * Qc)%type.
Definition qz (z : Z) : Qc := Q2Qc (inject_Z z).
Definition C0 : C := (0%Qc, 0%Qc).
Definition C1 : C := (1%Qc, 0%Qc).
Definition Ci : C := (0%Qc, 1%Qc).
Definition Cm1 : C := (Qcopp 1%Qc, 0%Qc).
Definition Cadd (a b : C) : C := (Qcplus (fst a) (fst b), Qcplus (snd a) (snd b)).
Definition Copp (a : C) : C := (Qcopp (fst a), Qcopp (snd a)).
Definition Csub (a b : C) : C := (Qcminus (fst a) (fst b), Qcminus (snd a) (snd b)).
Definition Cmul (a b : C) : C :=
  (Qcminus (Qcmult (fst a) (fst b)) (Qcmult (snd a) (snd b)),
   Qcplus (Qcmult (fst a) (snd b)) (Qcmult (snd a) (fst b))).
Definition Cconj (a : C) : C := (fst a, Qcopp (snd a)).
Definition Cscal (q : Qc) (a : C) : C := (Qcmult q (fst a), Qcmult q (snd a)).
(* |a|^2, a rational *)
Definition Cnorm2 (a : C) : Qc := Qcplus (Qcmult (fst a) (fst a)) (Qcmult (snd a) (snd a)).
Definition Ceqb (a b : C) : bool := Qc_eq_bool (fst a) (fst b) && Qc_eq_bool (snd a) (snd b).
Definition Cis0 (a : C) : bool := Ceqb a C0.
(* exact rational num/den, den a positive *)
Definition qfrac (n : Z) (d : positive) : Qc := Q2Qc (n # d).
Definition Cmk (rn : Z) (rd : positive) (im : Z) (id : positive) : C := (qfrac rn rd, qfrac im id).
Definition CofZ (z : Z) : C := (qz z, qz 0).
(* division by a non-zero rational-complex scalar: a / b = a * conj b / |b|^2 *)
Definition Cinv (b : C) : C := Cscal (Qcinv (Cnorm2 b)) (Cconj b).
Definition Cdiv (a b : C) : C := Cmul a (Cinv b).

Declare Scope C_scope.
Delimit Scope C_scope with C.
Bind Scope C_scope with C.
Infix "+" := Cadd : C_scope.
Infix "*" := Cmul : C_scope.
Infix "-" := Csub : C_scope.
Notation "- x" := (Copp x) : C_scope.

Lemma Ceq_pair (a b : C) : fst a = fst b -> snd a = snd b -> a = b.
Proof. destruct a, b; simpl; intros; subst; reflexivity. Qed.

Ltac csolve := intros; apply Ceq_pair; unfold Cadd, Cmul, Csub, Copp, Cconj, C0, C1, Ci, Cm1, Cscal, qz; simpl; try ring.

(* closed equalities of Gaussian rationals, by computation on the underlying fractions *)
Ltac ceq := apply Ceq_pair; apply Qc_is_canon; vm_compute; reflexivity.

Lemma C_ring : ring_theory C0 C1 Cadd Cmul Csub Copp (@eq C).
Proof.
  constructor; try (intros; apply Ceq_pair; unfold Cadd, Cmul, Csub, Copp, C0, C1, qz; simpl; ring).
Qed.
Add Ring CRing : C_ring.

Lemma Ceqb_eq a b : Ceqb a b = true <-> a = b.
Proof.
  unfold Ceqb. rewrite andb_true_iff. split.
  - intros [H1 H2]. apply Qc_eq_bool_correct in H1. apply Qc_eq_bool_correct in H2. apply Ceq_pair; assumption.
  - intros ->. split; unfold Qc_eq_bool; destruct (Qc_eq_dec _ _); congruence.
Qed.
Lemma Ceqb_refl a : Ceqb a a = true. Proof. apply Ceqb_eq; reflexivity. Qed.
Lemma Ceqb_neq a b : Ceqb a b = false <-> a <> b.
Proof. split; intros H. - intros E. apply Ceqb_eq in E. congruence.
  - destruct (Ceqb a b) eqn:E; [apply Ceqb_eq in E; contradiction|reflexivity]. Qed.

Lemma Ci_sq : Cmul Ci Ci = Cm1. Proof. apply Ceq_pair; vm_compute; reflexivity. Qed.
Lemma Cm1_sq : Cmul Cm1 Cm1 = C1. Proof. apply Ceq_pair; vm_compute; reflexivity. Qed.
Lemma Cmul_1_l a : Cmul C1 a = a. Proof. ring. Qed.
Lemma Cmul_1_r a : Cmul a C1 = a. Proof. ring. Qed.
Lemma Cmul_0_l a : Cmul C0 a = C0. Proof. ring. Qed.
Lemma Cmul_0_r a : Cmul a C0 = C0. Proof. ring. Qed.
Lemma Cadd_0_l a : Cadd C0 a = a. Proof. ring. Qed.
Lemma Cadd_0_r a : Cadd a C0 = a. Proof. ring. Qed.
Lemma Cmul_assoc a b c : Cmul a (Cmul b c) = Cmul (Cmul a b) c. Proof. ring. Qed.
Lemma Cmul_comm a b : Cmul a b = Cmul b a. Proof. ring. Qed.
Lemma Cconj_mul a b : Cconj (Cmul a b) = Cmul (Cconj a) (Cconj b).
Proof. apply Ceq_pair; unfold Cconj, Cmul; simpl; ring. Qed.
Lemma Cconj_add a b : Cconj (Cadd a b) = Cadd (Cconj a) (Cconj b).
Proof. apply Ceq_pair; unfold Cconj, Cadd; simpl; ring. Qed.
Lemma Cconj_invol a : Cconj (Cconj a) = a.
Proof. apply Ceq_pair; unfold Cconj; simpl; ring. Qed.

Lemma Copp_m1 c : Copp c = Cmul Cm1 c.
Proof. apply Ceq_pair; unfold Cmul, Cm1, Copp; simpl; ring. Qed.
Lemma Cm1_opp1 : Cm1 = Copp C1.
Proof. apply Ceq_pair; unfold Cm1, Copp, C1; simpl; ring. Qed.

(* powers of i, exponent mod 4 carried as a nat *)
Definition ipow (k : nat) : C :=
  match Nat.modulo k 4 with 0%nat => C1 | 1%nat => Ci | 2%nat => Cm1 | _ => Copp Ci end.
(* sign (-1)^b *)
Definition sgn (b : bool) : C := if b then Cm1 else C1.
Lemma sgn_mul a b : Cmul (sgn a) (sgn b) = sgn (xorb a b).
Proof. destruct a, b; simpl; try ring; apply Ceq_pair; vm_compute; reflexivity. Qed.
Lemma sgn_sq a : Cmul (sgn a) (sgn a) = C1.
Proof. rewrite sgn_mul. destruct a; reflexivity. Qed.

Global Arguments Cadd _ _ : simpl never.
Global Arguments Cmul _ _ : simpl never.
Global Arguments Csub _ _ : simpl never.
Global Arguments Copp _ : simpl never.
Global Arguments Cconj _ : simpl never.
Global Arguments Cscal _ _ : simpl never.
Global Arguments Cnorm2 _ : simpl never.
Global Arguments Cinv _ : simpl never.
Global Arguments Ceqb _ _ : simpl never.
Global Arguments ipow _ : simpl never.
