(* Formal finite sums  sum_i c_i |k_i>  over a key type with decidable equality.
   l1 == l2  iff every key has the same total coefficient. *)
From Coq Require Import List Bool Ring Arith.
From OFV Require Import Base.Cplx.
Import ListNotations.

Section Lin.
Variable K : Type.
Variable keqb : K -> K -> bool.
Hypothesis keqb_spec : forall a b, reflect (a = b) (keqb a b).

Definition lin := list (C * K).

Fixpoint coeff (k : K) (l : lin) : C :=
  match l with
  | [] => C0
  | (c, k') :: l' => if keqb k k' then Cadd c (coeff k l') else coeff k l'
  end.

Definition leq (a b : lin) : Prop := forall k, coeff k a = coeff k b.

Definition lscale (c : C) (l : lin) : lin := map (fun x => (Cmul c (fst x), snd x)) l.
Definition lbind (l : lin) (f : K -> lin) : lin :=
  flat_map (fun x => lscale (fst x) (f (snd x))) l.

Lemma coeff_app k a b : coeff k (a ++ b) = Cadd (coeff k a) (coeff k b).
Proof. induction a as [|[c k'] a IH]; simpl; [ring|]. destruct (keqb k k'); rewrite IH; ring. Qed.

Lemma coeff_scale k c l : coeff k (lscale c l) = Cmul c (coeff k l).
Proof. induction l as [|[c' k'] l IH]; simpl; [ring|]. destruct (keqb k k'); rewrite IH; ring. Qed.

Lemma leq_refl a : leq a a. Proof. intros k; reflexivity. Qed.
Lemma leq_sym a b : leq a b -> leq b a. Proof. intros H k; symmetry; apply H. Qed.
Lemma leq_trans a b c : leq a b -> leq b c -> leq a c.
Proof. intros H1 H2 k; rewrite H1; apply H2. Qed.
Lemma leq_app a a' b b' : leq a a' -> leq b b' -> leq (a ++ b) (a' ++ b').
Proof. intros H1 H2 k; rewrite !coeff_app, H1, H2; reflexivity. Qed.
Lemma leq_scale c a a' : leq a a' -> leq (lscale c a) (lscale c a').
Proof. intros H k; rewrite !coeff_scale, H; reflexivity. Qed.
Lemma leq_app_comm a b : leq (a ++ b) (b ++ a).
Proof. intros k; rewrite !coeff_app; ring. Qed.

Lemma lscale_app c a b : lscale c (a ++ b) = lscale c a ++ lscale c b.
Proof. apply map_app. Qed.
Lemma lscale_lscale c d a : lscale c (lscale d a) = lscale (Cmul c d) a.
Proof. unfold lscale; rewrite map_map; apply map_ext; intros [x k]; simpl; f_equal; ring. Qed.
Lemma lscale_1 a : lscale C1 a = a.
Proof. unfold lscale; rewrite <- (map_id a) at 2; apply map_ext; intros [x k]; simpl; f_equal; ring. Qed.

Lemma lbind_app a b f : lbind (a ++ b) f = lbind a f ++ lbind b f.
Proof. apply flat_map_app. Qed.
Lemma lbind_scale c a f : lbind (lscale c a) f = lscale c (lbind a f).
Proof.
  induction a as [|[x k] a IH]; simpl; [reflexivity|].
  rewrite lscale_app, IH, lscale_lscale; reflexivity.
Qed.
Lemma coeff_bind_ext k a f g : (forall x, leq (f x) (g x)) -> coeff k (lbind a f) = coeff k (lbind a g).
Proof.
  intros H; induction a as [|[x k'] a IH]; simpl; [reflexivity|].
  rewrite !coeff_app, !coeff_scale, IH, (H k'); reflexivity.
Qed.
Lemma leq_bind_ext a f g : (forall x, leq (f x) (g x)) -> leq (lbind a f) (lbind a g).
Proof. intros H k; apply coeff_bind_ext; assumption. Qed.

(* the coefficient of a bind is linear in the first argument: only coeffs of a matter *)
Lemma coeff_bind_single k c x f : coeff k (lbind [(c, x)] f) = Cmul c (coeff k (f x)).
Proof. simpl; rewrite app_nil_r, coeff_scale; reflexivity. Qed.

Lemma keqb_refl a : keqb a a = true.
Proof. destruct (keqb_spec a a); congruence. Qed.

(* lbind respects leq in the first argument *)
Lemma coeff_bind_sum k a f :
  coeff k (lbind a f) = fold_right (fun x acc => Cadd (Cmul (fst x) (coeff k (f (snd x)))) acc) C0 a.
Proof.
  induction a as [|[c x] a IH]; simpl; [reflexivity|].
  rewrite coeff_app, coeff_scale, IH; reflexivity.
Qed.

(* remove all entries with key x *)
Definition lremove (x : K) (l : lin) : lin := filter (fun e => negb (keqb x (snd e))) l.
Lemma coeff_lremove_same x l : coeff x (lremove x l) = C0.
Proof.
  induction l as [|[c k'] l IH]; simpl; [reflexivity|].
  destruct (keqb x k') eqn:E; simpl; [assumption|]. rewrite E; assumption.
Qed.
Lemma coeff_lremove_other x k l : k <> x -> coeff k (lremove x l) = coeff k l.
Proof.
  intros Hn; induction l as [|[c k'] l IH]; simpl; [reflexivity|].
  destruct (keqb_spec x k') as [->|Hx]; simpl.
  - destruct (keqb_spec k k'); [contradiction|assumption].
  - destruct (keqb k k'); rewrite IH; reflexivity.
Qed.
Lemma bind_sum_lremove k x l f :
  fold_right (fun e acc => Cadd (Cmul (fst e) (coeff k (f (snd e)))) acc) C0 l =
  Cadd (Cmul (coeff x l) (coeff k (f x)))
       (fold_right (fun e acc => Cadd (Cmul (fst e) (coeff k (f (snd e)))) acc) C0 (lremove x l)).
Proof.
  induction l as [|[c k'] l IH]; simpl; [ring|].
  destruct (keqb_spec x k') as [->|Hx]; simpl; rewrite IH; ring.
Qed.

Lemma lremove_length x l : length (lremove x l) <= length l.
Proof. induction l as [|e l IH]; simpl; [auto|]. destruct (negb _); simpl; auto with arith. Qed.

Lemma coeff_bind_leq k a b f : leq a b -> coeff k (lbind a f) = coeff k (lbind b f).
Proof.
  rewrite !coeff_bind_sum.
  remember (length a) as n eqn:Hn. revert a b Hn.
  induction n as [n IHn] using (well_founded_induction Wf_nat.lt_wf).
  intros a b Hn H. destruct a as [|[c x] a].
  - (* a empty: all coeffs of b are 0 *)
    simpl. clear IHn Hn.
    assert (Hb : forall y, coeff y b = C0) by (intros y; symmetry; apply (H y)).
    clear H. remember (length b) as m eqn:Hm. revert b Hm Hb.
    induction m as [m IHm] using (well_founded_induction Wf_nat.lt_wf).
    intros b Hm Hb. destruct b as [|[d y] b]; [reflexivity|].
    rewrite (bind_sum_lremove k y). rewrite Hb.
    rewrite <- (IHm (length (lremove y ((d, y) :: b)))) with (b := lremove y ((d, y) :: b)); [ring| |reflexivity|].
    + subst m. simpl. rewrite keqb_refl. simpl. pose proof (lremove_length y b). auto with arith.
    + intros z. destruct (keqb_spec z y) as [->|Hz].
      * apply coeff_lremove_same.
      * rewrite coeff_lremove_other by assumption. apply Hb.
  - rewrite (bind_sum_lremove k x ((c, x) :: a)), (bind_sum_lremove k x b).
    rewrite (H x). f_equal.
    apply (IHn (length (lremove x ((c, x) :: a)))); [| reflexivity |].
    + subst n. simpl. rewrite keqb_refl. simpl. pose proof (lremove_length x a). auto with arith.
    + intros z. destruct (keqb_spec z x) as [->|Hz].
      * rewrite !coeff_lremove_same; reflexivity.
      * rewrite !coeff_lremove_other by assumption. apply H.
Qed.

Lemma leq_bind a b f g : leq a b -> (forall x, leq (f x) (g x)) -> leq (lbind a f) (lbind b g).
Proof.
  intros H1 H2 k. rewrite (coeff_bind_leq k a b f H1). apply coeff_bind_ext; assumption.
Qed.

Lemma lbind_lbind a f g : lbind (lbind a f) g = lbind a (fun x => lbind (f x) g).
Proof.
  induction a as [|[c x] a IH]; simpl; [reflexivity|].
  rewrite lbind_app, IH, lbind_scale; reflexivity.
Qed.

Lemma coeff_bind_addf k l f g :
  coeff k (lbind l (fun s => f s ++ g s)) = Cadd (coeff k (lbind l f)) (coeff k (lbind l g)).
Proof. rewrite !coeff_bind_sum. induction l as [|[x y] l IH]; simpl; [ring|]. rewrite IH, coeff_app. ring. Qed.
Lemma coeff_bind_scalef k l c f :
  coeff k (lbind l (fun s => lscale c (f s))) = Cmul c (coeff k (lbind l f)).
Proof. rewrite !coeff_bind_sum. induction l as [|[x y] l IH]; simpl; [ring|]. rewrite IH, coeff_scale. ring. Qed.
Lemma coeff_bind_ret k l : coeff k (lbind l (fun x => [(C1, x)])) = coeff k l.
Proof.
  induction l as [|[c x] l IH]; [reflexivity|].
  change (lbind ((c, x) :: l) (fun x => [(C1, x)])) with (lscale c [(C1, x)] ++ lbind l (fun x => [(C1, x)])).
  rewrite coeff_app, coeff_scale, IH. cbn [coeff]. destruct (keqb k x); ring.
Qed.
Lemma lbind_nilf l : lbind l (fun _ => []) = [].
Proof. induction l as [|[x y] l IH]; simpl; [reflexivity|assumption]. Qed.

(* decidable equality of formal sums *)
Definition lin_eqb (a b : lin) : bool :=
  forallb (fun e => Ceqb (coeff (snd e) a) (coeff (snd e) b)) (a ++ b).
Lemma coeff_notin k l : (forall e, In e l -> snd e <> k) -> coeff k l = C0.
Proof.
  induction l as [|[c x] l IH]; intros H; simpl; [reflexivity|].
  destruct (keqb_spec k x) as [->|NE]; [exfalso; apply (H (c, x)); [left; reflexivity|reflexivity]|].
  apply IH. intros e He. apply H. right; assumption.
Qed.
Theorem lin_eqb_sound a b : lin_eqb a b = true -> leq a b.
Proof.
  unfold lin_eqb. rewrite forallb_forall. intros H k.
  destruct (existsb (fun e => keqb k (snd e)) (a ++ b)) eqn:E.
  - apply existsb_exists in E. destruct E as [e [He Hk]]. destruct (keqb_spec k (snd e)) as [->|]; [|discriminate].
    specialize (H e He). apply Ceqb_eq in H. exact H.
  - assert (Hn : forall e, In e (a ++ b) -> snd e <> k).
    { intros e He Hk. assert (existsb (fun e => keqb k (snd e)) (a ++ b) = true).
      { apply existsb_exists. exists e. split; [assumption|]. subst k. apply keqb_refl. }
      congruence. }
    rewrite !coeff_notin; [reflexivity| |]; intros e He; apply Hn; apply in_or_app; [right|left]; assumption.
Qed.

End Lin.
Arguments coeff {K} keqb k l.
Arguments leq {K} keqb a b.
Arguments lscale {K} c l.
Arguments lbind {K} l f.
Arguments lin_eqb {K} keqb a b.
