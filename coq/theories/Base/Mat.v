(* Exact matrices over the Gaussian rationals: list of rows.  Used by the verified checkers on the
   exact values of floating-point results. *)
From Coq Require Import QArith Qcanon ZArith List Bool.
From OFV Require Import Base.Cplx.
Close Scope Qc_scope. Close Scope Q_scope.
Import ListNotations.

Definition vec := list C.
Definition mat := list vec.
Definition vdot (a b : vec) : C := fold_right (fun xy acc => Cadd (Cmul (fst xy) (snd xy)) acc) C0 (combine a b).
Definition mcol (m : mat) (j : nat) : vec := map (fun r => nth j r C0) m.
Definition ncols (m : mat) : nat := match m with [] => 0 | r :: _ => length r end.
Definition mtrans (m : mat) : mat := map (mcol m) (seq 0 (ncols m)).
Definition mconj (m : mat) : mat := map (map Cconj) m.
Definition mdag (m : mat) : mat := mtrans (mconj m).
Definition mvmul (m : mat) (x : vec) : vec := map (fun r => vdot r x) m.
Definition mmul (a b : mat) : mat := let bt := mtrans b in map (fun r => map (fun c => vdot r c) bt) a.
Definition madd (a b : mat) : mat := map (fun rr => map (fun xy => Cadd (fst xy) (snd xy)) (combine (fst rr) (snd rr))) (combine a b).
Definition msub (a b : mat) : mat := map (fun rr => map (fun xy => Csub (fst xy) (snd xy)) (combine (fst rr) (snd rr))) (combine a b).
Definition mscal (c : C) (a : mat) : mat := map (map (Cmul c)) a.
Definition mident (n : nat) : mat := map (fun i => map (fun j => if Nat.eqb i j then C1 else C0) (seq 0 n)) (seq 0 n).
Definition same_shape (a b : mat) : bool :=
  Nat.eqb (length a) (length b) && forallb (fun rr => Nat.eqb (length (fst rr)) (length (snd rr))) (combine a b).
Definition le2 (eps2 : Qc) (c : C) : bool := match Qccompare (Cnorm2 c) eps2 with Gt => false | _ => true end.
(* entrywise |a_ij - b_ij| <= eps  (eps2 = eps^2) *)
Definition mat_close (eps2 : Qc) (a b : mat) : bool :=
  same_shape a b && forallb (fun rr => forallb (fun xy => le2 eps2 (Csub (fst xy) (snd xy))) (combine (fst rr) (snd rr))) (combine a b).
Definition mat_eqb (a b : mat) : bool :=
  same_shape a b && forallb (fun rr => forallb (fun xy => Ceqb (fst xy) (snd xy)) (combine (fst rr) (snd rr))) (combine a b).
Definition vec_close (eps2 : Qc) (a b : vec) : bool :=
  Nat.eqb (length a) (length b) && forallb (fun xy => le2 eps2 (Csub (fst xy) (snd xy))) (combine a b).
Definition is_square (n : nat) (a : mat) : bool := Nat.eqb (length a) n && forallb (fun r => Nat.eqb (length r) n) a.
(* unitarity / isometry within eps:  A A^dagger ~ I *)
Definition rows_orthonormal (eps2 : Qc) (a : mat) : bool := mat_close eps2 (mmul a (mdag a)) (mident (length a)).
Definition qsq (num : Z) (den : positive) : Qc := let q := Q2Qc (num # den) in Qcmult q q.
