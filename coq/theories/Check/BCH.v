(* bch_expand on nilpotent algebras: for strictly upper triangular k x k matrices (nilpotent of class
   < k) exp and log are finite sums, so log(e^X e^Y ...) is an exact rational matrix; the truncated
   expansion of order >= k - 1 must equal it. *)
From Coq Require Import QArith Qcanon ZArith Arith List Bool.
From OFV Require Import Base.Cplx Base.Mat Check.BoseMatrix.
Close Scope Qc_scope. Close Scope Q_scope.
Import ListNotations.

Definition mzero (n : nat) : mat := map (fun _ => map (fun _ => C0) (seq 0 n)) (seq 0 n).
Fixpoint mpow (a : mat) (m : nat) : mat := match m with O => mident (length a) | S m' => mmul (mpow a m') a end.
Definition qinvn (m : nat) : C := (Qcinv (qz (Z.of_nat m)), Q2Qc 0).
Definition cfact_inv (m : nat) : C := (Qcinv (qz (fact m)), Q2Qc 0).
(* exp of a nilpotent matrix with a^k = 0 *)
Definition mexp_nil (k : nat) (a : mat) : mat :=
  fold_left (fun acc m => madd acc (mscal (cfact_inv m) (mpow a m))) (seq 0 k) (mzero (length a)).
(* log(1 + N) for nilpotent N, N^k = 0 *)
Definition mlog_nil (k : nat) (u : mat) : mat :=
  let n := msub u (mident (length u)) in
  fold_left (fun acc m => madd acc (mscal (Cmul (if Nat.odd m then C1 else Cm1) (qinvn m)) (mpow n m))) (seq 1 (k - 1)) (mzero (length u)).
Definition bch_exact (k : nat) (ops : list mat) : mat :=
  mlog_nil k (fold_left (fun acc x => mmul acc (mexp_nil k x)) ops (mident k)).
Definition strictly_upper (a : mat) : bool :=
  forallb (fun ir => forallb (fun jc => (Nat.ltb (fst ir) (fst jc)) || Cis0 (snd jc)) (combine (seq 0 (length (snd ir))) (snd ir)))
          (combine (seq 0 (length a)) a).
Definition bch_ok (eps2 : Qc) (k : nat) (ops : list mat) (result : mat) : bool :=
  forallb strictly_upper ops && mat_close eps2 (bch_exact k ops) result.
