(* Truncated-Fock matrices of bosonic operators against the Bargmann-Fock semantics.
   Orthonormal number states are |k> = x^k / sqrt(k!), hence <r| A |c> = [x^r](A x^c) * sqrt(r!/c!).
   A returned entry m is accepted against the exact Bargmann coefficient b and the rational ratio
   rho = r!/c! iff  | |m|^2 - |b|^2 rho | <= eps  and  m conj(b) is (within eps) real and >= 0.
   Only columns whose occupations cannot reach the truncation inside any term are compared. *)
From Coq Require Import QArith Qcanon ZArith NArith List Bool.
From OFV Require Import Base.Cplx Base.Lin Base.Mat Sem.BoseSem Model.SymbolicOp Model.LadderOp Model.Predicates Model.LCU.
Close Scope Qc_scope. Close Scope Q_scope.
Import ListNotations.

Fixpoint fact (n : nat) : Z := match n with O => 1%Z | S n' => (Z.of_nat n * fact n')%Z end.
Definition factv (k : bstate) : Z := fold_right (fun x acc => (fact (N.to_nat x) * acc)%Z) 1%Z k.
(* occupation vectors of m modes with entries < trunc, mode 0 most significant *)
Fixpoint fock_states (m : nat) (trunc : nat) : list bstate :=
  match m with
  | O => [[]]
  | S m' => flat_map (fun v => map (fun k => N.of_nat v :: k) (fock_states m' trunc)) (seq 0 trunc)
  end.
Definition raises_of (j : nat) (t : lword) : nat := length (filter (fun f => Nat.eqb (N.to_nat (fst f)) j && snd f) t).
Definition column_guarded (trunc : nat) (op : lop) (c : bstate) : bool :=
  forallb (fun tc => forallb (fun jx => Nat.ltb (N.to_nat (snd jx) + raises_of (fst jx) (fst tc)) trunc)
                             (combine (seq 0 (length c)) c)) op.
Definition entry_ok (eps : Qc) (m b : C) (rho : Qc) : bool :=
  Qc_leb (qabsq (Qcminus (Cnorm2 m) (Qcmult (Cnorm2 b) rho))) eps
  && let z := Cmul m (Cconj b) in Qc_leb (qabsq (snd z)) eps && Qc_leb (Qcopp eps) (fst z).
Definition bose_matrix_ok (ap1 : lfactor -> bstate -> lin bstate) (modes trunc : nat) (eps : Qc) (op : lop) (M : mat) : bool :=
  let st := fock_states modes trunc in
  Nat.eqb (length M) (length st) &&
  forallb (fun cj =>
     negb (column_guarded trunc op (fst cj)) ||
     let img := bden ap1 op (fst cj) in
     forallb (fun ri => entry_ok eps (nth (snd cj) (snd ri) C0) (coeff bs_eqb (fst (fst ri)) img)
                                 (Qcdiv (qz (factv (fst (fst ri)))) (qz (factv (fst cj)))))
             (combine (combine st (seq 0 (length st))) M))
    (combine st (seq 0 (length st))).
