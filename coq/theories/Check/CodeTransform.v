(* Checker for binary_code_transform: on every occupation vector v of the code's domain the returned
   QubitOperator acts on the encoded state |e(v)> exactly as the FermionOperator acts on |v>,
   transported by the encoder:  q |e(v)> = e( f |v> ). *)
From Coq Require Import NArith List Bool.
From OFV Require Import Base.Cplx Base.Lin Sem.PauliSem Sem.FermiSem Model.SymbolicOp Model.QubitOp Model.LadderOp
  Model.BinaryPoly Thm.C01.QubitHom.
Import ListNotations.
Definition map_state (e : N -> N) (l : lin N) : lin N := map (fun x => (fst x, e (snd x))) l.
Definition code_transform_check (rows : list N) (dom : list N) (f : lop) (q : qop) : bool :=
  forallb (fun v => lin_eqb N.eqb (qden q (encode rows v)) (map_state (encode rows) (fden f v))) dom.
(* the operator maps the domain to itself *)
Definition preserves_domain (dom : list N) (f : lop) : bool :=
  forallb (fun v => forallb (fun x => Cis0 (coeff N.eqb (snd x) (fden f v)) || existsb (N.eqb (snd x)) dom) (fden f v)) dom.
