(* Verified checkers for commutators / anticommutators / double commutators of fermionic and
   qubit operators: the reference value is computed in the proved Pauli algebra with exact
   accumulation and compared by pauli_equiv. *)
From Coq Require Import NArith List Bool Ring.
From OFV Require Import Base.Cplx Base.Lin Sem.PauliSem Sem.FermiSem Model.SymbolicOp Model.QubitOp
  Model.LadderOp Model.JordanWigner Thm.C01.QubitSimplify Thm.C01.SymHom Thm.C01.QubitHom
  Thm.C04.JWSound Check.DictEquiv Check.OpEquiv.
Import ListNotations.

Definition qadd0 : qop -> qop -> qop := iadd pfeqb Cis0.
Definition qsub0 : qop -> qop -> qop := isub pfeqb Cis0.
Definition qcomm (a b : qop) : qop := qsub0 (qmul a b) (qmul b a).
Definition qacomm (a b : qop) : qop := qadd0 (qmul a b) (qmul b a).

(* the linear map  s |-> A(B s) - B(A s)  on formal sums *)
Definition lcomm (A B : N -> lin N) (s : N) : lin N := lbind (B s) A ++ lscale Cm1 (lbind (A s) B).
Definition lacomm (A B : N -> lin N) (s : N) : lin N := lbind (B s) A ++ lbind (A s) B.

Lemma qadd0_den a b s : qden (qadd0 a b) s ~ qden a s ++ qden b s.
Proof. apply (add_hom pfactor pfeqb pfeqb_spec Cis0 pact). apply iadd_exact_Cis0. Qed.
Lemma qsub0_den a b s : qden (qsub0 a b) s ~ qden a s ++ lscale Cm1 (qden b s).
Proof. apply (sub_hom pfactor pfeqb pfeqb_spec Cis0 pact). apply iadd_exact_Cis0. Qed.

Lemma qcomm_den a b s : qden (qcomm a b) s ~ lcomm (qden a) (qden b) s.
Proof.
  unfold qcomm, lcomm. eapply leq_trans; [apply qsub0_den|].
  apply leq_app; [apply qmul_hom|apply leq_scale; apply qmul_hom].
Qed.
Lemma qacomm_den a b s : qden (qacomm a b) s ~ lacomm (qden a) (qden b) s.
Proof.
  unfold qacomm, lacomm. eapply leq_trans; [apply qadd0_den|].
  apply leq_app; apply qmul_hom.
Qed.

Lemma lcomm_ext A A' B B' s : (forall x, A x ~ A' x) -> (forall x, B x ~ B' x) -> lcomm A B s ~ lcomm A' B' s.
Proof.
  intros HA HB. unfold lcomm. apply leq_app; [|apply leq_scale]; apply leq_bind; auto; exact N.eqb_spec.
Qed.

(* qubit operators *)
Definition qcomm_check (a b r : qop) : bool := pauli_equiv r (qcomm a b).
Theorem qcomm_check_sound a b r : qcomm_check a b r = true -> forall s, qden r s ~ lcomm (qden a) (qden b) s.
Proof. intros H s. eapply leq_trans; [apply pauli_equiv_sound; exact H|apply qcomm_den]. Qed.

(* fermionic operators *)
Definition fcomm_check (a b r : lop) : bool := pauli_equiv (jw0 r) (qcomm (jw0 a) (jw0 b)).
Theorem fcomm_check_sound a b r : fcomm_check a b r = true -> forall s, fden r s ~ lcomm (fden a) (fden b) s.
Proof.
  intros H s. eapply leq_trans; [apply leq_sym; apply jw0_sound|].
  eapply leq_trans; [apply pauli_equiv_sound; exact H|].
  eapply leq_trans; [apply qcomm_den|]. apply lcomm_ext; intros; apply jw0_sound.
Qed.
Definition facomm_check (a b r : lop) : bool := pauli_equiv (jw0 r) (qacomm (jw0 a) (jw0 b)).
Definition fdcomm_check (a b c r : lop) : bool :=
  pauli_equiv (jw0 r) (qcomm (jw0 a) (qcomm (jw0 b) (jw0 c))).
Theorem fdcomm_check_sound a b c r : fdcomm_check a b c r = true ->
  forall s, fden r s ~ lcomm (fden a) (lcomm (fden b) (fden c)) s.
Proof.
  intros H s. eapply leq_trans; [apply leq_sym; apply jw0_sound|].
  eapply leq_trans; [apply pauli_equiv_sound; exact H|].
  eapply leq_trans; [apply qcomm_den|]. apply lcomm_ext; [intros; apply jw0_sound|].
  intros x. eapply leq_trans; [apply qcomm_den|]. apply lcomm_ext; intros; apply jw0_sound.
Qed.
(* is the (double) commutator zero? *)
Definition fcomm_zero (a b : lop) : bool := pauli_equiv (qcomm (jw0 a) (jw0 b)) [].
Definition fdcomm_zero (a b c : lop) : bool := pauli_equiv (qcomm (jw0 a) (qcomm (jw0 b) (jw0 c))) [].
Definition qcomm_zero (a b : qop) : bool := pauli_equiv (qcomm a b) [].
Definition qdcomm_zero (a b c : qop) : bool := pauli_equiv (qcomm a (qcomm b c)) [].
Theorem fcomm_zero_sound a b : fcomm_zero a b = true -> forall s, lcomm (fden a) (fden b) s ~ [].
Proof.
  intros H s. eapply leq_trans; [apply lcomm_ext; intros; apply leq_sym; apply jw0_sound|].
  eapply leq_trans; [apply leq_sym; apply qcomm_den|]. apply (pauli_equiv_sound _ _ H).
Qed.
