(* Specifications used for C08: substitution of rotated ladder operators (rotate_basis), the
   quadrature operators expressed in the Bargmann-Fock representation (get_boson_operator /
   get_quad_operator), and the DOCI correspondence between a pair-qubit operator and a fermionic
   operator on doubly occupied spatial orbitals. *)
From Coq Require Import ZArith NArith List Bool.
From OFV Require Import Base.Cplx Base.Lin Base.Mat Sem.PauliSem Sem.FermiSem Sem.BoseSem Model.SymbolicOp Model.QubitOp Model.LadderOp
  Thm.C01.QubitHom.
Import ListNotations.

(* a_c  |->  sum_C R[c][C] a_C ,   a+_c |-> sum_C conj(R[c][C]) a+_C *)
Definition subst_factor (R : mat) (n : nat) (f : lfactor) : list (lfactor * C) :=
  map (fun k => ((N.of_nat k, snd f),
                 let r := nth k (nth (N.to_nat (fst f)) R []) C0 in if snd f then Cconj r else r)) (seq 0 n).
Fixpoint subst_word (R : mat) (n : nat) (t : lword) : list (lword * C) :=
  match t with
  | [] => [([], C1)]
  | f :: t' => flat_map (fun fc => map (fun tc => (fst fc :: fst tc, Cmul (snd fc) (snd tc))) (subst_word R n t'))
                        (filter (fun fc => negb (Cis0 (snd fc))) (subst_factor R n f))
  end.
Definition subst_op (R : mat) (n : nat) (op : lop) : lop :=
  flat_map (fun tc => map (fun uc => (fst uc, Cmul (snd tc) (snd uc))) (subst_word R n (fst tc))) op.

(* quadratures in the Bargmann representation with s = sqrt(hbar/2) a rational:
   q_j = s (b_j + b+_j),  p_j = -i s (b_j - b+_j);  factor (j, false) = q_j, (j, true) = p_j *)
Definition qapply1_barg (s : C) (f : lfactor) (k : bstate) : lin bstate :=
  let lower := bapply1 (fst f, false) k in
  let raise := bapply1 (fst f, true) k in
  if snd f then lscale (Cmul (Copp Ci) s) lower ++ lscale (Cmul Ci s) raise
  else lscale s lower ++ lscale s raise.
(* boson operator (over bapply1) and quad operator (over qapply1_barg s) agree on the monomial grid *)
Definition bose_quad_equiv_on (s : C) (m : nat) (d : N) (b q : lop) : bool :=
  forallb (fun k => lin_eqb bs_eqb (bden bapply1 b k) (bden (qapply1_barg s) q k)) (grid m d).

(* DOCI: pair occupation p (bit j = pair j occupied) <-> spin-orbital state with orbitals 2j, 2j+1 *)
Definition expand_pairs (n : nat) (p : N) : N :=
  fold_right (fun j acc => if N.testbit p (N.of_nat j) then N.lor acc (N.shiftl 3 (N.of_nat (2 * j))) else acc) 0%N (seq 0 n).
Definition doci_ok (n : nat) (q : qop) (f : lop) : bool :=
  let ps := map N.of_nat (seq 0 (Nat.pow 2 n)) in
  forallb (fun p => let qi := qden q p in let fi := fden f (expand_pairs n p) in
     forallb (fun p' => Ceqb (coeff N.eqb p' qi) (coeff N.eqb (expand_pairs n p') fi)) ps) ps.
