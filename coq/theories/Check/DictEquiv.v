(* Verified checker: two term dictionaries without duplicate keys that agree coefficient-wise
   (absent = exactly zero) denote the same linear map, for any word semantics `act`. *)
From Coq Require Import NArith List Bool Ring Lia.
From OFV Require Import Base.Cplx Base.Lin Model.SymbolicOp Model.Program Thm.C01.SymHom.
Import ListNotations.

Section DictEquiv.
Variable F : Type.
Variable feqb : F -> F -> bool.
Hypothesis feqb_spec : forall a b, reflect (a = b) (feqb a b).
Variable act : term F -> N -> lin N.
Notation ncoeff := (@coeff N N.eqb).
Notation aop := (aop F act).
Notation dgetd := (dgetd F feqb).
Notation teqb_spec := (teqb_spec F feqb feqb_spec).

Definition dict_eqb (a b : sop F) : bool := dnodup F feqb a && dnodup F feqb b && dequiv F feqb a b.

Lemma dget_ddel_other (b : sop F) t t' : t' <> t -> dget feqb (ddel feqb b t) t' = dget feqb b t'.
Proof.
  intros Hne. induction b as [|[u c] b IH]; simpl; [reflexivity|].
  destruct (teqb_spec t u) as [->|N1]; simpl.
  - destruct (teqb_spec t' u); [contradiction|reflexivity].
  - destruct (teqb_spec t' u); [reflexivity|apply IH].
Qed.

Lemma dnodup_ddel (b : sop F) t : dnodup F feqb b = true -> dnodup F feqb (ddel feqb b t) = true.
Proof.
  induction b as [|[u c] b IH]; simpl; [reflexivity|]. intros H. apply andb_true_iff in H. destruct H as [H1 H2].
  destruct (teqb_spec t u) as [->|N1]; simpl; [assumption|].
  apply andb_true_iff; split; [|apply IH; assumption].
  apply negb_true_iff. apply negb_true_iff in H1.
  clear IH H2. induction b as [|[v d] b IHb]; simpl in *; [reflexivity|].
  apply orb_false_iff in H1. destruct H1 as [H1 H1'].
  destruct (teqb_spec t v); simpl; [assumption|]. rewrite H1. simpl. apply IHb; assumption.
Qed.

Lemma ddel_keys_ne (b : sop F) t : dnodup F feqb b = true ->
  forall u c, In (u, c) (ddel feqb b t) -> u <> t /\ In (u, c) b.
Proof.
  induction b as [|[v d] b IH]; simpl; [contradiction|]. intros H u c Hin.
  apply andb_true_iff in H. destruct H as [H1 H2].
  destruct (teqb_spec t v) as [->|N1].
  - split; [|right; assumption]. intros ->. apply negb_true_iff in H1.
    assert (existsb (fun tc => teqb feqb v (fst tc)) b = true).
    { apply existsb_exists. exists (v, c). split; [assumption|]. simpl. destruct (teqb_spec v v); congruence. }
    congruence.
  - destruct Hin as [E|Hin]; [inversion E; subst; split; [congruence|left; reflexivity]|].
    destruct (IH H2 u c Hin). split; [assumption|right; assumption].
Qed.

Lemma dsub_forall (a b : sop F) : dsub F feqb a b = true <->
  forall t c, In (t, c) a -> c = dgetd b t.
Proof.
  unfold dsub. rewrite forallb_forall. split.
  - intros H t c Hin. specialize (H (t, c) Hin). simpl in H. apply Ceqb_eq in H. exact H.
  - intros H [t c] Hin. simpl. apply Ceqb_eq. apply (H t c Hin).
Qed.

Lemma dget_In (b : sop F) t c : dget feqb b t = Some c -> exists t', t' = t /\ In (t', c) b.
Proof.
  induction b as [|[u d] b IH]; simpl; [discriminate|].
  destruct (teqb_spec t u) as [->|N1].
  - intros E; inversion E; subst. exists u. split; [reflexivity|left; reflexivity].
  - intros E. destruct (IH E) as [t' [E1 E2]]. exists t'. split; [assumption|right; assumption].
Qed.

Lemma aop_all_zero k (b : sop F) s : (forall t c, In (t, c) b -> c = C0) -> ncoeff k (aop b s) = C0.
Proof.
  induction b as [|[t c] b IH]; intros H; simpl; [reflexivity|].
  rewrite coeff_app, coeff_scale, IH by (intros; eapply H; right; eassumption).
  rewrite (H t c) by (left; reflexivity). ring.
Qed.

Lemma nodup_In_dget (b : sop F) t c : dnodup F feqb b = true -> In (t, c) b -> dget feqb b t = Some c.
Proof.
  induction b as [|[u d] b IH]; simpl; [contradiction|]. intros H Hin.
  apply andb_true_iff in H. destruct H as [H1 H2].
  destruct (teqb_spec t u) as [->|N1].
  - destruct Hin as [E|Hin]; [inversion E; reflexivity|].
    apply negb_true_iff in H1.
    assert (existsb (fun tc => teqb feqb u (fst tc)) b = true).
    { apply existsb_exists. exists (u, c). split; [assumption|]. simpl. destruct (teqb_spec u u); congruence. }
    congruence.
  - destruct Hin as [E|Hin]; [inversion E; congruence|]. apply IH; assumption.
Qed.

Theorem dict_eqb_sound a b : dict_eqb a b = true -> forall s, leq N.eqb (aop a s) (aop b s).
Proof.
  unfold dict_eqb, dequiv. intros H s k.
  apply andb_true_iff in H. destruct H as [H Heq]. apply andb_true_iff in H. destruct H as [Ha Hb].
  apply andb_true_iff in Heq. destruct Heq as [Hab Hba].
  rewrite dsub_forall in Hab, Hba.
  revert b Hb Hab Hba. induction a as [|[t c] a IH]; intros b Hb Hab Hba.
  - simpl. symmetry. apply aop_all_zero. intros t c Hin. rewrite (Hba t c Hin). reflexivity.
  - simpl in Ha. apply andb_true_iff in Ha. destruct Ha as [Ha1 Ha2].
    simpl. rewrite coeff_app, coeff_scale.
    assert (E : ncoeff k (aop b s) = Cadd (Cmul (dgetd b t) (ncoeff k (act t s))) (ncoeff k (aop (ddel feqb b t) s))).
    { rewrite (coeff_aop_ddel F feqb feqb_spec act). ring. }
    rewrite E. rewrite <- (Hab t c) by (left; reflexivity). f_equal.
    apply IH; [assumption|apply dnodup_ddel; assumption| |].
    + intros u d Hin. rewrite (Hab u d) by (right; assumption).
      unfold SymHom.dgetd. rewrite dget_ddel_other; [reflexivity|].
      intros ->. apply negb_true_iff in Ha1.
      assert (existsb (fun tc => teqb feqb t (fst tc)) a = true).
      { apply existsb_exists. exists (t, d). split; [assumption|]. simpl. destruct (teqb_spec t t); congruence. }
      congruence.
    + intros u d Hin. destruct (ddel_keys_ne b t Hb u d Hin) as [Hne Hin'].
      rewrite (Hba u d Hin'). unfold SymHom.dgetd. simpl. destruct (teqb_spec u t); [contradiction|reflexivity].
Qed.
End DictEquiv.
