(* Encoding-agnostic checker for fermion-to-qubit transforms, as the property states it:
   given the images L_m of the creation operators a+_m (m < n), define
       W |v> := L_{m1} L_{m2} ... L_{mk} |0...0>     (m1 < m2 < ... the occupied modes of v)
   and accept (f, q) iff  q W|v> = W (f |v>)  for every occupation v < 2^n, i.e. q is f transported
   by the basis relabelling W (a signed permutation when the check passes for all ladder operators). *)
From Coq Require Import NArith List Bool.
From OFV Require Import Base.Cplx Base.Lin Sem.PauliSem Sem.FermiSem Model.SymbolicOp Model.QubitOp Model.LadderOp
  Thm.C01.QubitHom.
Import ListNotations.

Definition qden_lin (q : qop) (l : lin N) : lin N := lbind l (qden q).
(* occupied modes of v below n, increasing *)
Definition occupied (n : nat) (v : N) : list nat := filter (fun m => bit v (N.of_nat m)) (seq 0 n).
Definition Wstate (ladders : list qop) (n : nat) (v : N) : lin N :=
  fold_right (fun m acc => qden_lin (nth m ladders []) acc) [(C1, 0%N)] (occupied n v).
Definition Wlin (ladders : list qop) (n : nat) (l : lin N) : lin N := lbind l (Wstate ladders n).
Definition all_states (n : nat) : list N := map N.of_nat (seq 0 (Nat.pow 2 n)).

Definition encoding_check (n : nat) (ladders : list qop) (f : lop) (q : qop) : bool :=
  forallb (fun v => lin_eqb N.eqb (qden_lin q (Wstate ladders n v)) (Wlin ladders n (fden f v))) (all_states n).
(* W is a signed permutation on the 2^n occupation states: every W|v> is a single basis state with
   coefficient +-1 (after collecting), and distinct v give distinct states *)
Definition lin_support (l : lin N) : list N :=
  filter (fun k => negb (Cis0 (coeff N.eqb k l))) (nodup N.eq_dec (map snd l)).
Definition W_signed_perm (n : nat) (ladders : list qop) : bool :=
  let imgs := map (fun v => (lin_support (Wstate ladders n v), Wstate ladders n v)) (all_states n) in
  forallb (fun sl => match fst sl with
                     | [k] => let c := coeff N.eqb k (snd sl) in Ceqb c C1 || Ceqb c Cm1
                     | _ => false end) imgs
  && Nat.eqb (length (nodup N.eq_dec (flat_map fst imgs))) (Nat.pow 2 n).
(* number operators are diagonal: only I/Z factors *)
Definition diagonal_op (q : qop) : bool :=
  forallb (fun tc => forallb (fun f => match snd f with PZ | PI => true | _ => false end) (fst tc)) q.
