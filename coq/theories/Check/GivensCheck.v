(* Verified-by-construction reconstruction checkers for the Givens decompositions: the returned
   rotations (given by the exact float values of cos(theta), sin(theta), e^{i phi}) are applied, as
   elementary matrices G = [[c, -e^{i phi} s], [s, e^{i phi} c]] acting on two adjacent columns
   (M -> M G^dagger), to the input, and the result is compared with the claimed diagonal form. *)
From Coq Require Import QArith Qcanon ZArith Arith List Bool.
From OFV Require Import Base.Cplx Base.Mat.
Close Scope Qc_scope. Close Scope Q_scope.
Import ListNotations.

Record rot := mkrot { ri : nat; rj : nat; rc : C; rs : C; rph : C }.
Fixpoint vset (v : vec) (i : nat) (x : C) : vec :=
  match v, i with [], _ => [] | _ :: v', O => x :: v' | y :: v', S i' => y :: vset v' i' x end.
Definition g00 (r : rot) := rc r.
Definition g01 (r : rot) := Copp (Cmul (rph r) (rs r)).
Definition g10 (r : rot) := rs r.
Definition g11 (r : rot) := Cmul (rph r) (rc r).
(* columns i, j of every row: a' = G00 a + conj(G01) b ; b' = G10 a + conj(G11) b *)
Definition rot_row (conjugated : bool) (off : nat) (r : rot) (row : vec) : vec :=
  let cj := fun z => if conjugated then Cconj z else z in
  let a := nth (off + ri r) row C0 in let b := nth (off + rj r) row C0 in
  vset (vset row (off + ri r) (Cadd (Cmul (cj (g00 r)) a) (Cmul (Cconj (cj (g01 r))) b)))
       (off + rj r) (Cadd (Cmul (cj (g10 r)) a) (Cmul (Cconj (cj (g11 r))) b)).
Definition rot_cols (r : rot) (M : mat) : mat := map (rot_row false 0 r) M.
Definition apply_rots (M : mat) (rots : list rot) : mat := fold_left (fun m r => rot_cols r m) rots M.

Definition diag_block (D : vec) (ncols off : nat) : mat :=
  map (fun id => map (fun j => if Nat.eqb j (off + fst id) then snd id else C0) (seq 0 ncols)) (combine (seq 0 (length D)) D).
Definition unit_modulus (eps : Qc) (D : vec) : bool :=
  forallb (fun d => match Qccompare (let x := Qcminus (Cnorm2 d) (Q2Qc 1) in if match Qccompare x (Q2Qc 0) with Lt => true | _ => false end then Qcopp x else x) eps with Gt => false | _ => true end) D.
Definition rot_wf (eps : Qc) (r : rot) : bool :=      (* c^2 + s^2 = 1 and |e^{i phi}| = 1 within eps, adjacent indices *)
  unit_modulus eps [rph r] && unit_modulus eps [(Qcplus (fst (rc r)) (Q2Qc 0), fst (rs r))] && Nat.eqb (rj r) (S (ri r)).

(* givens_decomposition: V Q U^dagger = (D | 0) *)
Definition givens_ok (eps2 eps : Qc) (Q V : mat) (rots : list rot) (D : vec) : bool :=
  forallb (rot_wf eps) rots && rows_orthonormal eps2 V && unit_modulus eps D &&
  mat_close eps2 (apply_rots (mmul V Q) rots) (diag_block D (ncols Q) 0).
Definition square_ok (eps2 eps : Qc) (Q : mat) (rots : list rot) (D : vec) : bool :=
  forallb (rot_wf eps) rots && unit_modulus eps D && mat_close eps2 (apply_rots Q rots) (diag_block D (ncols Q) 0).

(* fermionic Gaussian: ops are particle-hole swaps of columns n-1 and 2n-1 or double rotations *)
Inductive gop := Pht | Dbl (r : rot).
Definition swap_cols (i j : nat) (M : mat) : mat := map (fun row => vset (vset row i (nth j row C0)) j (nth i row C0)) M.
Definition gop_apply (n : nat) (M : mat) (o : gop) : mat :=
  match o with
  | Pht => swap_cols (n - 1) (2 * n - 1) M
  | Dbl r => map (fun row => rot_row true n r (rot_row false 0 r row)) M
  end.
Definition gaussian_ok (eps2 eps : Qc) (n : nat) (W : mat) (ops : list gop) (left_rots : list rot) (D DL : vec) : bool :=
  (* L = diag(DL) X^dagger where X = I G1^dagger G2^dagger ... ;  V = (L diag(D))^T *)
  let X := apply_rots (mident n) left_rots in
  let L := map (fun dr => map (Cmul (fst dr)) (snd dr)) (combine DL (mdag X)) in
  let V := mtrans (map (fun row => map (fun xd => Cmul (fst xd) (snd xd)) (combine row D)) L) in
  forallb (rot_wf eps) left_rots && forallb (fun o => match o with Pht => true | Dbl r => rot_wf eps r end) ops &&
  unit_modulus eps D && unit_modulus eps DL && rows_orthonormal eps2 V &&
  mat_close eps2 (fold_left (gop_apply n) ops (mmul V W)) (diag_block D (2 * n) n).
