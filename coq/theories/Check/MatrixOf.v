(* The matrix of a qubit / fermion operator in the big-endian computational basis, computed from the
   semantics: entry (r, c) = <r| op |c>, basis vector number k has qubit/mode j set iff bit (n-1-j) of k. *)
From Coq Require Import NArith List Bool.
From OFV Require Import Base.Cplx Base.Lin Base.Mat Sem.PauliSem Sem.FermiSem Model.SymbolicOp Model.QubitOp Model.LadderOp
  Thm.C01.QubitHom Check.Sectors.
Import ListNotations.

Definition qubit_matrix (n : nat) (op : qop) : mat :=
  let st := map (mask_of_index n) (all_indices n) in
  let cols := map (fun c => qden op c) st in          (* the image of every basis state, once *)
  map (fun r => map (fun img => coeff N.eqb r img) cols) st.
Definition fermi_matrix (n : nat) (op : lop) : mat :=
  let st := map (mask_of_index n) (all_indices n) in
  let cols := map (fun c => fden op c) st in
  map (fun r => map (fun img => coeff N.eqb r img) cols) st.
