(* 1-norms of Jordan-Wigner images, computed in the proved algebra. *)
From Coq Require Import QArith Qcanon ZArith NArith List Bool.
From OFV Require Import Base.Cplx Sem.PauliSem Model.SymbolicOp Model.QubitOp Model.LadderOp Model.JordanWigner
  Model.Predicates Model.LCU Check.OpEquiv.
Close Scope Qc_scope. Close Scope Q_scope.
Import ListNotations.

Definition qop_real (q : qop) : bool := forallb (fun tc => Qc_eq_bool (snd (snd tc)) (Q2Qc 0)) q.
Definition one_norm (q : qop) : Qc := fold_left (fun acc tc => Qcplus acc (qabsq (fst (snd tc)))) q (Q2Qc 0).
Definition nonid (q : qop) : qop := filter (fun tc => match fst tc with [] => false | _ => true end) q.
(* |val - ||JW(f)||_1| <= tol, over all terms or over the non-identity terms *)
Definition one_norm_ok (f : lop) (with_identity : bool) (val tol : Qc) : bool :=
  let q := qnorm (jw0 f) in
  qop_real q && Qc_leb (qabsq (Qcminus val (one_norm (if with_identity then q else nonid q)))) tol.
