(* Verified decision procedures used as oracles on implementation outputs:
   pauli_equiv a b = true  ->  a and b denote the same operator on every basis state;
   fermi_pauli_equiv f q = true -> the QubitOperator q acts on qubit states exactly as the
   FermionOperator f acts on occupation states (mode j on qubit j);
   fermi_equiv f g = true -> f and g denote the same Fock-space operator. *)
From Coq Require Import NArith List Bool.
From OFV Require Import Base.Cplx Base.Lin Sem.PauliSem Sem.FermiSem Model.SymbolicOp Model.QubitOp
  Model.LadderOp Model.JordanWigner Model.Program Thm.C01.QubitSimplify Thm.C01.SymHom Thm.C01.QubitHom
  Thm.C04.JWSound Check.DictEquiv.
Import ListNotations.

Notation "a ~ b" := (leq N.eqb a b) (at level 70).

(* re-simplify every term and merge equal keys: op * identity *)
Definition qnorm (a : qop) : qop := qmul a ident.
Lemma qnorm_den a s : qden (qnorm a) s ~ qden a s.
Proof.
  unfold qnorm. eapply leq_trans; [apply qmul_hom|].
  intros k. unfold qden at 1. unfold aop, ident. cbn [flat_map fst snd]. rewrite app_nil_r.
  unfold pact at 1. cbn [apply_word lscale map fst snd lbind flat_map]. rewrite app_nil_r.
  rewrite coeff_scale. ring.
Qed.

Definition pauli_equiv (a b : qop) : bool := dict_eqb pfactor pfeqb (qnorm a) (qnorm b).
Theorem pauli_equiv_sound a b : pauli_equiv a b = true -> forall s, qden a s ~ qden b s.
Proof.
  intros H s. eapply leq_trans; [apply leq_sym; apply qnorm_den|].
  eapply leq_trans; [|apply qnorm_den].
  apply (dict_eqb_sound pfactor pfeqb pfeqb_spec pact _ _ H).
Qed.

Definition fermi_pauli_equiv (f : lop) (q : qop) : bool := pauli_equiv (jw0 f) q.
Theorem fermi_pauli_equiv_sound f q : fermi_pauli_equiv f q = true -> forall s, fden f s ~ qden q s.
Proof.
  intros H s. eapply leq_trans; [apply leq_sym; apply jw0_sound|]. apply pauli_equiv_sound; assumption.
Qed.

Definition fermi_equiv (f g : lop) : bool := pauli_equiv (jw0 f) (jw0 g).
Theorem fermi_equiv_sound f g : fermi_equiv f g = true -> forall s, fden f s ~ fden g s.
Proof.
  intros H s. eapply leq_trans; [apply leq_sym; apply jw0_sound|].
  eapply leq_trans; [|apply jw0_sound]. apply pauli_equiv_sound; assumption.
Qed.

(* canonical-form checker for QubitOperator dictionaries *)
Fixpoint canon_fromb (j : N) (t : pword) : bool :=
  match t with
  | [] => true
  | f :: t' => N.leb j (fst f) && negb (pauli_eqb (snd f) PI) && canon_fromb (N.succ (fst f)) t'
  end.
Definition canonicalb (t : pword) := canon_fromb 0 t.
Lemma canon_fromb_sound t : forall j, canon_fromb j t = true -> canon_from j t.
Proof.
  induction t as [|f t IH]; intros j H; [constructor|].
  simpl in H. apply andb_true_iff in H. destruct H as [H H3]. apply andb_true_iff in H. destruct H as [H1 H2].
  constructor; [apply N.leb_le; assumption| |apply IH; assumption].
  intros E. rewrite E in H2. discriminate.
Qed.
Definition qop_canonicalb (a : qop) : bool := forallb (fun tc => canonicalb (fst tc)) a.

(* ---- tolerance versions for float-valued operators: every coefficient of the exact difference
        has modulus at most eps (eps2 = eps^2) ---- *)
From Coq Require Import QArith Qcanon.
Close Scope Qc_scope. Close Scope Q_scope.
Definition qdiff (a b : qop) : qop := isub pfeqb Cis0 (qnorm a) (qnorm b).
Definition coeff_le2 (eps2 : Qc) (c : C) : bool :=
  match Qccompare (Cnorm2 c) eps2 with Gt => false | _ => true end.
Definition pauli_close (eps2 : Qc) (a b : qop) : bool := forallb (fun tc => coeff_le2 eps2 (snd tc)) (qdiff a b).
Definition fermi_close (eps2 : Qc) (f g : lop) : bool := pauli_close eps2 (jw0 f) (jw0 g).
Definition fermi_pauli_close (eps2 : Qc) (f : lop) (q : qop) : bool := pauli_close eps2 (jw0 f) q.
