(* Checkers for quadratic Hamiltonians (C12), on exact float values.
   Convention of the docstring: b+_j = sum_k W[j][k] a+_k + W[j][n+k] a_k  (n x 2n), or
   b+_j = sum_k W[j][k] a+_k (n x n, number conserving);  H = sum_j eps_j b+_j b_j + constant. *)
From Coq Require Import QArith Qcanon ZArith NArith Arith List Bool.
From OFV Require Import Base.Cplx Base.Lin Base.Mat Sem.PauliSem Sem.FermiSem Model.SymbolicOp Model.QubitOp Model.LadderOp
  Model.JordanWigner Model.Conjugate Check.OpEquiv Check.Sectors Check.MatrixOf Thm.C01.FermiHom Thm.C07.Adjoint.
Close Scope Qc_scope. Close Scope Q_scope.
Import ListNotations.

Definition bdag_row (n : nat) (row : vec) : lop :=
  filter (fun tc => negb (Cis0 (snd tc)))
    (map (fun kc => ([(N.of_nat (fst kc), true)], snd kc)) (combine (seq 0 n) (firstn n row)) ++
     map (fun kc => ([(N.of_nat (fst kc), false)], snd kc)) (combine (seq 0 n) (skipn n row))).
(* sum_j eps_j b+_j b_j + constant as a FermionOperator in the original modes *)
Definition diag_form (n : nat) (W : mat) (eps : vec) (const : C) : lop :=
  ([], const) :: flat_map (fun re => let bd := bdag_row n (fst re) in iscale (fmul bd (hc_map bd)) (snd re)) (combine W eps).
Definition bogoliubov_ok (tol2 : Qc) (n : nat) (H : lop) (W : mat) (eps : vec) (const : C) : bool :=
  fermi_close tol2 H (diag_form n W eps const).
(* canonical constraints: W1 W1^dag + W2 W2^dag = 1, W1 W2^T + W2 W1^T = 0 (or W unitary when n x n) *)
Definition left_block (n : nat) (W : mat) : mat := map (firstn n) W.
Definition right_block (n : nat) (W : mat) : mat := map (skipn n) W.
Definition canonical_constraints (tol2 : Qc) (n : nat) (W : mat) : bool :=
  if Nat.eqb (ncols W) n then rows_orthonormal tol2 W
  else let W1 := left_block n W in let W2 := right_block n W in
       mat_close tol2 (madd (mmul W1 (mdag W1)) (mmul W2 (mdag W2))) (mident n)
       && mat_close tol2 (madd (mmul W1 (mtrans W2)) (mmul W2 (mtrans W1))) (map (fun _ => map (fun _ => C0) (seq 0 n)) (seq 0 n)).

(* majorana_form: H = (i/2) sum A_jk f_j f_k + c with f_j = (a+_j + a_j)/sqrt 2, f_{j+n} = i (a+_j - a_j)/sqrt 2;
   f_j f_k carries 1/2, so with g = sqrt 2 f:  H = (i/4) sum A_jk g_j g_k + c *)
Definition gmaj (n : nat) (j : nat) : lop :=
  if j <? n then [([(N.of_nat j, true)], C1); ([(N.of_nat j, false)], C1)]
  else [([(N.of_nat (j - n), true)], Ci); ([(N.of_nat (j - n), false)], Copp Ci)].
Definition majorana_form_op (n : nat) (A : mat) (const : C) : lop :=
  ([], const) :: flat_map (fun jr => flat_map (fun kc =>
      if Cis0 (snd kc) then [] else iscale (fmul (gmaj n (fst jr)) (gmaj n (fst kc))) (Cmul (Cmk 0%Z 1%positive 1%Z 4%positive) (snd kc)))
      (combine (seq 0 (2 * n)) (snd jr))) (combine (seq 0 (2 * n)) A).
Definition majorana_form_ok (tol2 : Qc) (n : nat) (H : lop) (A : mat) (const : C) : bool :=
  fermi_close tol2 H (majorana_form_op n A const)
  && mat_close tol2 (mtrans A) (mscal Cm1 A) && forallb (forallb (fun c => Qc_eq_bool (snd c) (Q2Qc 0))) A.

(* eigenvector check on the exact Fock matrix: |H psi - E psi|_inf <= tol, | |psi|^2 - 1 | <= tol *)
Definition eigen_ok (tol2 : Qc) (n : nat) (H : lop) (psi : vec) (E : C) : bool :=
  let M := fermi_matrix n H in
  vec_close tol2 (mvmul M psi) (map (Cmul E) psi) && le2 tol2 (Csub (vdot (map Cconj psi) psi) C1).
