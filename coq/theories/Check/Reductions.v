(* Checkers for qubit / orbital reductions (C16). *)
From Coq Require Import QArith Qcanon ZArith NArith List Bool.
From OFV Require Import Base.Cplx Base.Lin Sem.PauliSem Sem.FermiSem Model.SymbolicOp Model.QubitOp Model.LadderOp Model.JordanWigner
  Thm.C01.QubitHom Check.DictEquiv Check.OpEquiv Check.Commutator.
Close Scope Qc_scope. Close Scope Q_scope.
Import ListNotations.

(* projector onto the joint +1 eigenspace of the stabilizers: prod_i (1 + s_i)/2 *)
Definition sector_projector (stabs : list qop) : qop :=
  fold_left (fun acc s => qmul acc (iscale (qadd0 ident s) Chalf)) stabs ident.
(* H' agrees with H on the sector:  (H' - H) P = 0 *)
Definition agrees_on_sector (H H' : qop) (stabs : list qop) : bool :=
  pauli_equiv (qmul (qsub0 H' H) (sector_projector stabs)) [].
(* stabilizers commute pairwise and with H *)
Definition stabilizers_admissible (H : qop) (stabs : list qop) : bool :=
  forallb (fun s => qcomm_zero H s && forallb (fun s' => qcomm_zero s s') stabs) stabs.
(* on every listed position all terms carry the same single Pauli letter (or nothing) *)
Definition letter_at (pos : N) (t : pword) : list pauli := map snd (filter (fun f : pfactor => N.eqb (fst f) pos) t).
Definition single_letter_on (positions : list N) (op : qop) : bool :=
  forallb (fun pos => let ls := flat_map (fun tc => letter_at pos (fst tc)) op in
                      match ls with [] => true | l :: ls' => forallb (pauli_eqb l) ls' end) positions.
(* taper_off_qubits' last step: drop the factors on removed positions, shift the other indices down *)
Definition shift_idx (removed : list N) (i : N) : N := (i - N.of_nat (length (filter (fun r => N.ltb r i) removed)))%N.
Definition taper_term (removed : list N) (t : pword) : pword :=
  map (fun f : pfactor => (shift_idx removed (fst f), snd f)) (filter (fun f : pfactor => negb (existsb (N.eqb (fst f)) removed)) t).
Definition taper_model (removed : list N) (op : qop) : qop :=
  fold_left (fun acc tc => qadd acc (qmk (taper_term removed (fst tc)) (snd tc))) op [].

(* insert the bits of b (kept positions, increasing) and the fixed bits into an n-qubit mask *)
Definition ins_mask (n : nat) (fixed_pos : list N) (fixed_val : list bool) (b : N) : N :=
  let kept := filter (fun j => negb (existsb (N.eqb j) fixed_pos)) (map N.of_nat (seq 0 n)) in
  let a := fold_right (fun (ij : nat * N) (acc : N) => if N.testbit b (N.of_nat (fst ij)) then N.lor acc (N.shiftl 1 (snd ij)) else acc)
                      0%N (combine (seq 0 (length kept)) kept) in
  fold_right (fun (pv : N * bool) (acc : N) => if snd pv then N.lor acc (N.shiftl 1 (fst pv)) else acc) a (combine fixed_pos fixed_val).
Definition small_states (m : nat) : list N := map N.of_nat (seq 0 (Nat.pow 2 m)).
(* project_onto_sector: <b'| Hp |b> = <ins b'| H |ins b> *)
Definition project_ok (n : nat) (qubits : list N) (sectors : list bool) (H Hp : qop) : bool :=
  let st := small_states (n - length qubits) in
  forallb (fun b => let img := qden H (ins_mask n qubits sectors b) in let imgp := qden Hp b in
     forallb (fun b' => Ceqb (coeff N.eqb (ins_mask n qubits sectors b') img) (coeff N.eqb b' imgp)) st) st.
(* freeze_orbitals with pruning: same statement on Fock states *)
Definition freeze_ok (n : nat) (frozen : list N) (occ : list bool) (H Hf : lop) : bool :=
  let st := small_states (n - length frozen) in
  forallb (fun b => let img := fden H (ins_mask n frozen occ b) in let imgf := fden Hf b in
     forallb (fun b' => Ceqb (coeff N.eqb (ins_mask n frozen occ b') img) (coeff N.eqb b' imgf)) st) st.
(* rotate_qubit_by_pauli:  R = (c - i s P) Q (c + i s P) with c = cos(theta), s = sin(theta) given exactly *)
Definition rotate_ok (eps2 : Qc) (c s : C) (Q P R : qop) : bool :=
  let U := qsub0 (iscale ident c) (iscale P (Cmul Ci s)) in
  let Ud := qadd0 (iscale ident c) (iscale P (Cmul Ci s)) in
  pauli_close eps2 R (qmul (qmul U Q) Ud).
(* number of qubits an operator acts on: max index + 1 *)
Definition qop_width (op : qop) : N :=
  fold_right (fun tc acc => fold_right (fun f a => N.max a (N.succ (fst f))) acc (fst tc)) 0%N op.
