(* Verified checkers for the measurement schedules of measurements/fermion_partitioning.py and
   qubit_partitioning.py.  A pairing is a list of entries: inl (a, b) a pair, inr a an unpaired label. *)
From Coq Require Import Arith List Bool Sorting.Mergesort Orders.
Import ListNotations.

Definition entry := (nat * nat + nat)%type.
Definition pairing := list entry.
Definition entry_labels (e : entry) : list nat := match e with inl (a, b) => [a; b] | inr a => [a] end.
Definition pairing_labels (p : pairing) : list nat := flat_map entry_labels p.
Definition singles (p : pairing) : nat := length (filter (fun e => match e with inr _ => true | _ => false end) p).

Fixpoint insert_sorted (x : nat) (l : list nat) : list nat :=
  match l with [] => [x] | y :: l' => if x <=? y then x :: l else y :: insert_sorted x l' end.
Definition sort_nat (l : list nat) : list nat := fold_right insert_sorted [] l.
Fixpoint list_eqb (a b : list nat) : bool :=
  match a, b with [] , [] => true | x :: a', y :: b' => (x =? y) && list_eqb a' b' | _, _ => false end.
Lemma list_eqb_eq a b : list_eqb a b = true -> a = b.
Proof. revert b; induction a as [|x a IH]; intros [|y b] H; simpl in H; try discriminate; [reflexivity|].
  apply andb_true_iff in H. destruct H as [H1 H2]. apply Nat.eqb_eq in H1. subst. f_equal. apply IH; assumption. Qed.

(* every label exactly once *)
Definition is_matching (labels : list nat) (p : pairing) : bool :=
  list_eqb (sort_nat (pairing_labels p)) (sort_nat labels).
Definition has_pair (a b : nat) (p : pairing) : bool :=
  existsb (fun e => match e with inl (x, y) => ((x =? a) && (y =? b)) || ((x =? b) && (y =? a)) | inr _ => false end) p.
Definition count_pair (a b : nat) (ps : list pairing) : nat := length (filter (has_pair a b) ps).

Fixpoint pairs_of (l : list nat) : list (nat * nat) :=
  match l with [] => [] | x :: l' => map (fun y => (x, y)) l' ++ pairs_of l' end.

(* pair_within: perfect matchings (one unpaired label iff the length is odd) covering every pair *)
Definition pair_within_ok (labels : list nat) (ps : list pairing) : bool :=
  forallb (fun p => is_matching labels p && (singles p =? Nat.modulo (length labels) 2)) ps
  && forallb (fun ab => existsb (has_pair (fst ab) (snd ab)) ps) (pairs_of labels).
(* pair_between: matchings of the union; every cross pair exactly once *)
Definition pair_between_ok (f1 f2 : list nat) (ps : list pairing) : bool :=
  forallb (fun p => is_matching (f1 ++ f2) p) ps
  && forallb (fun a => forallb (fun b => count_pair a b ps =? 1) f2) f1.

Theorem pair_within_ok_sound labels ps : pair_within_ok labels ps = true ->
  (forall p, In p ps -> sort_nat (pairing_labels p) = sort_nat labels) /\
  (forall a b, In (a, b) (pairs_of labels) -> exists p, In p ps /\ has_pair a b p = true).
Proof.
  unfold pair_within_ok. rewrite andb_true_iff, !forallb_forall. intros [H1 H2]. split.
  - intros p Hp. specialize (H1 p Hp). apply andb_true_iff in H1. apply list_eqb_eq. apply H1.
  - intros a b Hab. specialize (H2 (a, b) Hab). apply existsb_exists in H2. exact H2.
Qed.

(* all 4-subsets (as increasing quadruples) *)
Fixpoint subsets_k (k : nat) (l : list nat) : list (list nat) :=
  match k, l with
  | O, _ => [[]]
  | S _, [] => []
  | S k', x :: l' => map (cons x) (subsets_k k' l') ++ subsets_k k l'
  end.
Definition has_split (a b c d : nat) (p : pairing) : bool := has_pair a b p && has_pair c d p.
Definition quad_covered (q : list nat) (ps : list pairing) : bool :=
  match q with
  | [i; j; k; l] => existsb (fun p => has_split i j k l p || has_split i k j l p || has_split i l j k p) ps
  | _ => true
  end.
(* pair_within_simultaneously: for every four labels one of the three 2+2 splits is co-scheduled *)
Definition pws_ok (labels : list nat) (ps : list pairing) : bool :=
  forallb (fun p => is_matching labels p) ps && forallb (fun q => quad_covered q ps) (subsets_k 4 labels).
Theorem pws_ok_sound labels ps : pws_ok labels ps = true ->
  forall i j k l, In [i; j; k; l] (subsets_k 4 labels) ->
  exists p, In p ps /\ (has_split i j k l p || has_split i k j l p || has_split i l j k p) = true.
Proof.
  unfold pws_ok. rewrite andb_true_iff, !forallb_forall. intros [_ H] i j k l Hq.
  specialize (H _ Hq). simpl in H. apply existsb_exists in H. exact H.
Qed.
(* symmetry-restricted variant: only quadruples satisfying `allowed` must be covered, and pairings
   need not contain every label *)
Definition nodup_labels (p : pairing) : bool :=
  let l := sort_nat (pairing_labels p) in
  (fix nd (l : list nat) : bool := match l with x :: ((y :: _) as l') => negb (x =? y) && nd l' | _ => true end) l.
Definition pws_sym_ok (labels : list nat) (allowed : list nat -> bool) (ps : list pairing) : bool :=
  forallb nodup_labels ps &&
  forallb (fun q => negb (allowed q) || quad_covered q ps) (subsets_k 4 labels).

(* partitions: every k-subset is split perfectly (each element in a different part) by some partition *)
Definition part_of (x : nat) (parts : list (list nat)) : list nat :=
  flat_map (fun ip => if existsb (Nat.eqb x) (snd ip) then [fst ip] else []) (combine (seq 0 (length parts)) parts).
Definition splits (s : list nat) (parts : list (list nat)) : bool :=
  let ids := flat_map (fun x => part_of x parts) s in
  (length ids =? length s) && (length (nodup Nat.eq_dec ids) =? length s).
Definition partitions_ok (labels : list nat) (k : nat) (parts : list (list (list nat))) : bool :=
  forallb (fun ps => list_eqb (sort_nat (concat ps)) (sort_nat labels)) parts
  && forallb (fun s => existsb (splits s) parts) (subsets_k k labels).
Theorem partitions_ok_sound labels k parts : partitions_ok labels k parts = true ->
  forall s, In s (subsets_k k labels) -> exists ps, In ps parts /\ splits s ps = true.
Proof.
  unfold partitions_ok. rewrite andb_true_iff, !forallb_forall. intros [_ H] s Hs.
  specialize (H s Hs). apply existsb_exists in H. exact H.
Qed.

(* pauli_string_iterator: letters 0 = I, 1 = X, 2 = Y, 3 = Z; every assignment of X/Y/Z to every
   subset of at most k positions is matched by some string *)
Fixpoint assignments (s : list nat) : list (list (nat * nat)) :=
  match s with
  | [] => [[]]
  | x :: s' => flat_map (fun a => [(x, 1) :: a; (x, 2) :: a; (x, 3) :: a]) (assignments s')
  end.
Definition matches (a : list (nat * nat)) (w : list nat) : bool :=
  forallb (fun xp => nth (fst xp) w 0 =? snd xp) a.
Definition pauli_strings_ok (n k : nat) (ws : list (list nat)) : bool :=
  forallb (fun w => length w =? n) ws &&
  forallb (fun s => forallb (fun a => existsb (matches a) ws) (assignments s)) (subsets_k k (seq 0 n)).

(* ---- group_into_tensor_product_basis_sets: checker on the returned dictionary ---- *)
From Coq Require Import NArith.
From OFV Require Import Base.Cplx Sem.PauliSem Model.SymbolicOp Model.QubitOp Model.Program Check.DictEquiv.
(* every factor of the term occurs in the key: the term is diagonal in the key's tensor-product basis *)
Definition sub_term (t key : pword) : bool := forallb (fun f => existsb (pfeqb f) key) t.
(* a key names one Pauli per qubit: strictly increasing qubit indices, no identity *)
Fixpoint key_wf_from (j : N) (key : pword) : bool :=
  match key with
  | [] => true
  | f :: k' => N.leb j (fst f) && negb (pauli_eqb (snd f) PI) && key_wf_from (N.succ (fst f)) k'
  end.
(* groups: list of (key, terms of the group's operator); op: the input operator *)
Definition grouping_ok (op : qop) (groups : list (pword * qop)) : bool :=
  forallb (fun g => key_wf_from 0 (fst g) && forallb (fun tc => sub_term (fst tc) (fst g)) (snd g)) groups
  && dict_eqb pfactor pfeqb (concat (map snd groups)) op.

(* _asynchronous_iter: K lists; every output is a K-tuple (None = padding); every pair of items from
   two different lists must occur together in some output *)
Definition memn (x : nat) (l : list nat) : bool := existsb (Nat.eqb x) l.
Definition async_ok (lists : list (list nat)) (outs : list (list nat)) : bool :=
  let K := length lists in
  forallb (fun ab =>
     forallb (fun x => forallb (fun y => existsb (fun o => memn x o && memn y o) outs) (snd (snd ab))) (snd (fst ab)))
    (flat_map (fun a => map (fun b => (a, b)) (filter (fun b => Nat.ltb (fst a) (fst b)) (combine (seq 0 K) lists)))
              (combine (seq 0 K) lists)).
(* _get_padding(num_bins, bin_size): smallest L >= bin_size with no divisor in [2, num_bins - 2] *)
Definition padding_ok (num_bins bin_size L : nat) : bool :=
  let good := fun t => forallb (fun d => negb (Nat.eqb (Nat.modulo t d) 0)) (seq 2 (num_bins - 3)) in
  Nat.leb bin_size L && good L && forallb (fun t => negb (good t)) (seq bin_size (L - bin_size)).
