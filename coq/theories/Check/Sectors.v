(* Checkers for symmetry-sector index lists, determinant bases and restricted matrices.
   Index convention (the one of get_sparse_operator / jw_configuration_state): basis vector number k
   of an n-qubit register has mode j occupied iff bit (n - 1 - j) of k is set. *)
From Coq Require Import ZArith NArith Arith List Bool.
From OFV Require Import Base.Cplx Base.Lin Sem.PauliSem Sem.FermiSem Model.SymbolicOp Model.LadderOp Model.BinaryPoly.
Import ListNotations.

Definition popc (x : N) : nat := match x with N0 => 0 | Npos p => popcount_pos p end.
Definition occ_of_index (n : nat) (k : N) (j : nat) : bool := N.testbit k (N.of_nat (n - 1 - j)).
(* occupation mask (bit j = mode j) of basis vector number k *)
Definition mask_of_index (n : nat) (k : N) : N :=
  fold_right (fun j acc => if occ_of_index n k j then N.lor acc (N.shiftl 1 (N.of_nat j)) else acc) 0%N (seq 0 n).
Definition all_indices (n : nat) : list N := map N.of_nat (seq 0 (Nat.pow 2 n)).
Definition memN (x : N) (l : list N) : bool := existsb (N.eqb x) l.
Definition nodupN (l : list N) : bool := Nat.eqb (length (nodup N.eq_dec l)) (length l).

(* jw_number_indices: exactly the basis vectors with the given particle number, each once *)
Definition number_indices_ok (n ne : nat) (l : list N) : bool :=
  nodupN l && forallb (fun k => Bool.eqb (memN k l) (Nat.eqb (popc k) ne)) (all_indices n)
  && forallb (fun k => N.ltb k (N.pow 2 (N.of_nat n))) l.
(* 2 * S_z eigenvalue: up = even modes, down = odd modes *)
Definition sz2_of_index (n : nat) (k : N) : Z :=
  fold_right (fun j acc => if occ_of_index n k j then (if Nat.even j then acc + 1 else acc - 1)%Z else acc) 0%Z (seq 0 n).
Definition sz_indices_ok (n : nat) (sz2 : Z) (ne : option nat) (l : list N) : bool :=
  nodupN l && forallb (fun k => Bool.eqb (memN k l)
      (Z.eqb (sz2_of_index n k) sz2 && match ne with Some e => Nat.eqb (popc k) e | None => true end)) (all_indices n)
  && forallb (fun k => N.ltb k (N.pow 2 (N.of_nat n))) l.
(* jw_configuration_state: position of the single 1 *)
Definition config_index (n : nat) (occ : list nat) : N :=
  fold_right (fun i acc => (acc + N.pow 2 (N.of_nat (n - 1 - i)))%N) 0%N occ.

(* determinant basis of get_number_preserving_sparse_operator: occupation masks (bit j = mode j) with
   the reference's particle number (and its alpha / beta numbers when spin preserving) within the
   excitation level, each exactly once *)
Definition evens_mask (n : nat) : N := fold_right (fun j acc => if Nat.even j then N.lor acc (N.shiftl 1 (N.of_nat j)) else acc) 0%N (seq 0 n).
Definition excitation_order (ref d : N) : nat := popc (N.land ref (N.lxor ref d)).   (* electrons removed from the reference *)
Definition det_basis_ok (n : nat) (ref : N) (level : nat) (spin : bool) (basis : list N) : bool :=
  nodupN basis &&
  forallb (fun d => Bool.eqb (memN d basis)
     (Nat.eqb (popc d) (popc ref) && Nat.leb (excitation_order ref d) level &&
      (negb spin || Nat.eqb (popc (N.land d (evens_mask n))) (popc (N.land ref (evens_mask n)))))) (all_indices n).

(* the matrix M (rows) of op in the ordered basis: M[a][b] = <basis a| op |basis b> *)
Definition fock_entry (op : lop) (r c : N) : C := coeff N.eqb r (fden op c).
Definition fock_matrix_ok (basis : list N) (op : lop) (M : list (list C)) : bool :=
  Nat.eqb (length M) (length basis) &&
  forallb (fun ar => Nat.eqb (length (snd ar)) (length basis) &&
     forallb (fun bc => Ceqb (snd bc) (fock_entry op (fst ar) (fst bc))) (combine basis (snd ar))) (combine basis M).
(* restricted operator: M[a][b] = <index_a| op |index_b> for basis-vector numbers (big-endian) *)
Definition restricted_matrix_ok (n : nat) (indices : list N) (op : lop) (M : list (list C)) : bool :=
  fock_matrix_ok (map (mask_of_index n) indices) op M.
(* expectation in a computational basis state given by its occupation mask *)
Definition expectation_ok (op : lop) (s : N) (val : C) : bool := Ceqb val (fock_entry op s s).
