(* Specification model of BinaryPolynomial over GF(2) and of BinaryCode encode/decode.
   A polynomial is a list of monomials; a monomial is a list of variable indices ([] = the constant 1).
   Lists are "raw": repeated variables (w^2 = w) and repeated monomials (m + m = 0) are allowed and
   given their meaning by evaluation; bcanon computes the canonical representative. *)
From Coq Require Import NArith Arith List Bool.
Import ListNotations.

Definition mono := list nat.
Definition bpoly := list mono.
Definition abit (a : N) (v : nat) : bool := N.testbit a (N.of_nat v).
Definition meval (a : N) (m : mono) : bool := forallb (abit a) m.
Definition beval (a : N) (p : bpoly) : bool := fold_right (fun m acc => xorb (meval a m) acc) false p.

Definition badd (p q : bpoly) : bpoly := p ++ q.
Definition bmul (p q : bpoly) : bpoly := flat_map (fun m => map (fun m' => m ++ m') q) p.
Fixpoint bpow (p : bpoly) (n : nat) : bpoly := match n with O => [[]] | S n' => bmul (bpow p n') p end.
Definition bshift (p : bpoly) (c : nat) : bpoly := map (map (fun v => v + c)) p.
Definition bconst (b : bool) : bpoly := if b then [[]] else [].

(* canonical form: sorted duplicate-free monomials, monomials with even multiplicity cancelled *)
Fixpoint ins (x : nat) (l : list nat) : list nat :=
  match l with [] => [x] | y :: l' => if x <? y then x :: l else if x =? y then l else y :: ins x l' end.
Definition mcanon (m : mono) : mono := fold_right ins [] m.
Fixpoint mono_eqb (a b : mono) : bool :=
  match a, b with [], [] => true | x :: a', y :: b' => (x =? y) && mono_eqb a' b' | _, _ => false end.
Fixpoint toggle_m (m : mono) (l : bpoly) : bpoly :=
  match l with [] => [m] | m' :: l' => if mono_eqb m m' then l' else m' :: toggle_m m l' end.
Definition bcanon (p : bpoly) : bpoly := fold_right (fun m acc => toggle_m (mcanon m) acc) [] p.
(* set-equality of canonical forms (order of monomials irrelevant) *)
Definition bequiv (p q : bpoly) : bool :=
  let a := bcanon p in let b := bcanon q in
  (length a =? length b) && forallb (fun m => existsb (mono_eqb m) b) a.

(* ---- binary codes: encoder = rows over GF(2) (row j as the mask of modes entering qubit j),
        decoder = one polynomial per mode over the qubit variables ---- *)
Fixpoint popcount_pos (p : positive) : nat :=
  match p with xH => 1 | xO p' => popcount_pos p' | xI p' => S (popcount_pos p') end.
Definition parity (x : N) : bool := match x with N0 => false | Npos p => Nat.odd (popcount_pos p) end.
Definition encode (rows : list N) (v : N) : N :=
  fold_right (fun jr acc => if parity (N.land (snd jr) v) then N.lor acc (N.shiftl 1 (N.of_nat (fst jr))) else acc)
             0%N (combine (seq 0 (length rows)) rows).
Definition decode (dec : list bpoly) (w : N) : N :=
  fold_right (fun ip acc => if beval w (snd ip) then N.lor acc (N.shiftl 1 (N.of_nat (fst ip))) else acc)
             0%N (combine (seq 0 (length dec)) dec).
Definition code_valid_on (rows : list N) (dec : list bpoly) (dom : list N) : bool :=
  forallb (fun v => N.eqb (decode dec (encode rows v)) v) dom.
Definition injective_on (rows : list N) (dom : list N) : bool :=
  Nat.eqb (length (nodup N.eq_dec (map (encode rows) dom))) (length (nodup N.eq_dec dom)).
