(* Model of transforms/opconversions/bravyi_kitaev.py (bit-trick index sets, ladder and Majorana
   images, operator transform), fenwick_tree.py and bravyi_kitaev_tree.py.  The bit tricks are
   transcribed literally over Z (index & -index, index & (index - 1)).  No proofs here. *)
From Coq Require Import ZArith NArith List Bool.
From OFV Require Import Base.Cplx Sem.PauliSem Model.SymbolicOp Model.QubitOp Model.LadderOp Model.JordanWigner.
Import ListNotations.
Local Open Scope Z_scope.

(* _update_set(index, n_qubits) *)
Fixpoint update_loop (fuel : nat) (index n : Z) : list Z :=
  match fuel with
  | O => []
  | S f => if index <=? n then (index - 1) :: update_loop f (index + Z.land index (- index)) n else []
  end.
Definition update_set (index n : Z) : list Z :=
  let i1 := index + 1 in
  update_loop (Z.to_nat n + 2) (i1 + Z.land i1 (- i1)) n.

(* _occupation_set(index) *)
Fixpoint occ_loop (fuel : nat) (index parent : Z) : list Z :=
  match fuel with
  | O => []
  | S f => if index =? parent then [] else (index - 1) :: occ_loop f (Z.land index (index - 1)) parent
  end.
Definition occupation_set (index : Z) : list Z :=
  let i1 := index + 1 in
  index :: occ_loop (Z.to_nat i1 + 2) (i1 - 1) (Z.land i1 (i1 - 1)).

(* _parity_set(index) *)
Fixpoint par_loop (fuel : nat) (index : Z) : list Z :=
  match fuel with
  | O => []
  | S f => if 0 <? index then (index - 1) :: par_loop f (Z.land index (index - 1)) else []
  end.
Definition parity_set (index : Z) : list Z := par_loop (Z.to_nat index + 2) index.

Definition zmem (x : Z) (l : list Z) : bool := existsb (Z.eqb x) l.
Definition zremove (x : Z) (l : list Z) : list Z := filter (fun y => negb (Z.eqb x y)) l.
(* symmetric difference of two duplicate-free lists *)
Definition zsymdiff (a b : list Z) : list Z :=
  filter (fun x => negb (zmem x b)) a ++ filter (fun x => negb (zmem x a)) b.
Definition pw (p : pauli) (l : list Z) : pword := map (fun i => (Z.to_N i, p)) l.

(* the two Majorana-like components of a mode: c = X_U Z_P,  d = Y_i X_{U\i} Z_{(P ^ Occ)\i} *)
Definition bk_c (index n : Z) : pword := pw PX (index :: update_set index n) ++ pw PZ (parity_set index).
Definition bk_d (index n : Z) : pword :=
  (Z.to_N index, PY) :: pw PX (update_set index n)
  ++ pw PZ (zremove index (zsymdiff (parity_set index) (occupation_set index))).

Definition bk_ladder (f : lfactor) (n : Z) : qop :=
  let i := Z.of_N (fst f) in
  let c := qmk (bk_c i n) Chalf in
  let d := qmk (bk_d i n) Cmihalf in
  if snd f then qadd c d else qsub c d.
Definition bk_term (n : Z) (t : lword) (c : C) : qop :=
  fold_left (fun acc f => qmul acc (bk_ladder f n)) t (qmk [] c).
Definition bk_gen (small : C -> bool) (op : lop) (n : Z) : qop :=
  fold_left (fun acc tc => iadd pfeqb small acc (bk_term n (fst tc) (snd tc))) op [].
Definition bk (op : lop) (n : Z) : qop := bk_gen small_tol op n.
(* _transform_majorana_operator *)
Definition bk_majorana (k n : Z) : qop :=
  let q := Z.div k 2 in
  if Z.odd k then qmk (bk_d q n) C1 else qmk (bk_c q n) C1.

(* ---- FenwickTree: (child, parent) edges created by fenwick(left, right, parent) ---- *)
Fixpoint fenwick_edges (fuel : nat) (left right parent : Z) : list (Z * Z) :=
  match fuel with
  | O => []
  | S f => if right <=? left then []
           else let pivot := Z.shiftr (left + right) 1 in
                (pivot, parent) :: fenwick_edges f left pivot pivot ++ fenwick_edges f (pivot + 1) right parent
  end.
Definition ftree (n : Z) : list (Z * Z) := fenwick_edges (Z.to_nat n + 1) 0 (n - 1) (n - 1).
Definition fparent (t : list (Z * Z)) (j : Z) : option Z :=
  match find (fun e => Z.eqb (fst e) j) t with Some e => Some (snd e) | None => None end.
Definition fchildren (t : list (Z * Z)) (p : Z) : list Z := map fst (filter (fun e => Z.eqb (snd e) p) t).
Fixpoint fancestors (fuel : nat) (t : list (Z * Z)) (j : Z) : list Z :=
  match fuel with
  | O => []
  | S f => match fparent t j with Some p => p :: fancestors f t p | None => [] end
  end.
Definition ft_update (n j : Z) : list Z := fancestors (Z.to_nat n + 1) (ftree n) j.
Definition ft_remainder (n j : Z) : list Z :=
  flat_map (fun a => filter (fun c => c <? j) (fchildren (ftree n) a)) (ft_update n j).
Definition ft_parity (n j : Z) : list Z := ft_remainder n j ++ fchildren (ftree n) j.

Definition bkt_ladder (f : lfactor) (n : Z) : qop :=
  let i := Z.of_N (fst f) in
  let d := qmk ((fst f, PY) :: pw PZ (ft_remainder n i) ++ pw PX (ft_update n i)) (if snd f then Cmihalf else Cihalf) in
  let c := qmk ((fst f, PX) :: pw PZ (ft_parity n i) ++ pw PX (ft_update n i)) Chalf in
  qadd c d.
Definition bkt_term (n : Z) (t : lword) (c : C) : qop :=
  fold_left (fun acc f => qmul acc (bkt_ladder f n)) t (qmk [] c).
Definition bkt (op : lop) (n : Z) : qop :=
  fold_left (fun acc tc => qadd acc (bkt_term n (fst tc) (snd tc))) op [].
