(* Model of utils/operator_utils.py: hermitian_conjugated for Fermion/Boson/Quad/Qubit operators.
   No proofs here. *)
From Coq Require Import NArith List Bool.
From OFV Require Import Base.Cplx Sem.PauliSem Model.SymbolicOp Model.QubitOp Model.LadderOp.
Import ListNotations.

Definition dag_factor (f : lfactor) : lfactor := (fst f, negb (snd f)).
(* tuple((i, 1 - a) for (i, a) in reversed(term)) *)
Definition hc_word (t : lword) : lword := map dag_factor (rev t).
(* conjugate_operator.terms[conjugate_term] = coefficient.conjugate()  (dictionary assignment) *)
Definition hc_fermi (op : lop) : lop :=
  fold_left (fun acc tc => dset lfeqb acc (hc_word (fst tc)) (Cconj (snd tc))) op [].
Definition hc_bose (op : lop) : lop :=
  fold_left (fun acc tc => dset lfeqb acc (lsort (hc_word (fst tc))) (Cconj (snd tc))) op [].
(* QuadOperator: reversed(term) then stable sort by index; q and p are self-adjoint *)
Definition hc_quad (op : lop) : lop :=
  fold_left (fun acc tc => dset lfeqb acc (lsort (rev (fst tc))) (Cconj (snd tc))) op [].
Definition hc_qubit (op : qop) : qop :=
  fold_left (fun acc tc => dset pfeqb acc (fst tc) (Cconj (snd tc))) op [].
