(* Model of utils/operator_utils.py save_operator / load_operator / get_file_path as a state
   machine over a directory (path -> content).  Content of a binary file is the tagged term
   dictionary (coefficients converted by complex()); content of a plain-text file is the list of
   printed terms (those whose coefficient is not negligible) - the text codec itself is exercised by
   the correspondence runs.  No proofs here. *)
From Coq Require Import NArith List Bool String.
From OFV Require Import Base.Cplx Model.SymbolicOp Model.LadderOp.
Import ListNotations.
Local Open Scope string_scope.

Inductive cls := KFermion | KBoson | KQubit | KQuad.
Definition cls_eqb (a b : cls) : bool :=
  match a, b with KFermion, KFermion | KBoson, KBoson | KQubit, KQubit | KQuad, KQuad => true | _, _ => false end.
(* one generic factor type for all four classes: (index, action code) *)
Definition gfactor := (N * N)%type.
Definition gfeqb (a b : gfactor) : bool := N.eqb (fst a) (fst b) && N.eqb (snd a) (snd b).
Definition gop := sop gfactor.
Record content := { ckind : cls; cterms : gop; ctext : bool }.
Definition dir := list (string * content).

Definition file_path (name : string) : string :=
  let n := String.length name in
  if Nat.leb 5 n && String.eqb (substring (n - 5)%nat 5%nat name) ".data" then name else name ++ ".data".

Fixpoint dlookup (d : dir) (p : string) : option content :=
  match d with [] => None | (q, c) :: d' => if String.eqb p q then Some c else dlookup d' p end.
Fixpoint dwrite (d : dir) (p : string) (c : content) : dir :=
  match d with
  | [] => [(p, c)]
  | (q, c') :: d' => if String.eqb p q then (q, c) :: d' else (q, c') :: dwrite d' p c
  end.

Inductive result := ROk | RErrExists | RErrNoName | RErrMissing | RErrFormat.
(* what a file stores: text files keep only the printable (non-negligible) terms *)
Definition stored (text : bool) (op : gop) : gop :=
  if text then filter (fun tc => negb (small_tol (snd tc))) op else op.

Definition save (d : dir) (k : cls) (op : gop) (name : string) (allow_overwrite text : bool) : dir * result :=
  if String.eqb name "" then (d, RErrNoName) else
  let p := file_path name in
  match dlookup d p with
  | Some _ => if allow_overwrite then (dwrite d p {| ckind := k; cterms := stored text op; ctext := text |}, ROk)
              else (d, RErrExists)
  | None => (dwrite d p {| ckind := k; cterms := stored text op; ctext := text |}, ROk)
  end.
(* loading re-accumulates the stored terms with += (pruning of negligible sums applies) *)
Definition load (d : dir) (name : string) (text : bool) : option (cls * gop) * result :=
  if String.eqb name "" then (None, RErrNoName) else
  match dlookup d (file_path name) with
  | None => (None, RErrMissing)
  | Some c => if Bool.eqb (ctext c) text then (Some (ckind c, iadd gfeqb small_tol [] (cterms c)), ROk)
              else (None, RErrFormat)
  end.

Inductive fop := FSave (k : cls) (op : gop) (name : string) (ow text : bool) | FLoad (name : string) (text : bool).
Definition fstep (d : dir) (o : fop) : dir * (option (cls * gop) * result) :=
  match o with
  | FSave k op name ow text => let (d', r) := save d k op name ow text in (d', (None, r))
  | FLoad name text => (d, load d name text)
  end.
Fixpoint frun (d : dir) (os : list fop) : dir * list (option (cls * gop) * result) :=
  match os with
  | [] => (d, [])
  | o :: os' => let (d1, r) := fstep d o in let (d2, rs) := frun d1 os' in (d2, r :: rs)
  end.

(* comparison helpers used by the correspondence runs *)
From OFV Require Import Model.Program Check.DictEquiv.
Definition result_eqb (a b : result) : bool :=
  match a, b with ROk, ROk | RErrExists, RErrExists | RErrNoName, RErrNoName | RErrMissing, RErrMissing | RErrFormat, RErrFormat => true | _, _ => false end.
Definition out_eqb (a b : option (cls * gop) * result) : bool :=
  result_eqb (snd a) (snd b) &&
  match fst a, fst b with
  | None, None => true
  | Some (k1, o1), Some (k2, o2) => cls_eqb k1 k2 && dict_eqb gfactor gfeqb o1 o2
  | _, _ => false
  end.
Fixpoint results_eqb (a b : list (option (cls * gop) * result)) : bool :=
  match a, b with [], [] => true | x :: a', y :: b' => out_eqb x y && results_eqb a' b' | _, _ => false end.
Definition files_eqb (d : dir) (files : list string) : bool :=
  Nat.eqb (List.length d) (List.length files) && forallb (fun f => existsb (fun pc => String.eqb (fst pc) f) d) files.
