(* Model of the index schedules of linalg/givens_rotations.py (which matrix entries are zeroed, in
   which layer, by a rotation of which adjacent column pair) and checkers for their structural
   properties.  A layer is a list of (row, column) entries to zero; the rotation acts on columns
   (column - 1, column) for the square / rectangular decompositions and (column, column + 1) for the
   fermionic Gaussian one.  No proofs here. *)
From Coq Require Import ZArith Arith List Bool.
Import ListNotations.

(* range(a, b, step) for non-negative arguments *)
Fixpoint range_step (fuel : nat) (a b step : nat) : list nat :=
  match fuel with O => [] | S f => if a <? b then a :: range_step f (a + step) b step else [] end.
Definition rng (a b : nat) : list nat := seq a (b - a).
Definition zipn (a b : list nat) : list (nat * nat) := combine a b.

(* givens_decomposition_square: layers k = 0 .. 2(n-1)-2 *)
Definition square_layer (n k : nat) : list (nat * nat) :=
  let start_row := if k <? n - 1 then 0 else k - (n - 2) in
  let start_col := if k <? n - 1 then n - 1 - k else k - (n - 3) in
  let cols := range_step n start_col n 2 in
  zipn (rng start_row (start_row + length cols)) cols.
Definition square_schedule (n : nat) : list (list (nat * nat)) := map (square_layer n) (seq 0 (2 * (n - 1) - 1)).

(* givens_decomposition (m x n, m < n): layers k = 0 .. n-2 *)
Definition rect_layer (m n k : nat) : list (nat * nat) :=
  let ms := Nat.min m (n - m) in
  let '(sr, er, sc, ec) :=
    if k <? ms - 1 then (0, k + 1, n - m - k, n - m - k + 2 * (k + 1))
    else if n - 1 - ms <? k then (m - (n - 1 - k), m, m - (n - 1 - k) + 1, m - (n - 1 - k) + 1 + 2 * (n - 1 - k))
    else if ms =? m then (0, m, n - m - k, n - m - k + 2 * m)
    else (k + 1 - ms, k + 1, k + 1 - ms + 1, k + 1 - ms + 1 + 2 * ms) in
  zipn (rng sr er) (range_step n sc ec 2).
Definition rect_schedule (m n : nat) : list (list (nat * nat)) :=
  if m =? n then [] else map (rect_layer m n) (seq 0 (n - 1)).

(* fermionic_gaussian_decomposition: layers k = 0 .. 2n-2; rows decrease along a layer *)
Definition gauss_layer (n k : nat) : list (nat * nat) :=
  let end_row := if k <? n then k else n - 1 in
  let end_col := if k <? n then n - 1 - k else k - (n - 1) in
  let cols := range_step n end_col (n - 1) 2 in
  zipn (map (fun d => end_row - d) (seq 0 (length cols))) cols.
Definition gauss_schedule (n : nat) : list (list (nat * nat)) := map (gauss_layer n) (seq 0 (2 * n - 1)).

(* ---- structural checkers on (any) list of layers of rotations given by their column pairs ---- *)
Definition adjacent (p : nat * nat) : bool := snd p =? S (fst p).
Fixpoint disjoint_pairs (l : list (nat * nat)) : bool :=
  match l with
  | [] => true
  | p :: l' => forallb (fun q => negb ((fst p =? fst q) || (fst p =? snd q) || (snd p =? fst q) || (snd p =? snd q))) l' && disjoint_pairs l'
  end.
Definition layers_ok (depth_bound : nat) (layers : list (list (nat * nat))) : bool :=
  forallb (fun l => forallb adjacent l && disjoint_pairs l) layers && (length layers <=? depth_bound).
(* the entries of a schedule are distinct and all lie strictly above the main "diagonal band" *)
Definition pairs_of_square (n : nat) : list (list (nat * nat)) := map (map (fun rc => (snd rc - 1, snd rc))) (square_schedule n).
Definition pairs_of_rect (m n : nat) : list (list (nat * nat)) := map (map (fun rc => (snd rc - 1, snd rc))) (rect_schedule m n).
Definition pairs_of_gauss (n : nat) : list (list (nat * nat)) := map (map (fun rc => (snd rc, snd rc + 1))) (gauss_schedule n).
Definition entry_eqb (a b : nat * nat) : bool := (fst a =? fst b) && (snd a =? snd b).
Fixpoint entries_nodup (l : list (nat * nat)) : bool :=
  match l with [] => true | e :: l' => negb (existsb (entry_eqb e) l') && entries_nodup l' end.
(* square: exactly the strict upper triangle {(i, j) : i < j}, each entry once *)
Definition square_covers (n : nat) : bool :=
  let es := concat (square_schedule n) in
  entries_nodup es && forallb (fun e => fst e <? snd e) es && (length es =? n * (n - 1) / 2).
(* rectangular: exactly {(i, j) : j > i + (0) ... } the entries right of the diagonal: i < j, j < n, i < m; count m(n-m) + ... *)
Definition rect_covers (m n : nat) : bool :=
  let es := concat (rect_schedule m n) in
  entries_nodup es && forallb (fun e => (fst e <? snd e) && (snd e <? n) && (fst e <? m)) es
  && (length es =? m * (n - m)).
