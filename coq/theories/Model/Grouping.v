(* Model of measurements/qubit_partitioning.py: group_into_tensor_product_basis_sets and
   _find_compatible_basis.  The seeded shuffle of the current bases is an arbitrary family `choose i`
   (one function per step) returning the same bases in some order.  A group = (basis key, terms of its operator).
   No proofs here. *)
From Coq Require Import NArith List Bool.
From OFV Require Import Base.Cplx Sem.PauliSem Model.SymbolicOp Model.QubitOp.
Import ListNotations.

Definition gkey := pword.
Definition group := (gkey * list (pword * C))%type.
Definition qubit_in (q : N) (b : gkey) : bool := existsb (fun g : pfactor => N.eqb (fst g) q) b.
Definition factor_in (f : pfactor) (b : gkey) : bool := existsb (pfeqb f) b.
(* conflicts = ((i, P) for (i, P) in term if i in basis_qubits and (i, P) not in basis) ; compatible iff none *)
Definition compatible (t : pword) (b : gkey) : bool :=
  forallb (fun f => negb (qubit_in (fst f) b) || factor_in f b) t.
Definition keqb (a b : gkey) : bool := teqb pfeqb a b.
Fixpoint glookup (gs : list group) (b : gkey) : list (pword * C) :=
  match gs with [] => [] | (k, ms) :: gs' => if keqb b k then ms else glookup gs' b end.
Fixpoint gremove (gs : list group) (b : gkey) : list group :=
  match gs with [] => [] | (k, ms) :: gs' => if keqb b k then gs' else (k, ms) :: gremove gs' b end.
(* sub_operators[key] = value *)
Fixpoint gput (gs : list group) (b : gkey) (ms : list (pword * C)) : list group :=
  match gs with
  | [] => [(b, ms)]
  | (k, m0) :: gs' => if keqb b k then (k, ms) :: gs' else (k, m0) :: gput gs' b ms
  end.
Definition gstep (choose : list gkey -> list gkey) (gs : list group) (tc : pword * C) : list group :=
  match find (compatible (fst tc)) (choose (map fst gs)) with
  | None => gput gs (fst tc) [tc]
  | Some b =>
      let additions := filter (fun f => negb (factor_in f b)) (fst tc) in
      gput (gremove gs b) (psort (b ++ additions)) (glookup gs b ++ [tc])
  end.
(* the shuffle differs from step to step (the generator's state advances): choose is indexed by the step *)
Fixpoint grouping_from (choose : nat -> list gkey -> list gkey) (i : nat) (terms : list (pword * C)) (gs : list group) : list group :=
  match terms with
  | [] => gs
  | tc :: rest => grouping_from choose (S i) rest (gstep (choose i) gs tc)
  end.
Definition grouping (choose : nat -> list gkey -> list gkey) (terms : list (pword * C)) : list group :=
  grouping_from choose 0 terms [].

(* correspondence: replay the recorded shuffles *)
Definition replay_choose (orders : list (list gkey)) (i : nat) (_ : list gkey) : list gkey := nth i orders [].
Definition tceqb (a b : pword * C) : bool := teqb pfeqb (fst a) (fst b) && Ceqb (snd a) (snd b).
Fixpoint list_eqb {A} (e : A -> A -> bool) (a b : list A) : bool :=
  match a, b with [], [] => true | x :: a', y :: b' => e x y && list_eqb e a' b' | _, _ => false end.
Definition group_eqb (a b : group) : bool := keqb (fst a) (fst b) && list_eqb tceqb (snd a) (snd b).
Definition grouping_model_ok (orders : list (list gkey)) (terms : list (pword * C)) (result : list group) : bool :=
  list_eqb group_eqb (grouping (replay_choose orders) terms) result.
