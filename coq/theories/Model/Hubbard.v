(* Model of hamiltonians/hubbard.py neighbour enumeration, and an independent specification of the
   lattice graph (grid / torus on coordinates) and of the documented Hubbard Hamiltonians built from
   its edge list.  No proofs here. *)
From Coq Require Import ZArith NArith Arith List Bool.
From OFV Require Import Base.Cplx Model.SymbolicOp Model.LadderOp.
Import ListNotations.

(* ---- transcription of _right_neighbor / _bottom_neighbor and of the de-duplication rule ---- *)
Definition right_neighbor (site x y : nat) (periodic : bool) : option nat :=
  if x =? 1 then None
  else if (site + 1) mod x =? 0 then (if periodic then Some (site + 1 - x) else None)
  else Some (site + 1).
Definition bottom_neighbor (site x y : nat) (periodic : bool) : option nat :=
  if y =? 1 then None
  else if x * y <? site + x + 1 then (if periodic then Some (site + x - x * y) else None)
  else Some (site + x).
Definition site_bonds (site x y : nat) (periodic : bool) : list (nat * nat) :=
  let r := if (x =? 2) && periodic && (site mod 2 =? 1) then None else right_neighbor site x y periodic in
  let b := if (y =? 2) && periodic && (x <=? site) then None else bottom_neighbor site x y periodic in
  (match r with Some j => [(site, j)] | None => [] end) ++ (match b with Some j => [(site, j)] | None => [] end).
Definition bonds (x y : nat) (periodic : bool) : list (nat * nat) :=
  flat_map (fun s => site_bonds s x y periodic) (seq 0 (x * y)).

(* ---- independent specification: edges of the grid (open) or torus (periodic) on coordinates;
        a periodic dimension of length 2 contributes each edge once, of length 1 none ---- *)
Definition sid (x : nat) (cx cy : nat) : nat := cx + x * cy.
Definition spec_edges (x y : nat) (periodic : bool) : list (nat * nat) :=
  flat_map (fun cy => flat_map (fun cx =>
     (if S cx <? x then [(sid x cx cy, sid x (S cx) cy)]
      else if periodic && (2 <? x) then [(sid x cx cy, sid x 0 cy)] else [])
     ++
     (if S cy <? y then [(sid x cx cy, sid x cx (S cy))]
      else if periodic && (2 <? y) then [(sid x cx cy, sid x cx 0)] else []))
    (seq 0 x)) (seq 0 y).

Definition edge_eqb (a b : nat * nat) : bool :=
  ((fst a =? fst b) && (snd a =? snd b)) || ((fst a =? snd b) && (snd a =? fst b)).
Definition edge_in (e : nat * nat) (l : list (nat * nat)) : bool := existsb (edge_eqb e) l.
Fixpoint edges_nodup (l : list (nat * nat)) : bool :=
  match l with [] => true | e :: l' => negb (edge_in e l') && edges_nodup l' end.
(* same set of unordered pairs, each once, no self loops *)
Definition same_edges (a b : list (nat * nat)) : bool :=
  edges_nodup a && edges_nodup b && forallb (fun e => edge_in e b) a && forallb (fun e => edge_in e a) b
  && forallb (fun e => negb (fst e =? snd e)) a.

(* ---- the documented Hamiltonians from an edge list ---- *)
Definition fN (n : nat) : N := N.of_nat n.
Definition hop (i j : nat) (c : C) : lop := [([(fN i, true); (fN j, false)], c); ([(fN j, true); (fN i, false)], Cconj c)].
Definition num (i : nat) (c : C) : lop := [([(fN i, true); (fN i, false)], c)].
(* c (n_i - s)(n_j - s) expanded: c n_i n_j - c s n_i - c s n_j + c s^2 *)
Definition numnum (i j : nat) (c s : C) : lop :=
  [([(fN i, true); (fN i, false); (fN j, true); (fN j, false)], c);
   ([(fN i, true); (fN i, false)], Copp (Cmul c s)); ([(fN j, true); (fN j, false)], Copp (Cmul c s)); ([], Cmul c (Cmul s s))].
Definition up (i : nat) := 2 * i.
Definition dn (i : nat) := 2 * i + 1.
Definition hubbard_spinful_spec (edges : list (nat * nat)) (nsites : nat) (t U mu h : C) (ph : bool) : lop :=
  let s := if ph then Cmk 1%Z 2%positive 0%Z 1%positive else C0 in
  flat_map (fun e => hop (up (fst e)) (up (snd e)) (Copp t) ++ hop (dn (fst e)) (dn (snd e)) (Copp t)) edges
  ++ flat_map (fun i => numnum (up i) (dn i) U s ++ num (up i) (Copp (Cadd mu h)) ++ num (dn i) (Cadd (Copp mu) h)) (seq 0 nsites).
Definition hubbard_spinless_spec (edges : list (nat * nat)) (nsites : nat) (t U mu : C) (ph : bool) : lop :=
  let s := if ph then Cmk 1%Z 2%positive 0%Z 1%positive else C0 in
  flat_map (fun e => hop (fst e) (snd e) (Copp t) ++ numnum (fst e) (snd e) U s) edges
  ++ flat_map (fun i => num i (Copp mu)) (seq 0 nsites).
(* bose_hubbard: -t sum (b+_i b_j + h.c.) + V sum_edges n_i n_j + (U/2) sum n_i (n_i - 1) - mu sum n_i *)
Definition bose_hubbard_spec (edges : list (nat * nat)) (nsites : nat) (t U mu V : C) : lop :=
  flat_map (fun e => hop (fst e) (snd e) (Copp t) ++ numnum (fst e) (snd e) V C0) edges
  ++ flat_map (fun i => [([(fN i, true); (fN i, false); (fN i, true); (fN i, false)], Cmul (Cmk 1%Z 2%positive 0%Z 1%positive) U);
                          ([(fN i, true); (fN i, false)], Copp (Cmul (Cmk 1%Z 2%positive 0%Z 1%positive) U))] ++ num i (Copp mu)) (seq 0 nsites).

(* ---- mean_field_dwave: horizontal / vertical edges carry +Delta/2 / -Delta/2 ---- *)
Definition spec_edges_h (x y : nat) (periodic : bool) : list (nat * nat) :=
  flat_map (fun cy => flat_map (fun cx =>
     if S cx <? x then [(sid x cx cy, sid x (S cx) cy)]
     else if periodic && (2 <? x) then [(sid x cx cy, sid x 0 cy)] else []) (seq 0 x)) (seq 0 y).
Definition spec_edges_v (x y : nat) (periodic : bool) : list (nat * nat) :=
  flat_map (fun cy => flat_map (fun cx =>
     if S cy <? y then [(sid x cx cy, sid x cx (S cy))]
     else if periodic && (2 <? y) then [(sid x cx cy, sid x cx 0)] else []) (seq 0 x)) (seq 0 y).
Definition pairing_terms (i j : nat) (d : C) : lop :=   (* -d (a+_iu a+_jd - a+_id a+_ju + a_jd a_iu - a_ju a_id) *)
  [([(fN (up i), true); (fN (dn j), true)], Copp d); ([(fN (dn i), true); (fN (up j), true)], d);
   ([(fN (dn j), false); (fN (up i), false)], Copp d); ([(fN (up j), false); (fN (dn i), false)], d)].
Definition dwave_spec (x y : nat) (periodic : bool) (t delta mu : C) : lop :=
  let half := Cmk 1%Z 2%positive 0%Z 1%positive in
  flat_map (fun e => hop (up (fst e)) (up (snd e)) (Copp t) ++ hop (dn (fst e)) (dn (snd e)) (Copp t)
                     ++ pairing_terms (fst e) (snd e) (Cmul half delta)) (spec_edges_h x y periodic)
  ++ flat_map (fun e => hop (up (fst e)) (up (snd e)) (Copp t) ++ hop (dn (fst e)) (dn (snd e)) (Copp t)
                     ++ pairing_terms (fst e) (snd e) (Copp (Cmul half delta))) (spec_edges_v x y periodic)
  ++ flat_map (fun i => num (up i) (Copp mu) ++ num (dn i) (Copp mu)) (seq 0 (x * y)).
