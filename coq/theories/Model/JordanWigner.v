(* Model of transforms/opconversions/jordan_wigner.py: _jordan_wigner_fermion_operator.
   No proofs here. *)
From Coq Require Import ZArith NArith List Bool.
From OFV Require Import Base.Cplx Sem.PauliSem Model.SymbolicOp Model.QubitOp Model.LadderOp.
Import ListNotations.

Definition Chalf : C := Cmk 1%Z 2%positive 0%Z 1%positive.
Definition Cihalf : C := Cmk 0%Z 1%positive 1%Z 2%positive.
Definition Cmihalf : C := Cmk 0%Z 1%positive (-1)%Z 2%positive.

(* tuple((index, 'Z') for index in range(j)) *)
Definition zstring (j : nat) : pword := map (fun i => (N.of_nat i, PZ)) (seq 0 j).

Definition jw_ladder (f : lfactor) : qop :=
  let j := fst f in
  let z := zstring (N.to_nat j) in
  qadd (qmk (z ++ [(j, PX)]) Chalf)
       (qmk (z ++ [(j, PY)]) (if snd f then Cmihalf else Cihalf)).

(* transformed_term = QubitOperator((), coeff); for ladder in term: transformed_term *= ... *)
Definition jw_term (t : lword) (c : C) : qop :=
  fold_left (fun acc f => qmul acc (jw_ladder f)) t (qmk [] c).

Definition jw_gen (small : C -> bool) (op : lop) : qop :=
  fold_left (fun acc tc => iadd pfeqb small acc (jw_term (fst tc) (snd tc))) op [].
Definition jw (op : lop) : qop := jw_gen small_tol op.
(* the same transform with exact accumulation (only exactly-zero sums are dropped): the reference
   used by the verified checkers *)
Definition jw0 (op : lop) : qop := jw_gen Cis0 op.
