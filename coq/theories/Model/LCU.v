(* Model of circuits/lcu_util.py: _preprocess_for_efficient_roulette_selection (alias tables),
   and exact specifications/checkers for the discretisation, QROM cost minimisers and power_two.
   No proofs here. *)
From Coq Require Import QArith Qcanon ZArith NArith List Bool.
From OFV Require Import Base.Cplx Model.Predicates.
Close Scope Qc_scope. Close Scope Q_scope.
Import ListNotations.
Local Open Scope Z_scope.

Definition znth (l : list Z) (i : nat) : Z := nth i l 0.
Fixpoint zset (l : list Z) (i : nat) (v : Z) : list Z :=
  match l, i with [], _ => [] | _ :: l', O => v :: l' | x :: l', S i' => x :: zset l' i' v end.

Record rstate := { rw : list Z; ralt : list Z; rkeep : list Z; rdonor : nat; rerr : bool }.

(* while weights[donor_position] <= target_weight: donor_position += 1   (IndexError past the end) *)
Fixpoint advance (fuel : nat) (w : list Z) (t : Z) (d : nat) : option nat :=
  match fuel with
  | O => None
  | S f => if Nat.leb (length w) d then None
           else if znth w d <=? t then advance f w t (S d) else Some d
  end.
Definition rstep (t : Z) (st : rstate) (i : nat) : rstate :=
  if rerr st then st else
  if t <=? znth (rw st) i then st else
  match advance (S (length (rw st))) (rw st) t (rdonor st) with
  | None => {| rw := rw st; ralt := ralt st; rkeep := rkeep st; rdonor := rdonor st; rerr := true |}
  | Some d =>
      let donated := t - znth (rw st) i in
      let w1 := zset (rw st) d (znth (rw st) d - donated) in
      {| rw := zset w1 i t; ralt := zset (ralt st) i (Z.of_nat d);
         rkeep := zset (rkeep st) i (znth w1 i); rdonor := d; rerr := false |}
  end.
Definition roulette (weights : list Z) : option (list Z * list Z) :=
  let n := length weights in
  let total := fold_left Z.add weights 0 in
  if Nat.eqb n 0 then None else
  let t := total / Z.of_nat n in
  if negb (total =? Z.of_nat n * t) then None else
  let st0 := {| rw := weights; ralt := map Z.of_nat (seq 0 n); rkeep := repeat 0 n; rdonor := 0%nat; rerr := false |} in
  let st := fold_left (rstep t) (seq 0 n ++ seq 0 n) st0 in
  if rerr st then None else Some (ralt st, rkeep st).

(* exactness of an alias table: 0 <= keep_i <= t, 0 <= alt_i < n, and the two-stage sampling
   distribution keep_i + sum_{j : alt_j = i} (t - keep_j) equals w_i, in units of 1/(n t) *)
Definition alias_ok (w alt keep : list Z) : bool :=
  let n := length w in
  let t := fold_left Z.add w 0 / Z.of_nat n in
  Nat.eqb (length alt) n && Nat.eqb (length keep) n &&
  forallb (fun k => (0 <=? k) && (k <=? t)) keep &&
  forallb (fun a => (0 <=? a) && (a <? Z.of_nat n)) alt &&
  forallb (fun i => znth w i =? znth keep i +
      fold_left Z.add (map (fun j => if znth alt j =? Z.of_nat i then t - znth keep j else 0) (seq 0 n)) 0) (seq 0 n).

(* discretisation: numerators sum to denom = 2^mu * n, every |numer_i/denom - c_i/total| <= eps *)
Definition qabsq (q : Qc) : Qc := if Qc_ltb q (Q2Qc 0) then Qcopp q else q.
Definition discretize_ok (coeffs : list Qc) (eps : Qc) (numers : list Z) (mu : Z) : bool :=
  let n := Z.of_nat (length coeffs) in
  let denom := 2 ^ mu * n in
  let total := fold_left Qcplus coeffs (Q2Qc 0) in
  Nat.eqb (length numers) (length coeffs) && (fold_left Z.add numers 0 =? denom) && (0 <=? mu) &&
  forallb (fun x => 0 <=? x) numers &&
  forallb (fun nc => Qc_leb (qabsq (Qcminus (Qcdiv (qz (fst nc)) (qz denom)) (Qcdiv (snd nc) total))) eps) (combine numers coeffs).

(* QROM cost expressions, exact *)
Definition qpow2 (k : Z) : Qc := qz (2 ^ k).
Definition qr_cost (L M k : Z) : Qc := Qcplus (Qcdiv (qz L) (qpow2 k)) (Qcmult (qz M) (Qcminus (qpow2 k) (qz 1))).
Definition qi_cost (L k : Z) : Qc := Qcplus (Qcdiv (qz L) (qpow2 k)) (qpow2 k).
Definition qceil (q : Qc) : Z := let x := this q in - ((- Qnum x) / Zpos (Qden x)).
Definition krange (K : nat) : list Z := map Z.of_nat (seq 0 K).
(* returned k minimises the cost over all k' in [0, K) and val is the ceiling of that minimum *)
Definition qr_ok (L M k val : Z) (K : nat) : bool :=
  (0 <=? k) && (val =? qceil (qr_cost L M k)) && forallb (fun k' => Qc_leb (qr_cost L M k) (qr_cost L M k')) (krange K).
Definition qi_ok (L k val : Z) (K : nat) : bool :=
  (0 <=? k) && (val =? qceil (qi_cost L k)) && forallb (fun k' => Qc_leb (qi_cost L k) (qi_cost L k')) (krange K).
Definition zceil_div (a b : Z) : Z := - ((- a) / b).
Definition qr2_cost (L1 L2 M k1 k2 : Z) : Z := zceil_div L1 (2 ^ k1) * zceil_div L2 (2 ^ k2) + M * (2 ^ (k1 + k2) - 1).
Definition qi2_cost (L1 L2 k1 k2 : Z) : Z := zceil_div L1 (2 ^ k1) * zceil_div L2 (2 ^ k2) + 2 ^ (k1 + k2).
Definition grid16 : list (Z * Z) := flat_map (fun a => map (fun b => (a, b)) (map Z.of_nat (seq 1 16))) (map Z.of_nat (seq 1 16)).
Definition is_pow2_in_grid (p : Z) : option Z := find (fun k => 2 ^ k =? p) (map Z.of_nat (seq 1 16)).
Definition qr2_ok (L1 L2 M p1 p2 val : Z) : bool :=
  match is_pow2_in_grid p1, is_pow2_in_grid p2 with
  | Some k1, Some k2 => (val =? qr2_cost L1 L2 M k1 k2) && forallb (fun kk => val <=? qr2_cost L1 L2 M (fst kk) (snd kk)) grid16
  | _, _ => false end.
Definition qi2_ok (L1 L2 p1 p2 val : Z) : bool :=
  match is_pow2_in_grid p1, is_pow2_in_grid p2 with
  | Some k1, Some k2 => (val =? qi2_cost L1 L2 k1 k2) && forallb (fun kk => val <=? qi2_cost L1 L2 (fst kk) (snd kk)) grid16
  | _, _ => false end.
(* power_two(m): exponent of the largest power of two dividing m (0 for m = 0) *)
Definition power_two_ok (m r : Z) : bool :=
  if m =? 0 then r =? 0 else (0 <=? r) && (m mod 2 ^ r =? 0) && negb (m mod 2 ^ (r + 1) =? 0).

(* total = step * ceil(pi * lam / (2 dE)) with pi enclosed in [pi_lo, pi_hi] *)
Definition pi_lo : Qc := qfrac 314159265358979 100000000000000.
Definition pi_hi : Qc := qfrac 314159265358980 100000000000000.
Definition iters_ok (lam dE : Qc) (iters : Z) : bool :=
  Qc_ltb (Qcmult (qz (iters - 1)) (Qcmult (qz 2) dE)) (Qcmult pi_lo lam)
  && Qc_leb (Qcmult pi_hi lam) (Qcmult (qz iters) (Qcmult (qz 2) dE)).
Definition cost_ok (lam dE : Qc) (step total : Z) : bool :=
  (0 <? step) && (total mod step =? 0) && iters_ok lam dE (total / step).
(* surface-code layout costing (AlgorithmParameters.estimate_cost):
   rounds = floor(toffolis * factory_rounds / factories), computed by the code in floating point: one unit plus 2^-48 relative slack;
   qubits = ceil(logical * (1 + routing)) * 2 (d+1)^2 + factories * footprint, exact *)
Definition qfloor (q : Qc) : Z := let x := this q in Qnum x / Zpos (Qden x).
Definition phys_cost_ok (toff fc : Z) (frounds : Qc) (nlog : Z) (routing : Qc) (dist foot : Z) (rounds qubits : Z) : bool :=
  let exact := Qcdiv (Qcmult (qz toff) frounds) (qz fc) in
  (0 <? fc) &&
  Qc_leb (qabsq (Qcminus (qz rounds) (qz (qfloor exact)))) (Qcplus (qz 1) (Qcdiv exact (qz (2 ^ 48)))) &&
  (qubits =? qceil (Qcmult (qz nlog) (Qcplus (qz 1) routing)) * (2 * (dist + 1) * (dist + 1)) + fc * foot).
Fixpoint zlist_eqb (a b : list Z) : bool :=
  match a, b with [], [] => true | x :: a', y :: b' => (x =? y) && zlist_eqb a' b' | _, _ => false end.
