(* Base-class SymbolicOperator._simplify for FermionOperator (no reordering) and for
   BosonOperator / QuadOperator (stable sort by index: different indices commute).
   A factor is (index, action) with action a boolean: fermion/boson: true = raising (1);
   quad: true = 'p', false = 'q'.  No proofs here. *)
From Coq Require Import NArith List Bool.
From OFV Require Import Base.Cplx Model.SymbolicOp.
Import ListNotations.

Definition lfactor := (N * bool)%type.
Definition lword := list lfactor.
Definition lfeqb (a b : lfactor) : bool := N.eqb (fst a) (fst b) && Bool.eqb (snd a) (snd b).

Definition fsimplify (t : lword) (c : C) : C * lword := (c, t).

Fixpoint linsert (f : lfactor) (l : lword) : lword :=
  match l with
  | [] => [f]
  | g :: l' => if N.ltb (fst g) (fst f) then g :: linsert f l' else f :: l
  end.
Fixpoint lsort (t : lword) : lword :=
  match t with [] => [] | f :: t' => linsert f (lsort t') end.
Definition bsimplify (t : lword) (c : C) : C * lword := (c, lsort t).

Definition lop := sop lfactor.
