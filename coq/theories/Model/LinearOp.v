(* Model of LinearQubitOperator._matvec (linalg/linear_qubit_operator.py): for every term the vector is kept as a list `vecs`
   of consecutive pieces; for the factor at position p the pieces are split (numpy.split) into 2^(p - tensor_factor) parts,
   every part is split in two halves, the 2x2 Pauli matrix acts on the pair of halves, and the halves become the new pieces.
   A vector of 2^n amplitudes is a perfect binary tree (qubit 0 at the root, first half = qubit value 0), numpy.split(v, 2^k)
   is `pieces k`, numpy.concatenate is `flatten`. *)
From Coq Require Import NArith List Bool Arith.
From OFV Require Import Base.Cplx Base.Lin Sem.PauliSem Model.SymbolicOp Model.QubitOp.
Import ListNotations.

Inductive vtree := Leaf (c : C) | Node (l r : vtree).
Fixpoint flatten (t : vtree) : list C := match t with Leaf c => [c] | Node l r => flatten l ++ flatten r end.
Fixpoint tmap (f : C -> C) (t : vtree) : vtree := match t with Leaf c => Leaf (f c) | Node l r => Node (tmap f l) (tmap f r) end.
Fixpoint tree_of (n : nat) (x : list C) : vtree :=
  match n with
  | O => Leaf (hd C0 x)
  | S n' => Node (tree_of n' (firstn (Nat.pow 2 n') x)) (tree_of n' (skipn (Nat.pow 2 n') x))
  end.
(* numpy.split(v, 2^k) *)
Fixpoint pieces (k : nat) (t : vtree) : list vtree :=
  match k, t with S k', Node l r => pieces k' l ++ pieces k' r | _, _ => [t] end.
(* the xyz table of _matvec on a pair of halves *)
Definition pair_op (P : pauli) (l r : vtree) : vtree * vtree :=
  match P with
  | PI => (l, r)
  | PX => (r, l)
  | PY => (tmap (Cmul (Copp Ci)) r, tmap (Cmul Ci) l)
  | PZ => (l, tmap Copp r)
  end.
Definition halves_op (P : pauli) (v : vtree) : list vtree :=
  match v with Node l r => let (a, b) := pair_op P l r in [a; b] | Leaf _ => [v] end.
Definition lqo_step (st : nat * list vtree) (f : pfactor) : nat * list vtree :=
  let (tf, vecs) := st in
  let p := N.to_nat (fst f) in
  let vecs1 := if Nat.ltb tf p then flat_map (pieces (p - tf)) vecs else vecs in
  (S p, flat_map (halves_op (snd f)) vecs1).
Definition lqo_term (w : pword) (c : C) (t : vtree) : list C :=
  map (Cmul c) (flat_map flatten (snd (fold_left lqo_step w (O, [t])))).
Fixpoint vadd (a b : list C) : list C :=
  match a, b with x :: a', y :: b' => Cadd x y :: vadd a' b' | _, _ => [] end.
(* retvec = zeros; for term: retvec += coefficient * concatenate(vecs) *)
Definition lqo (n : nat) (op : qop) (x : list C) : list C :=
  fold_left (fun acc tc => vadd acc (lqo_term (fst tc) (snd tc) (tree_of n x))) op (repeat C0 (Nat.pow 2 n)).
