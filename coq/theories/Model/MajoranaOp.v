(* Model of ops/operators/majorana_operator.py: _merge_majorana_terms, _sort_majorana_term,
   __mul__, __iadd__/__isub__ (no pruning), _majorana_terms_commute, __eq__ (numpy.isclose),
   and of _jordan_wigner_majorana_operator.  A term is a list of Majorana indices.  No proofs here. *)
From Coq Require Import QArith Qcanon ZArith NArith List Bool.
From OFV Require Import Base.Cplx Sem.PauliSem Model.SymbolicOp Model.QubitOp Model.JordanWigner Model.Predicates.
Close Scope Qc_scope. Close Scope Q_scope.
Import ListNotations.

Definition mterm := list N.
Definition mop := list (mterm * C).

(* while-loop merge; parity counts transpositions; fuel = |l| + |r| *)
Fixpoint mmerge_aux (fuel : nat) (l r : mterm) : mterm * nat :=
  match fuel with
  | O => (l ++ r, O)
  | S fuel' =>
    match l, r with
    | [], _ => (r, O)
    | _, [] => (l, O)
    | x :: l', y :: r' =>
      if N.ltb x y then let (m, p) := mmerge_aux fuel' l' r in (x :: m, p)
      else if N.ltb y x then let (m, p) := mmerge_aux fuel' l r' in (y :: m, (p + length l)%nat)
      else let (m, p) := mmerge_aux fuel' l' r' in (m, (p + (length l - 1))%nat)
    end
  end.
Definition mmerge (l r : mterm) : mterm * bool :=
  let (m, p) := mmerge_aux (length l + length r) l r in (m, Nat.odd p).

Fixpoint msort_aux (fuel : nat) (t : mterm) : mterm * bool :=
  match fuel with
  | O => (t, false)
  | S fuel' =>
    if Nat.ltb (length t) 2 then (t, false) else
    let c := Nat.div (length t) 2 in
    let (lt, lp) := msort_aux fuel' (firstn c t) in
    let (rt, rp) := msort_aux fuel' (skipn c t) in
    let (m, mp) := mmerge lt rt in (m, xorb (xorb lp rp) mp)
  end.
Definition msort (t : mterm) : mterm * bool := msort_aux (S (length t)) t.

Definition mteqb (a b : mterm) : bool := teqb N.eqb a b.
(* MajoranaOperator(term, coefficient) *)
Definition mmk (t : mterm) (c : C) : mop := let (t', p) := msort t in [(t', Cmul c (sgn p))].
Definition macc (d : mop) (t : mterm) (c : C) : mop := dacc N.eqb d t c.
Definition mmul (a b : mop) : mop :=
  fold_left (fun acc lt => fold_left (fun acc rt =>
     let (t, p) := mmerge (fst lt) (fst rt) in macc acc t (Cmul (Cmul (snd lt) (snd rt)) (sgn p))) b acc) a [].
Definition madd (a b : mop) : mop := fold_left (fun acc tc => macc acc (fst tc) (snd tc)) b a.
Definition msub (a b : mop) : mop := fold_left (fun acc tc => macc acc (fst tc) (Copp (snd tc))) b a.
Definition mscale (a : mop) (k : C) : mop := map (fun tc => (fst tc, Cmul (snd tc) k)) a.

(* _majorana_terms_commute *)
Fixpoint minter (fuel : nat) (a b : mterm) : nat :=
  match fuel with
  | O => O
  | S fuel' =>
    match a, b with
    | x :: a', y :: b' => if N.ltb x y then minter fuel' a' b else if N.ltb y x then minter fuel' a b' else S (minter fuel' a' b')
    | _, _ => O
    end
  end.
Definition mterms_commute (a b : mterm) : bool :=
  Nat.even (length a * length b - minter (length a + length b) a b).

(* gamma_k under Jordan-Wigner: q, b = divmod(k, 2); Z_0..Z_{q-1} (X_q | Y_q) *)
Definition gamma_word (k : N) : pword :=
  let q := N.div k 2 in zstring (N.to_nat q) ++ [(q, if N.odd k then PY else PX)].
Definition mjw_term (t : mterm) (c : C) : qop :=
  fold_left (fun acc k => qmul acc (qmk (gamma_word k) C1)) t (qmk [] c).
Definition mjw0 (op : mop) : qop :=
  fold_left (fun acc tc => iadd pfeqb Cis0 acc (mjw_term (fst tc) (snd tc))) op [].

(* numpy.isclose(a, b): |a - b| <= atol + rtol * |b| with atol = 1e-8, rtol = 1e-5, for values on
   one axis (re * im = 0 for a - b and b), where |z| = |re| + |im| is exact *)
Definition qabs (q : Qc) : Qc := if Qc_ltb q (Q2Qc 0) then Qcopp q else q.
Definition axis_abs (z : C) : Qc := Qcplus (qabs (fst z)) (qabs (snd z)).
Definition np_atol : Qc := qfrac 3022314549036573 302231454903657293676544.      (* 1e-8 *)
Definition np_rtol : Qc := qfrac 5902958103587057 590295810358705651712.         (* 1e-5 *)
Definition np_isclose (a b : C) : bool :=
  Qc_leb (axis_abs (Csub a b)) (Qcplus np_atol (Qcmult np_rtol (axis_abs b))).
Definition meq (a b : mop) : bool :=
  forallb (fun tc => match dget N.eqb b (fst tc) with Some y => np_isclose (snd tc) y | None => np_isclose (snd tc) C0 end) a
  && forallb (fun tc => match dget N.eqb a (fst tc) with Some _ => true | None => np_isclose (snd tc) C0 end) b.
