(* Model of transforms/opconversions/term_reordering.py:
   normal_ordered_ladder_term (fermion: parity -1, boson: parity +1), normal_ordered_quad_term,
   normal_ordered on operators, and the is_normal_ordered predicates.  The double `for` loop over
   an in-place list is transcribed with nth/replace; the recursive call gets explicit fuel
   (the term shrinks by two at each contraction).  No proofs here. *)
From Coq Require Import NArith List Bool.
From OFV Require Import Base.Cplx Model.SymbolicOp Model.LadderOp.
Import ListNotations.

Definition nthf (t : lword) (i : nat) : lfactor := nth i t (0%N, false).
Fixpoint setn (t : lword) (i : nat) (f : lfactor) : lword :=
  match t, i with
  | [], _ => []
  | _ :: t', O => f :: t'
  | g :: t', S i' => g :: setn t' i' f
  end.
(* term[:(j-1)] + term[(j+1):] *)
Definition cut2 (t : lword) (j : nat) : lword := firstn (j - 1) t ++ skipn (j + 1) t.

Record nstate := { nterm : lword; ncoef : C; nacc : lop; nret : bool }.

Section Ladder.
Variable small : C -> bool.                              (* the pruning test of `+=` (EQ_TOLERANCE in the code; Cis0 = exact accumulation) *)
Variable ferm : bool.                                    (* parity = -1 *)
Variable simp : lword -> C -> C * lword.                 (* the class constructor's _simplify *)
Variable rec : lword -> C -> lop.                         (* the recursive call *)
Definition parity : C := if ferm then Cm1 else C1.
Definition acc_add (acc : lop) (r : lop) : lop := iadd lfeqb small acc r.

Definition step_j (st : nstate) (j : nat) : nstate :=
  if nret st then st else
  let t := nterm st in
  let right := nthf t j in
  let left := nthf t (j - 1) in
  if snd right && negb (snd left) then
    let t' := setn (setn t (j - 1) right) j left in
    let c' := Cmul (ncoef st) parity in
    if N.eqb (fst right) (fst left) then
      {| nterm := t'; ncoef := c'; nacc := acc_add (nacc st) (rec (cut2 t' j) (Cmul parity c')); nret := false |}
    else {| nterm := t'; ncoef := c'; nacc := nacc st; nret := false |}
  else if Bool.eqb (snd right) (snd left) then
    if ferm && N.eqb (fst right) (fst left) then
      {| nterm := t; ncoef := ncoef st; nacc := nacc st; nret := true |}
    else if N.ltb (fst left) (fst right) then
      {| nterm := setn (setn t (j - 1) right) j left; ncoef := Cmul (ncoef st) parity; nacc := nacc st; nret := false |}
    else st
  else st.

Definition run_loops (t : lword) (c : C) : nstate :=
  fold_left (fun st i => fold_left step_j (rev (seq 1 i)) st) (seq 1 (length t - 1))
            {| nterm := t; ncoef := c; nacc := []; nret := false |}.
Definition nolt_body (t : lword) (c : C) : lop :=
  let st := run_loops t c in
  if nret st then nacc st else acc_add (nacc st) (mk1 simp (nterm st) (ncoef st)).
End Ladder.

Fixpoint nolt (small : C -> bool) (fuel : nat) (ferm : bool) (simp : lword -> C -> C * lword) (t : lword) (c : C) : lop :=
  match fuel with
  | O => []
  | S fuel' => nolt_body small ferm simp (nolt small fuel' ferm simp) t c
  end.
Definition no_fermi_term (t : lword) (c : C) : lop := nolt small_tol (S (length t)) true fsimplify t c.
Definition no_bose_term (t : lword) (c : C) : lop := nolt small_tol (S (length t)) false bsimplify t c.
(* the same with exact accumulation (no pruning of small coefficients): the reference of the unbounded theorem *)
Definition no_fermi_term0 (t : lword) (c : C) : lop := nolt Cis0 (S (length t)) true fsimplify t c.
Definition normal_ordered_fermi0 (op : lop) : lop :=
  fold_left (fun acc tc => iadd lfeqb Cis0 acc (no_fermi_term0 (fst tc) (snd tc))) op [].

(* ordered_operator += order_fn(term, coefficient) over operator.terms *)
Definition normal_ordered_fermi (op : lop) : lop :=
  fold_left (fun acc tc => iadd lfeqb small_tol acc (no_fermi_term (fst tc) (snd tc))) op [].
Definition normal_ordered_bose (op : lop) : lop :=
  fold_left (fun acc tc => iadd lfeqb small_tol acc (no_bose_term (fst tc) (snd tc))) op [].

(* ---- quadrature: factor (index, is_p); q before p; [q,p] = i hbar ---- *)
Section Quad.
Variable hbar : C.
Variable rec : lword -> C -> lop.
Definition qstep_j (st : nstate) (j : nat) : nstate :=
  let t := nterm st in
  let right := nthf t j in
  let left := nthf t (j - 1) in
  if negb (snd right) && snd left then                (* right is q, left is not q *)
    let t' := setn (setn t (j - 1) right) j left in
    if N.eqb (fst right) (fst left) then
      {| nterm := t'; ncoef := ncoef st;
         nacc := iadd lfeqb small_tol (nacc st) (rec (cut2 t' j) (Cmul (Cmul (Copp (ncoef st)) Ci) hbar)); nret := false |}
    else {| nterm := t'; ncoef := ncoef st; nacc := nacc st; nret := false |}
  else if Bool.eqb (snd right) (snd left) then
    if N.ltb (fst left) (fst right) then
      {| nterm := setn (setn t (j - 1) right) j left; ncoef := ncoef st; nacc := nacc st; nret := false |}
    else st
  else st.
Definition noqt_body (t : lword) (c : C) : lop :=
  let st := fold_left (fun st i => fold_left qstep_j (rev (seq 1 i)) st) (seq 1 (length t - 1))
            {| nterm := t; ncoef := c; nacc := []; nret := false |} in
  iadd lfeqb small_tol (nacc st) (mk1 bsimplify (nterm st) (ncoef st)).
End Quad.
Fixpoint noqt (fuel : nat) (hbar : C) (t : lword) (c : C) : lop :=
  match fuel with O => [] | S fuel' => noqt_body hbar (noqt fuel' hbar) t c end.
Definition normal_ordered_quad (hbar : C) (op : lop) : lop :=
  fold_left (fun acc tc => iadd lfeqb small_tol acc (noqt (S (length (fst tc))) hbar (fst tc) (snd tc))) op [].

(* ---- is_normal_ordered (FermionOperator): every adjacent pair, creation first, then strictly
        decreasing index among equal actions ---- *)
Fixpoint adj_ok (ok : lfactor -> lfactor -> bool) (t : lword) : bool :=
  match t with
  | a :: ((b :: _) as t') => ok a b && adj_ok ok t'
  | _ => true
  end.
Definition fermi_pair_ok (l r : lfactor) : bool :=
  negb (snd r && negb (snd l)) && negb (Bool.eqb (snd r) (snd l) && N.leb (fst l) (fst r)).
Definition is_normal_ordered_fermi (op : lop) : bool := forallb (fun tc => adj_ok fermi_pair_ok (fst tc)) op.
