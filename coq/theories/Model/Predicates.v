(* Model of SymbolicOperator.isclose / __eq__ (per-term tolerance, after fix D2) and of the structural
   predicates is_normal_ordered (fermion, boson), is_two_body_number_conserving,
   is_boson_preserving, is_identity.  All magnitudes are compared through exact squares:
   |x| < t * max(1,|a|,|b|)  <->  |x|^2 < t^2 * max(1,|a|^2,|b|^2).  No proofs here. *)
From Coq Require Import QArith Qcanon ZArith NArith List Bool.
From OFV Require Import Base.Cplx Model.SymbolicOp Model.LadderOp.
Close Scope Qc_scope. Close Scope Q_scope.
Import ListNotations.

Definition Qc_ltb (a b : Qc) : bool := match Qccompare a b with Lt => true | _ => false end.
Definition Qc_leb (a b : Qc) : bool := match Qccompare a b with Gt => false | _ => true end.
Definition Qc_max (a b : Qc) : Qc := if Qc_ltb a b then b else a.
Definition Q1 : Qc := Q2Qc 1.

(* _issmall(a - b, tol * max(1,|a|,|b|)) with tol2 = tol^2 *)
Definition close_tol (t2 : Qc) (a b : C) : bool :=
  Qc_ltb (Cnorm2 (Csub a b)) (Qcmult t2 (Qc_max Q1 (Qc_max (Cnorm2 a) (Cnorm2 b)))).
Definition small_abs (t2 : Qc) (a : C) : bool := Qc_ltb (Cnorm2 a) t2.

Section IsClose.
Variable F : Type.
Variable feqb : F -> F -> bool.
Variable t2 : Qc.
(* terms in both: per-term relative tolerance; terms in one only: absolute tolerance *)
Definition half_close (a b : sop F) : bool :=
  forallb (fun tc => match dget feqb b (fst tc) with
                     | Some y => close_tol t2 (snd tc) y
                     | None => small_abs t2 (snd tc)
                     end) a.
Definition isclose (a b : sop F) : bool := half_close a b && half_close b a.
End IsClose.
Arguments isclose {F} feqb t2 a b.
Arguments half_close {F} feqb t2 a b.

(* FermionOperator.is_two_body_number_conserving(check_spin_symmetry) *)
Definition term_particles (t : lword) : Z :=
  fold_left (fun (acc : Z) (f : lfactor) => (acc + (if snd f then (-1) else 1))%Z) t 0%Z.   (* (-1)**action *)
Definition term_spin (t : lword) : Z :=
  fold_left (fun (acc : Z) (f : lfactor) => (acc + (if xorb (N.odd (fst f)) (snd f) then (-1) else 1))%Z) t 0%Z.  (* (-1)**(index+action) *)
Definition is_two_body_nc (check_spin : bool) (op : lop) : bool :=
  forallb (fun tc =>
    let t := fst tc in
    (Nat.eqb (length t) 0 || Nat.eqb (length t) 2 || Nat.eqb (length t) 4)
    && Z.eqb (term_particles t) 0 && (negb check_spin || Z.eqb (term_spin t) 0)) op.
Definition is_boson_preserving (op : lop) : bool := forallb (fun tc => Z.eqb (term_particles (fst tc)) 0) op.

(* BosonOperator.is_normal_ordered: same index => raising before lowering *)
Fixpoint adj_all (ok : lfactor -> lfactor -> bool) (t : lword) : bool :=
  match t with
  | a :: ((b :: _) as t') => ok a b && adj_all ok t'
  | _ => true
  end.
Definition bose_pair_ok (l r : lfactor) : bool := negb (N.eqb (fst r) (fst l) && (snd r && negb (snd l))).
Definition is_normal_ordered_bose (op : lop) : bool := forallb (fun tc => adj_all bose_pair_ok (fst tc)) op.

(* is_identity: list(operator.terms) == [()] *)
Definition is_identity {F} (op : sop F) : bool :=
  match op with [([], _)] => true | _ => false end.

(* PolynomialTensor.__eq__: equal n_qubits and max |entry difference| over the union of keys
   (a key missing on one side counts with its own entries) strictly below EQ_TOLERANCE *)
Definition tkey := list bool.
Definition ptensor := list (tkey * list C).
Fixpoint tk_eqb (a b : tkey) : bool :=
  match a, b with [], [] => true | x :: a', y :: b' => Bool.eqb x y && tk_eqb a' b' | _, _ => false end.
Fixpoint tget (t : ptensor) (k : tkey) : option (list C) :=
  match t with [] => None | (k', v) :: t' => if tk_eqb k k' then Some v else tget t' k end.
Fixpoint all_small2 (t2 : Qc) (a b : list C) : bool :=     (* elementwise |a_i - b_i|^2 < t2 *)
  match a, b with
  | [], [] => true
  | x :: a', y :: b' => small_abs t2 (Csub x y) && all_small2 t2 a' b'
  | _, _ => false
  end.
Definition ptensor_eq (t2 : Qc) (n1 n2 : N) (a b : ptensor) : bool :=
  N.eqb n1 n2 &&
  forallb (fun kv => match tget b (fst kv) with
                     | Some w => all_small2 t2 (snd kv) w
                     | None => forallb (small_abs t2) (snd kv) end) a &&
  forallb (fun kv => match tget a (fst kv) with Some _ => true | None => forallb (small_abs t2) (snd kv) end) b.
