(* Straight-line programs over SymbolicOperator objects with Python's aliasing semantics:
   variables name objects; out-of-place operations allocate (deepcopy), in-place operations mutate
   the target object, which every alias sees.  run_trace returns, after every statement, the
   .terms of every variable.  No proofs here. *)
From Coq Require Import NArith List Bool.
From OFV Require Import Base.Cplx Model.SymbolicOp.
Import ListNotations.

Inductive binop := OAdd | OSub | OMul.
Inductive stmt (F : Type) :=
| SNew (x : nat) (t : list F) (c : C)         (* x = Cls(t, c) *)
| SZero (x : nat)                             (* x = Cls() *)
| SBin (x y z : nat) (o : binop)              (* x = y o z *)
| SScalR (x y : nat) (k : C)                  (* x = y * k *)
| SScalL (x y : nat) (k : C)                  (* x = k * y *)
| SDiv (x y : nat) (k : C)                    (* x = y / k *)
| SNeg (x y : nat)                            (* x = -y *)
| SPow (x y : nat) (n : nat)                  (* x = y ** n *)
| SAddC (x y : nat) (k : C)                   (* x = y + k *)
| SRSubC (x y : nat) (k : C)                  (* x = k - y *)
| SCopy (x y : nat)                           (* x = copy.deepcopy(y) *)
| SAlias (x y : nat)                          (* x = y *)
| SIBin (x y : nat) (o : binop)               (* x o= y *)
| SIScal (x : nat) (k : C)                    (* x *= k *)
| SIDiv (x : nat) (k : C)                     (* x /= k *)
| SIAddC (x : nat) (k : C)                    (* x += k *)
| SAccum (x : nat) (ys : list nat) (s : option nat).  (* x = Cls.accumulate([ys...], start=s) *)
Arguments SNew {F}. Arguments SZero {F}. Arguments SBin {F}. Arguments SScalR {F}. Arguments SScalL {F}.
Arguments SDiv {F}. Arguments SNeg {F}. Arguments SPow {F}. Arguments SAddC {F}. Arguments SRSubC {F}.
Arguments SCopy {F}. Arguments SAlias {F}. Arguments SIBin {F}. Arguments SIScal {F}. Arguments SIDiv {F}.
Arguments SIAddC {F}. Arguments SAccum {F}.

Section Prog.
Variable F : Type.
Variable feqb : F -> F -> bool.
Variable simplify : list F -> C -> C * list F.
Variable small : C -> bool.
Notation op := (sop F).

Record state := { env : list (nat * nat); store : list (nat * op); next : nat }.
Definition st0 : state := {| env := []; store := []; next := 0 |}.

Fixpoint alookup {A} (k : nat) (l : list (nat * A)) : option A :=
  match l with [] => None | (k', v) :: l' => if Nat.eqb k k' then Some v else alookup k l' end.
Fixpoint aset {A} (k : nat) (v : A) (l : list (nat * A)) : list (nat * A) :=
  match l with
  | [] => [(k, v)]
  | (k', v') :: l' => if Nat.eqb k k' then (k', v) :: l' else (k', v') :: aset k v l'
  end.

Definition load (st : state) (x : nat) : op :=
  match alookup x (env st) with
  | Some o => match alookup o (store st) with Some v => v | None => [] end
  | None => []
  end.
(* x = <fresh object holding v> *)
Definition bind_new (st : state) (x : nat) (v : op) : state :=
  {| env := aset x (next st) (env st); store := aset (next st) v (store st); next := S (next st) |}.
(* mutate the object x names *)
Definition mutate (st : state) (x : nat) (v : op) : state :=
  match alookup x (env st) with
  | Some o => {| env := env st; store := aset o v (store st); next := next st |}
  | None => st
  end.

Definition binop_eval (o : binop) (a b : op) : op :=
  match o with
  | OAdd => iadd feqb small a b
  | OSub => isub feqb small a b
  | OMul => imul feqb simplify a b
  end.

Definition step (st : state) (s : stmt F) : state :=
  match s with
  | SNew x t c => bind_new st x (mk1 simplify t c)
  | SZero x => bind_new st x []
  | SBin x y z o => bind_new st x (binop_eval o (load st y) (load st z))
  | SScalR x y k | SScalL x y k => bind_new st x (iscale (load st y) k)
  | SDiv x y k => bind_new st x (sdiv (load st y) k)
  | SNeg x y => bind_new st x (neg (load st y))
  | SPow x y n => bind_new st x (spow feqb simplify (load st y) n)
  | SAddC x y k => bind_new st x (iaddc feqb (load st y) k)
  | SRSubC x y k => bind_new st x (iaddc feqb (iscale (load st y) Cm1) k)
  | SCopy x y => bind_new st x (load st y)
  | SAlias x y => match alookup y (env st) with
                  | Some o => {| env := aset x o (env st); store := store st; next := next st |}
                  | None => st end
  | SIBin x y o => mutate st x (binop_eval o (load st x) (load st y))
  | SIScal x k => mutate st x (iscale (load st x) k)
  | SIDiv x k => mutate st x (iscale (load st x) (Cinv k))
  | SIAddC x k => mutate st x (iaddc feqb (load st x) k)
  | SAccum x ys s => bind_new st x (fold_left (fun acc y => iadd feqb small acc (load st y)) ys
                                      (match s with Some z => load st z | None => [] end))
  end.

Definition dump (st : state) : list (nat * op) := map (fun xo => (fst xo, load st (fst xo))) (env st).

Fixpoint run_trace (st : state) (p : list (stmt F)) : list (list (nat * op)) :=
  match p with
  | [] => []
  | s :: p' => let st' := step st s in dump st' :: run_trace st' p'
  end.

(* comparison of dictionaries: same coefficient for every key, absent = exactly zero *)
Definition dsub (a b : op) : bool :=
  forallb (fun tc => Ceqb (snd tc) (match dget feqb b (fst tc) with Some c => c | None => C0 end)) a.
Definition dequiv (a b : op) : bool := dsub a b && dsub b a.
(* no duplicate keys *)
Fixpoint dnodup (a : op) : bool :=
  match a with [] => true | (t, _) :: a' => negb (existsb (fun tc => teqb feqb t (fst tc)) a') && dnodup a' end.

Fixpoint dumps_equiv (a b : list (nat * op)) : bool :=
  match a, b with
  | [], [] => true
  | (x, u) :: a', (y, v) :: b' => Nat.eqb x y && dequiv u v && dnodup v && dumps_equiv a' b'
  | _, _ => false
  end.
Fixpoint traces_equiv (a b : list (list (nat * op))) : bool :=
  match a, b with
  | [], [] => true
  | u :: a', v :: b' => dumps_equiv u v && traces_equiv a' b'
  | _, _ => false
  end.
Definition prog_check (p : list (stmt F)) (expected : list (list (nat * op))) : bool :=
  traces_equiv (run_trace st0 p) expected.
End Prog.
