(* Model of openfermion.ops.operators.qubit_operator.QubitOperator._simplify and of
   IsingOperator._simplify.  No proofs here. *)
From Coq Require Import NArith List Bool.
From OFV Require Import Base.Cplx Sem.PauliSem Model.SymbolicOp.
Import ListNotations.

Definition pfeqb (a b : pfactor) : bool := N.eqb (fst a) (fst b) && pauli_eqb (snd a) (snd b).

(* sorted(term, key=lambda factor: factor[0]) : stable *)
Fixpoint pinsert (f : pfactor) (l : pword) : pword :=
  match l with
  | [] => [f]
  | g :: l' => if N.ltb (fst g) (fst f) then g :: pinsert f l' else f :: l
  end.
Fixpoint psort (t : pword) : pword :=
  match t with [] => [] | f :: t' => pinsert f (psort t') end.

Definition emit (f : pfactor) : pword := match snd f with PI => [] | _ => [f] end.

(* the loop of QubitOperator._simplify over an already sorted term *)
Fixpoint pfold (left : pfactor) (rest : pword) : C * pword :=
  match rest with
  | [] => (C1, emit left)
  | r :: rest' =>
      if N.eqb (fst left) (fst r) then
        let (k, a) := pauli_mul (snd left) (snd r) in
        let (c, t) := pfold (fst left, a) rest' in (Cmul (ipow k) c, t)
      else
        let (c, t) := pfold r rest' in (c, emit left ++ t)
  end.

Definition qsimplify (t : pword) (c : C) : C * pword :=
  match psort t with
  | [] => (c, [])
  | l :: rest => let (ph, t') := pfold l rest in (Cmul c ph, t')
  end.

Definition qop := sop pfactor.
Definition qmul := imul pfeqb qsimplify.
Definition qadd := iadd pfeqb small_tol.
Definition qsub := isub pfeqb small_tol.
Definition qpow := spow pfeqb qsimplify.
Definition qmk := mk1 qsimplify.

(* IsingOperator._simplify: indices with odd multiplicity, sorted, all Z *)
Fixpoint toggle (j : N) (l : list N) : list N :=   (* sorted list of odd-multiplicity indices *)
  match l with
  | [] => [j]
  | k :: l' => if N.ltb k j then k :: toggle j l' else if N.eqb k j then l' else j :: l
  end.
Definition isimplify (t : pword) (c : C) : C * pword :=
  (c, map (fun j => (j, PZ)) (fold_right (fun f acc => toggle (fst f) acc) [] t)).
Definition imul_ising := imul pfeqb isimplify.
