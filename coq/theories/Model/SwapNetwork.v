(* Model of circuits/primitives/swap_network.py: the odd-even transposition network with a callback.
   An event (p, q, i) records that the callback was applied to modes p, q stored on positions i, i+1.
   No proofs here. *)
From Coq Require Import Arith List Bool.
Import ListNotations.

Fixpoint swap_at (order : list nat) (i : nat) : list nat :=
  match order, i with
  | a :: b :: r, O => b :: a :: r
  | a :: r, S i' => a :: swap_at r i'
  | _, _ => order
  end.
Fixpoint active_positions (fuel lo n : nat) : list nat :=      (* range(lo, n - 1, 2) *)
  match fuel with O => [] | S f => if lo <? n - 1 then lo :: active_positions f (lo + 2) n else [] end.
Definition layer_step (st : list nat * list (nat * nat * nat)) (i : nat) : list nat * list (nat * nat * nat) :=
  let order := fst st in
  (swap_at order i, snd st ++ [(nth i order 0, nth (S i) order 0, i)]).
Definition run_layer (n : nat) (offset : bool) (st : list nat * list (nat * nat * nat)) (layer : nat) :=
  fold_left layer_step (active_positions n (Nat.modulo (layer + (if offset then 1 else 0)) 2) n) st.
Definition swap_network (n : nat) (offset : bool) : list nat * list (nat * nat * nat) :=
  fold_left (run_layer n offset) (seq 0 n) (seq 0 n, []).

(* every unordered pair of modes meets exactly once; the final order is the reversal *)
Definition pair_count (a b : nat) (ev : list (nat * nat * nat)) : nat :=
  length (filter (fun e => let '(p, q, _) := e in ((p =? a) && (q =? b)) || ((p =? b) && (q =? a))) ev).
Fixpoint nat_list_eqb (a b : list nat) : bool :=
  match a, b with [], [] => true | x :: a', y :: b' => (x =? y) && nat_list_eqb a' b' | _, _ => false end.
Definition events_ok (n : nat) (ev : list (nat * nat * nat)) (final : list nat) : bool :=
  forallb (fun a => forallb (fun b => if a <? b then pair_count a b ev =? 1 else true) (seq 0 n)) (seq 0 n)
  && forallb (fun e => let '(_, _, i) := e in S i <? n) ev
  && nat_list_eqb final (rev (seq 0 n))
  && (length ev =? n * (n - 1) / 2).
Definition swap_network_ok (n : nat) (offset : bool) : bool :=
  let '(final, ev) := swap_network n offset in events_ok n ev final.
