(* Model of openfermion.ops.operators.symbolic_operator.SymbolicOperator arithmetic.
   A .terms dictionary is an association list in insertion order (Python dicts preserve it).
   Generic in the factor type and in the class's _simplify.  No proofs here. *)
From Coq Require Import QArith Qcanon NArith List Bool.
From OFV Require Import Base.Cplx.
Close Scope Qc_scope. Close Scope Q_scope.
Import ListNotations.

Section Sym.
Variable F : Type.
Variable feqb : F -> F -> bool.
Definition term := list F.
Definition sop := list (term * C).

Fixpoint teqb (a b : term) : bool :=
  match a, b with
  | [], [] => true
  | x :: a', y :: b' => feqb x y && teqb a' b'
  | _, _ => false
  end.

(* _simplify(term, coefficient) -> (coefficient, term) *)
Variable simplify : term -> C -> C * term.
(* _issmall(val) with the default tolerance *)
Variable small : C -> bool.

Fixpoint dget (d : sop) (t : term) : option C :=
  match d with
  | [] => None
  | (t', c) :: d' => if teqb t t' then Some c else dget d' t
  end.
(* d[t] = c : replace in place, or append *)
Fixpoint dset (d : sop) (t : term) (c : C) : sop :=
  match d with
  | [] => [(t, c)]
  | (t', c') :: d' => if teqb t t' then (t', c) :: d' else (t', c') :: dset d' t c
  end.
Fixpoint ddel (d : sop) (t : term) : sop :=
  match d with
  | [] => []
  | (t', c') :: d' => if teqb t t' then d' else (t', c') :: ddel d' t
  end.

(* result_terms[new_term] += c  or  = c *)
Definition dacc (d : sop) (t : term) (c : C) : sop :=
  match dget d t with Some c0 => dset d t (Cadd c0 c) | None => dset d t c end.

(* __imul__ with an operator *)
Definition imul (a b : sop) : sop :=
  fold_left (fun acc lt =>
    fold_left (fun acc rt =>
      let (c, t) := simplify (fst lt ++ fst rt) (Cmul (snd lt) (snd rt)) in dacc acc t c) b acc) a [].
(* __imul__ with a scalar *)
Definition iscale (a : sop) (k : C) : sop := map (fun tc => (fst tc, Cmul (snd tc) k)) a.

(* one step of __iadd__ / __isub__:  self[t] = self.get(t,0) +/- c ; delete if small *)
Definition iadd1 (d : sop) (t : term) (c : C) : sop :=
  let v := match dget d t with Some c0 => Cadd c0 c | None => Cadd C0 c end in
  if small v then ddel d t else dset d t v.
(* the addend's items are read from a snapshot (after fix D1: list(addend.terms.items())) *)
Definition iadd (a b : sop) : sop := fold_left (fun acc tc => iadd1 acc (fst tc) (snd tc)) b a.
Definition isub (a b : sop) : sop := fold_left (fun acc tc => iadd1 acc (fst tc) (Copp (snd tc))) b a.
(* += scalar : self.constant += k  (self.terms[()] = self.terms.get((),0)+k, no small test) *)
Definition iaddc (a : sop) (k : C) : sop :=
  dset a [] (Cadd (match dget a [] with Some c0 => c0 | None => C0 end) k).

Definition mul (a b : sop) : sop := imul a b.
Definition add (a b : sop) : sop := iadd a b.
Definition sub (a b : sop) : sop := isub a b.
Definition neg (a : sop) : sop := iscale a Cm1.               (* -1 * self *)
Definition rsub (a b : sop) : sop := iadd (iscale a Cm1) b.    (* b - a computed as -1*a + b *)
Definition sdiv (a : sop) (k : C) : sop := iscale a (Cinv k).  (* self * (1.0/k) *)
Definition ident : sop := [([], C1)].
Fixpoint spow (a : sop) (n : nat) : sop :=                     (* identity *= a, n times *)
  match n with O => ident | S n' => imul (spow a n') a end.
(* constructor from one term: SymbolicOperator(term, coefficient) *)
Definition mk1 (t : term) (c : C) : sop := let (c', t') := simplify t c in [(t', c')].
End Sym.

Arguments teqb {F} feqb a b.
Arguments dget {F} feqb d t.
Arguments dset {F} feqb d t c.
Arguments ddel {F} feqb d t.
Arguments dacc {F} feqb d t c.
Arguments imul {F} feqb simplify a b.
Arguments iscale {F} a k.
Arguments iadd1 {F} feqb small d t c.
Arguments iadd {F} feqb small a b.
Arguments isub {F} feqb small a b.
Arguments iaddc {F} feqb a k.
Arguments neg {F} a.
Arguments rsub {F} feqb small a b.
Arguments sdiv {F} a k.
Arguments ident {F}.
Arguments spow {F} feqb simplify a n.
Arguments mk1 {F} simplify t c.

(* EQ_TOLERANCE = 1e-8 ; |v| < tol  <->  |v|^2 < tol^2 (exact rationals) *)
(* the binary64 value of the literal 1e-8 *)
Definition tolq : Qc := qfrac 3022314549036573 302231454903657293676544.
Definition tol2 : Qc := Qcmult tolq tolq.
Definition small_tol (v : C) : bool :=
  match Qccompare (Cnorm2 v) tol2 with Lt => true | _ => false end.
