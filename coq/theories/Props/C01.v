(* C01 - operator arithmetic is a faithful algebra homomorphism.
   Only statements, closed by `exact`, each followed by Print Assumptions. *)
From Coq Require Import NArith List Bool.
From OFV Require Import Base.Cplx Base.Lin Sem.PauliSem Model.SymbolicOp Model.QubitOp
  Sem.FermiSem Model.LadderOp Model.MajoranaOp Thm.C01.QubitSimplify Thm.C01.SymHom Thm.C01.QubitHom Thm.C01.FermiHom Thm.C01.IsingSimplify Thm.C01.GenTie Thm.C02.Bounded.
Import ListNotations.

(* _simplify denotes coefficient * the input word, for every word (any length, repeated qubits) *)
Theorem C01_qubit_simplify_sound : forall t c s,
  cscale (fst (qsimplify t c)) (apply_word (snd (qsimplify t c)) s) = cscale c (apply_word t s).
Proof. exact qsimplify_sound. Qed.
Print Assumptions C01_qubit_simplify_sound.

(* ... and its output is canonical: strictly increasing qubit indices, no identity factor *)
Theorem C01_qubit_simplify_canonical : forall t c, canonical (snd (qsimplify t c)).
Proof. exact qsimplify_canonical. Qed.
Print Assumptions C01_qubit_simplify_canonical.

Theorem C01_qubit_mul_hom : forall a b s, leq N.eqb (qden (qmul a b) s) (lbind (qden b s) (qden a)).
Proof. exact qmul_hom. Qed.
Print Assumptions C01_qubit_mul_hom.

Theorem C01_qubit_mul_canonical : forall a b, Forall (fun tc => canonical (fst tc)) (qmul a b).
Proof. exact qmul_canonical. Qed.
Print Assumptions C01_qubit_mul_canonical.

Theorem C01_qubit_scale_hom : forall a c s, leq N.eqb (qden (iscale a c) s) (lscale c (qden a s)).
Proof. exact qscale_hom. Qed.
Print Assumptions C01_qubit_scale_hom.

(* + and - are exact unless some summed coefficient is non-zero yet below EQ_TOLERANCE
   (the pruning of the implementation, stated explicitly) *)
Theorem C01_qubit_add_hom : forall a b s, iadd_exact pfactor pfeqb small_tol a b = true ->
  leq N.eqb (qden (qadd a b) s) (qden a s ++ qden b s).
Proof. exact qadd_hom. Qed.
Print Assumptions C01_qubit_add_hom.

Theorem C01_qubit_sub_hom : forall a b s, iadd_exact pfactor pfeqb small_tol a (negop pfactor b) = true ->
  leq N.eqb (qden (qsub a b) s) (qden a s ++ lscale Cm1 (qden b s)).
Proof. exact qsub_hom. Qed.
Print Assumptions C01_qubit_sub_hom.

Theorem C01_qubit_pow_hom : forall a n s, leq N.eqb (qden (qpow a n) s) (lpow (qden a) n s).
Proof. exact qpow_hom. Qed.
Print Assumptions C01_qubit_pow_hom.

(* non-vacuity: a concrete operand pair meeting the exactness hypothesis *)
Example C01_add_exact_nonvacuous :
  iadd_exact pfactor pfeqb small_tol [([(0%N, PX)], C1)] [([(0%N, PX)], Cm1); ([(1%N, PZ)], Ci)] = true.
Proof. vm_compute. reflexivity. Qed.

(* tie to the source: the table in qubit_operator.py is the model's product table *)
Theorem C01_gen_pauli_table :
  forallb (fun a => forallb (fun b => entry_ok a b) all_pauli) all_pauli = true
  /\ List.length Gen.PauliTable.gen_pauli_products = 16%nat.
Proof. exact gen_pauli_table_is_model. Qed.
Print Assumptions C01_gen_pauli_table.

(* FermionOperator: the same homomorphism theorems against the Fock-space semantics *)
Theorem C01_fermion_mul_hom : forall a b s, leq N.eqb (fden (fmul a b) s) (lbind (fden b s) (fden a)).
Proof. exact fmul_hom. Qed.
Print Assumptions C01_fermion_mul_hom.
Theorem C01_fermion_add_hom : forall a b s, iadd_exact lfactor lfeqb small_tol a b = true ->
  leq N.eqb (fden (iadd lfeqb small_tol a b) s) (fden a s ++ fden b s).
Proof. exact fadd_hom. Qed.
Theorem C01_fermion_pow_hom : forall a n s, leq N.eqb (fden (spow lfeqb fsimplify a n) s) (lpow (fden a) n s).
Proof. exact fpow_hom. Qed.
Print Assumptions C01_fermion_pow_hom.

(* MajoranaOperator [B]: merging/sorting index words preserves the denoted operator with the
   computed parity sign (complete enumerations: sorted sets below 5; words of length <= 4 below 4) *)
Theorem C01_majorana_merge_sound_5 : forallb (fun l => forallb (fun r => merge_ok l r) (subsets 5)) (subsets 5) = true.
Proof. exact majorana_merge_sound_6. Qed.
Theorem C01_majorana_sort_sound : forallb sort_ok (flat_map (iwords 4) (seq 0 5)) = true.
Proof. exact majorana_sort_sound_4_4. Qed.
Print Assumptions C01_majorana_sort_sound.

(* IsingOperator._simplify: sound for every Z-word and canonical *)
Theorem C01_ising_simplify_sound : forall t c s, all_Z t ->
  cscale (fst (isimplify t c)) (apply_word (snd (isimplify t c)) s) = cscale c (apply_word t s).
Proof. exact isimplify_sound. Qed.
Theorem C01_ising_simplify_canonical : forall t c, canonical (snd (isimplify t c)).
Proof. exact isimplify_canonical. Qed.
Print Assumptions C01_ising_simplify_canonical.
