(* C02 - equality and structural predicates decide what they claim. *)
From Coq Require Import QArith Qcanon ZArith NArith List Bool.
From OFV Require Import Base.Cplx Model.SymbolicOp Model.LadderOp Model.Program Model.Predicates Model.MajoranaOp
  Thm.C02.IsClose Thm.C02.Bounded Thm.C03.NormalOrderB Model.NormalOrder Thm.C03.NormalOrderFix.
Close Scope Qc_scope. Close Scope Q_scope.
Import ListNotations.

(* isclose = the per-term specification, which mentions only dictionary lookups: hence no dependence
   on other terms or on iteration order *)
Theorem C02_isclose_spec : forall (F : Type) (feqb : F -> F -> bool),
  (forall a b, reflect (a = b) (feqb a b)) -> forall t2 a b,
  dnodup F feqb a = true -> dnodup F feqb b = true ->
  (isclose feqb t2 a b = true <-> forall t, close_spec t2 (dget feqb a t) (dget feqb b t)).
Proof. exact isclose_spec. Qed.
Print Assumptions C02_isclose_spec.
Theorem C02_isclose_sym : forall (F : Type) (feqb : F -> F -> bool) t2 a b, isclose feqb t2 a b = isclose feqb t2 b a.
Proof. exact isclose_sym. Qed.
Print Assumptions C02_isclose_sym.
Example C02_isclose_nonvacuous :   (* 12 shared terms of size 10, one coefficient differing by 1: not close (D2) *)
  isclose N.eqb tol2 (map (fun k => ([N.of_nat k], CofZ 10)) (seq 0 12) ++ [([20%N], CofZ 1)])
                     (map (fun k => ([N.of_nat k], CofZ 10)) (seq 0 12) ++ [([20%N], CofZ 2)]) = false.
Proof. vm_compute. reflexivity. Qed.

Theorem C02_majorana_merge_sound_5 : forallb (fun l => forallb (fun r => merge_ok l r) (subsets 5)) (subsets 5) = true.
Proof. exact majorana_merge_sound_6. Qed.
Theorem C02_majorana_terms_commute_correct_5 : forallb (fun l => forallb (fun r => commute_ok l r) (subsets 5)) (subsets 5) = true.
Proof. exact majorana_terms_commute_correct_5. Qed.
Print Assumptions C02_majorana_terms_commute_correct_5.
Theorem C02_majorana_sort_sound : forallb sort_ok (flat_map (iwords 4) (seq 0 5)) = true.
Proof. exact majorana_sort_sound_4_4. Qed.
Theorem C02_is_normal_ordered_iff_fixed : forallb no_pred_ok (words_upto 3 4) = true.
Proof. exact is_normal_ordered_iff_fixed_3_4. Qed.
Print Assumptions C02_is_normal_ordered_iff_fixed.

(* [F] is_normal_ordered answers True only on fixed points of normal ordering, for words of every length over any modes *)
Theorem C02_is_normal_ordered_implies_fixed : forall t c, is_normal_ordered_fermi [(t, c)] = true -> small_tol (Cadd C0 c) = false ->
  no_fermi_term t c = [(t, c)].
Proof. intros t c H. apply normal_ordered_word_fixed. unfold is_normal_ordered_fermi in H. cbn [forallb fst] in H. rewrite andb_true_r in H. exact H. Qed.
Print Assumptions C02_is_normal_ordered_implies_fixed.
