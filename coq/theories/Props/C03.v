(* C03 - normal ordering yields the canonical form of the same operator. *)
From Coq Require Import ZArith NArith List Bool.
From OFV Require Import Base.Cplx Base.Lin Sem.PauliSem Sem.FermiSem Sem.BoseSem Model.SymbolicOp Model.LadderOp
  Model.NormalOrder Thm.C01.SymHom Thm.C03.CAR Thm.C03.NormalOrderB Thm.C03.NormalOrderF Thm.C03.NormalOrderFix Thm.C03.NormalOrderSorted Check.OpEquiv.
Import ListNotations.

(* the rewrite rules normal ordering applies are identities of the Fock-space semantics,
   for all modes and all basis states *)
Theorem C03_car_anticommute : forall i x j y s, i <> j ->
  leq N.eqb (two (i, x) (j, y) s) (lscale Cm1 (two (j, y) (i, x) s)).
Proof. exact car_anticomm_diff. Qed.
Print Assumptions C03_car_anticommute.
Theorem C03_car_nilpotent : forall i x s, leq N.eqb (two (i, x) (i, x) s) [].
Proof. exact car_nilpotent. Qed.
Print Assumptions C03_car_nilpotent.
Theorem C03_car_contract : forall i s k,
  Cadd (coeff N.eqb k (two (i, false) (i, true) s)) (coeff N.eqb k (two (i, true) (i, false) s)) = coeff N.eqb k [(C1, s)].
Proof. exact car_contract. Qed.
Print Assumptions C03_car_contract.

(* [F] unbounded: the model of normal_ordered_ladder_term for fermions (the transcribed double loop over the in-place list, the
   recursive call on the contracted word, explicit fuel) with exact accumulation denotes, for EVERY word - any length, repeated
   modes, arbitrary interleaving - and every coefficient, the operator it was given; hence so does normal_ordered on every operator.
   (The code's `+=` additionally prunes coefficients below EQ_TOLERANCE; the correspondence check compares the implementation with
   both accumulation modes on every generated input.) *)
Theorem C03_step_preserves_denotation : forall small, (forall a b, iadd_exact lfactor lfeqb small a b = true) ->
  forall rec st j, 1 <= j -> j < length (nterm st) ->
  (forall t' c' s, length t' + 2 = length (nterm st) -> leq N.eqb (fden (rec t' c') s) (lscale c' (fapply_word t' s))) ->
  length (nterm (step_j small true rec st j)) = length (nterm st) /\
  forall s, leq N.eqb (stden (step_j small true rec st j) s) (stden st s).
Proof. exact step_sound. Qed.
Print Assumptions C03_step_preserves_denotation.
Theorem C03_normal_ordered_term_sound : forall t c s, leq N.eqb (fden (no_fermi_term0 t c) s) (lscale c (fapply_word t s)).
Proof. exact no_fermi_term0_sound. Qed.
Print Assumptions C03_normal_ordered_term_sound.
Theorem C03_normal_ordered_sound : forall op s, leq N.eqb (fden (normal_ordered_fermi0 op) s) (fden op s).
Proof. exact normal_ordered_fermi0_sound. Qed.
Print Assumptions C03_normal_ordered_sound.

(* [F] a word that satisfies is_normal_ordered is left unchanged by the model (with the code's tolerance): one half of idempotence
   and of "is_hermitian may rely on it", for every length and all modes *)
Theorem C03_normal_ordered_word_fixed : forall t c, adj_ok fermi_pair_ok t = true -> small_tol (Cadd C0 c) = false ->
  no_fermi_term t c = [(t, c)].
Proof. exact normal_ordered_word_fixed. Qed.
Print Assumptions C03_normal_ordered_word_fixed.

(* [F] every term the model returns is in normal order (the double loop is an insertion sort with an early exit on a repeated
   factor; contraction terms are normal-ordered recursively) - for every word, every operator, with the code's pruning tolerance *)
Theorem C03_normal_ordered_term_is_ordered : forall t c, is_normal_ordered_fermi (no_fermi_term t c) = true.
Proof. exact no_fermi_term_sorted. Qed.
Print Assumptions C03_normal_ordered_term_is_ordered.
Theorem C03_normal_ordered_is_ordered : forall op, is_normal_ordered_fermi (normal_ordered_fermi op) = true.
Proof. exact normal_ordered_fermi_sorted. Qed.
Print Assumptions C03_normal_ordered_is_ordered.
(* ... hence normal ordering is idempotent term by term: each returned term is a fixed point *)
Theorem C03_normal_ordering_idempotent_on_terms : forall t c t' c', In (t', c') (no_fermi_term t c) ->
  small_tol (Cadd C0 c') = false -> no_fermi_term t' c' = [(t', c')].
Proof.
  intros t c t' c' Hin Hc. apply normal_ordered_word_fixed; [|exact Hc].
  pose proof (no_fermi_term_sorted t c) as H. unfold is_normal_ordered_fermi in H. rewrite forallb_forall in H. exact (H _ Hin).
Qed.
Print Assumptions C03_normal_ordering_idempotent_on_terms.

(* [B] complete bounded domains (stated): the model of normal_ordered_ladder_term / _quad_term
   preserves the denotation, produces normal-ordered terms, and is idempotent *)
Theorem C03_fermi_words_len4_modes3 : forallb fermi_word_ok (words_upto 3 4) = true.
Proof. exact no_fermi_words_3_4. Qed.
Print Assumptions C03_fermi_words_len4_modes3.
Theorem C03_bose_words_len4_modes2 : forallb bose_word_ok (words_upto 2 4) = true.
Proof. exact no_bose_words_2_4. Qed.
Theorem C03_quad_words_len4_modes2_hbar :
  forallb (quad_word_ok (Cmk 2%Z 1%positive 0%Z 1%positive)) (words_upto 2 4) = true /\
  forallb (quad_word_ok (Cmk 1%Z 2%positive 0%Z 1%positive)) (words_upto 2 4) = true.
Proof. exact no_quad_words_2_4. Qed.
Print Assumptions C03_quad_words_len4_modes2_hbar.

(* the per-input checker used on implementation outputs is sound *)
Theorem C03_checker_sound : forall f g, fermi_equiv f g = true -> forall s, leq N.eqb (fden f s) (fden g s).
Proof. exact fermi_equiv_sound. Qed.
Print Assumptions C03_checker_sound.
