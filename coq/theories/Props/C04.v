(* C04 - Jordan-Wigner transform is exact. *)
From Coq Require Import NArith List Bool.
From OFV Require Import Base.Cplx Base.Lin Sem.PauliSem Sem.FermiSem Model.SymbolicOp Model.QubitOp
  Model.LadderOp Model.JordanWigner Thm.C01.QubitHom Thm.C04.JWSound Model.MajoranaOp Thm.C04.MajoranaSound Check.OpEquiv.
Import ListNotations.

(* the image of one ladder operator acts on every qubit basis state exactly as the ladder operator
   acts on the occupation state (mode j on qubit j, Z-string on the lower modes) *)
Theorem C04_jw_ladder_sound : forall f s, leq N.eqb (qden (jw_ladder f) s) (fapply1 f s).
Proof. exact jw_ladder_den. Qed.
Print Assumptions C04_jw_ladder_sound.

(* ... hence for every FermionOperator (any words, any modes), provided the outer `+=` prunes no
   non-zero coefficient (computable side condition, explicit EQ_TOLERANCE semantics) *)
Theorem C04_jw_sound : forall op s, jw_exact op = true -> leq N.eqb (qden (jw op) s) (fden op s).
Proof. exact jw_sound. Qed.
Print Assumptions C04_jw_sound.

(* ... unconditionally for the exact-accumulation reference transform used by the checkers *)
Theorem C04_jw0_sound : forall op s, leq N.eqb (qden (jw0 op) s) (fden op s).
Proof. exact jw0_sound. Qed.
Print Assumptions C04_jw0_sound.

(* every MajoranaOperator (gamma_2q = a_q + a+_q, gamma_2q+1 = i (a+_q - a_q)): the image acts as the Majorana word does on Fock space *)
Theorem C04_majorana_jw_sound : forall op s, leq N.eqb (qden (mjw0 op) s) (mden op s).
Proof. exact mjw0_sound. Qed.
Print Assumptions C04_majorana_jw_sound.

(* soundness of the checker run on every implementation output of the fast paths *)
Theorem C04_checker_sound : forall f q, fermi_pauli_equiv f q = true -> forall s, leq N.eqb (fden f s) (qden q s).
Proof. exact fermi_pauli_equiv_sound. Qed.
Print Assumptions C04_checker_sound.

Example C04_jw_exact_nonvacuous :
  jw_exact [([(1%N, true); (0%N, false)], C1); ([(0%N, true); (1%N, false)], C1)] = true.
Proof. vm_compute. reflexivity. Qed.
