(* C05 - Bravyi-Kitaev family transforms are valid encodings equivalent to JW. *)
From Coq Require Import ZArith NArith List Bool.
From OFV Require Import Base.Cplx Base.Lin Sem.PauliSem Sem.FermiSem Model.QubitOp Model.LadderOp Model.BravyiKitaev Check.Encoding
  Thm.C01.QubitHom Thm.C05.BKB Thm.C05.Sets Thm.C05.BKLinear Thm.C05.BKTreeLinear.
Import ListNotations.

(* [B] every n_qubits <= 7: the modelled ladder images are the Fock ladder operators transported by a
   signed permutation W of the occupation basis with W|0..0> = |0..0>; number operators diagonal *)
Theorem C05_bk_encoding_valid_upto_7 : forallb (encoding_valid bk_ladder) (seq 1 7) = true.
Proof. exact bk_encoding_valid_upto_7. Qed.
Print Assumptions C05_bk_encoding_valid_upto_7.
Theorem C05_bk_tree_encoding_valid_upto_7 : forallb (encoding_valid bkt_ladder) (seq 1 7) = true.
Proof. exact bk_tree_encoding_valid_upto_7. Qed.
Print Assumptions C05_bk_tree_encoding_valid_upto_7.
(* [B] every n_qubits <= 128, every mode: the bit-trick sets are the Fenwick update / parity /
   occupation sets of the storage scheme F(j) = [j+1-lowbit(j+1), j] *)
Theorem C05_bk_sets_fenwick_upto_128 : forallb sets_ok_n (seq 1 128) = true.
Proof. exact bk_sets_fenwick_upto_128. Qed.
Print Assumptions C05_bk_sets_fenwick_upto_128.

(* the linear-encoding theorem: for EVERY n and i for which the decidable side conditions bk_ok n i hold
   (mask identities of the index sets w.r.t. the storage scheme F, exactness of the ladder's internal +),
   the ladder image acts on EVERY encoded occupation state as the ladder operator acts on the state *)
Theorem C05_bk_ladder_linear : forall n i act v, bk_ok n i = true ->
  leq N.eqb (qden (bk_ladder (N.of_nat i, act) (Z.of_nat n)) (enc n v)) (emap n (fapply1 (N.of_nat i, act) v)).
Proof. exact bk_ladder_den. Qed.
Print Assumptions C05_bk_ladder_linear.
(* ... hence, with the side conditions computed for all n_qubits <= 128: for EVERY FermionOperator on modes
   < n and EVERY occupation state the (exactly accumulated) Bravyi-Kitaev image is the operator transported
   by the basis encoding, which is injective on n-bit states (same spectrum as Jordan-Wigner) *)
Theorem C05_bk_sound_upto_128 : forall n op v, (1 <= n <= 128)%nat -> modes_lt n op = true ->
  leq N.eqb (qden (bk_gen Cis0 op (Z.of_nat n)) (enc n v)) (emap n (fden op v)).
Proof. exact bk_sound_upto_128. Qed.
Print Assumptions C05_bk_sound_upto_128.
Theorem C05_bk_encoding_injective_upto_128 : forall n v v', (1 <= n <= 128)%nat ->
  (v < 2 ^ N.of_nat n)%N -> (v' < 2 ^ N.of_nat n)%N -> enc n v = enc n v' -> v = v'.
Proof. exact bk_encoding_injective_upto_128. Qed.
Print Assumptions C05_bk_encoding_injective_upto_128.

(* bravyi_kitaev_tree by the same argument (storage scheme: qubit j stores the parity of the modes whose
   Fenwick-tree update path contains j): for every n_qubits <= 40, EVERY operator on modes < n, EVERY state *)
Theorem C05_bkt_ladder_linear : forall n i act v, tree_ok n i = true ->
  leq N.eqb (qden (bkt_ladder (N.of_nat i, act) (Z.of_nat n)) (encF (Ft n) n v)) (emapF (Ft n) n (fapply1 (N.of_nat i, act) v)).
Proof. exact bkt_ladder_den. Qed.
Print Assumptions C05_bkt_ladder_linear.
Theorem C05_bkt_sound_upto_40 : forall n op v, (1 <= n <= 40)%nat -> modes_lt n op = true ->
  leq N.eqb (qden (bkt0 op (Z.of_nat n)) (encF (Ft n) n v)) (emapF (Ft n) n (fden op v)).
Proof. exact bkt_sound_upto_40. Qed.
Print Assumptions C05_bkt_sound_upto_40.
