(* C05 - Bravyi-Kitaev family transforms are valid encodings equivalent to JW. *)
From Coq Require Import ZArith NArith List Bool.
From OFV Require Import Base.Cplx Model.QubitOp Model.BravyiKitaev Check.Encoding Thm.C05.BKB Thm.C05.Sets.
Import ListNotations.

(* [B] every n_qubits <= 7: the modelled ladder images are the Fock ladder operators transported by a
   signed permutation W of the occupation basis with W|0..0> = |0..0>; number operators diagonal *)
Theorem C05_bk_encoding_valid_upto_7 : forallb (encoding_valid bk_ladder) (seq 1 7) = true.
Proof. exact bk_encoding_valid_upto_7. Qed.
Print Assumptions C05_bk_encoding_valid_upto_7.
Theorem C05_bk_tree_encoding_valid_upto_7 : forallb (encoding_valid bkt_ladder) (seq 1 7) = true.
Proof. exact bk_tree_encoding_valid_upto_7. Qed.
Print Assumptions C05_bk_tree_encoding_valid_upto_7.
(* [B] every n_qubits <= 128, every mode: the bit-trick sets are the Fenwick update / parity /
   occupation sets of the storage scheme F(j) = [j+1-lowbit(j+1), j] *)
Theorem C05_bk_sets_fenwick_upto_128 : forallb sets_ok_n (seq 1 128) = true.
Proof. exact bk_sets_fenwick_upto_128. Qed.
Print Assumptions C05_bk_sets_fenwick_upto_128.
