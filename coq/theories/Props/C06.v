(* C06 - matrices: the specification MatrixOf is defined from the semantics; obligations here are the
   semantic facts the checkers rely on. *)
From Coq Require Import NArith List Bool.
From OFV Require Import Base.Cplx Base.Lin Sem.PauliSem Model.QubitOp Thm.C01.QubitHom Model.LinearOp Thm.C06.LinearOpSound Thm.C06.LinearOpFull.
Import ListNotations.
(* products of operators denote composition (hence MatrixOf (a b) = MatrixOf a . MatrixOf b) *)
Theorem C06_denotation_multiplicative : forall a b s, leq N.eqb (qden (qmul a b) s) (lbind (qden b s) (qden a)).
Proof. exact qmul_hom. Qed.
Print Assumptions C06_denotation_multiplicative.

(* LinearQubitOperator._matvec (model Model/LinearOp.v, tied to the code by correspondence): the list-of-pieces algorithm equals the
   application of every factor to the whole vector, for every number of qubits, every canonical term and every vector *)
Theorem C06_linear_operator_term_is_tree_action : forall n w c t, perfect n t -> increasing_from 0 n w ->
  lqo_term w c t = map (Cmul c) (flatten (fold_left tree_step w t)).
Proof. exact lqo_term_tree. Qed.
Print Assumptions C06_linear_operator_term_is_tree_action.
(* ... and that is the column of the Pauli semantics: the basis state with qubit values k (amplitude number idx k, big-endian) is
   sent to the amplitude of mask' with coefficient c * phase, where (phase, mask') = apply_word w (mask of k) *)
Theorem C06_linear_operator_term_correct : forall n w c t k, perfect n t -> increasing_from 0 n w -> length k = n ->
  exists k', length k' = n /\
    apply_word w (mask_of_path k) = (fst (apply_word w (mask_of_path k)), mask_of_path k') /\
    nth (idx k') (lqo_term w c t) C0 = Cmul c (Cmul (fst (apply_word w (mask_of_path k))) (nth (idx k) (flatten t) C0)).
Proof. exact lqo_term_correct. Qed.
Print Assumptions C06_linear_operator_term_correct.
(* the returned vector is the entrywise sum over the terms *)
Theorem C06_linear_operator_is_sum_of_terms : forall n op x i, canonical_op n op ->
  nth i (lqo n op x) C0 = fold_left (fun acc tc => Cadd acc (nth i (lqo_term (fst tc) (snd tc) (tree_of n x)) C0)) op C0.
Proof. exact lqo_is_sum_of_terms. Qed.
Print Assumptions C06_linear_operator_is_sum_of_terms.

(* ... and for whole operators: amplitude number idx r (big-endian) of the returned vector is the coefficient of the basis state r in
   op (vector), the vector read as the formal sum vlin of its amplitudes - every n, every canonical operator, every vector *)
Theorem C06_linear_operator_semantics : forall n op x r, canonical_op n op -> length r = n ->
  nth (idx r) (lqo n op x) C0 = coeff N.eqb (mask_of_path r) (lbind (vlin (tree_of n x)) (qden op)).
Proof. exact lqo_semantics. Qed.
Print Assumptions C06_linear_operator_semantics.
Theorem C06_vector_amplitudes : forall n x k, length x = Nat.pow 2 n -> length k = n ->
  coeff N.eqb (mask_of_path k) (vlin (tree_of n x)) = nth (idx k) x C0.
Proof. intros n x k Hx Hk. rewrite (coeff_vlin n _ k (tree_of_perfect n x) Hk). apply tree_of_amplitudes; assumption. Qed.
Print Assumptions C06_vector_amplitudes.
