(* C06 - matrices: the specification MatrixOf is defined from the semantics; obligations here are the
   semantic facts the checkers rely on. *)
From Coq Require Import NArith List Bool.
From OFV Require Import Base.Cplx Base.Lin Sem.PauliSem Model.QubitOp Thm.C01.QubitHom.
Import ListNotations.
(* products of operators denote composition (hence MatrixOf (a b) = MatrixOf a . MatrixOf b) *)
Theorem C06_denotation_multiplicative : forall a b s, leq N.eqb (qden (qmul a b) s) (lbind (qden b s) (qden a)).
Proof. exact qmul_hom. Qed.
Print Assumptions C06_denotation_multiplicative.
