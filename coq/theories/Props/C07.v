(* C07 - conjugation, commutators and their shortcuts equal the definitions. *)
From Coq Require Import NArith List Bool.
From OFV Require Import Base.Cplx Base.Lin Sem.PauliSem Sem.FermiSem Model.SymbolicOp Model.QubitOp Model.LadderOp
  Model.Conjugate Thm.C01.QubitHom Thm.C07.Adjoint Check.OpEquiv Check.Commutator.
Import ListNotations.

(* <s'| hc(A) |s> = conj <s| A |s'> for every fermionic operator, all modes, all basis states *)
Theorem C07_hc_is_adjoint : forall op s s',
  coeff N.eqb s' (fden (hc_map op) s) = Cconj (coeff N.eqb s (fden op s')).
Proof. exact hc_map_adjoint. Qed.
Print Assumptions C07_hc_is_adjoint.
Theorem C07_hc_involutive : forall t, hc_word (hc_word t) = t.
Proof. exact hc_word_involutive. Qed.
Theorem C07_hc_antimultiplicative : forall a b, hc_word (a ++ b) = hc_word b ++ hc_word a.
Proof. exact hc_word_app. Qed.
Print Assumptions C07_hc_antimultiplicative.

(* the commutator checkers decide exactly AB - BA (resp. [A,[B,C]]) of the denoted operators *)
Theorem C07_commutator_checker_sound : forall a b r, fcomm_check a b r = true ->
  forall s, leq N.eqb (fden r s) (lcomm (fden a) (fden b) s).
Proof. exact fcomm_check_sound. Qed.
Print Assumptions C07_commutator_checker_sound.
Theorem C07_double_commutator_checker_sound : forall a b c r, fdcomm_check a b c r = true ->
  forall s, leq N.eqb (fden r s) (lcomm (fden a) (lcomm (fden b) (fden c)) s).
Proof. exact fdcomm_check_sound. Qed.
Print Assumptions C07_double_commutator_checker_sound.
Theorem C07_commutator_zero_sound : forall a b, fcomm_zero a b = true -> forall s, leq N.eqb (lcomm (fden a) (fden b) s) [].
Proof. exact fcomm_zero_sound. Qed.
Theorem C07_qubit_commutator_checker_sound : forall a b r, qcomm_check a b r = true ->
  forall s, leq N.eqb (qden r s) (lcomm (qden a) (qden b) s).
Proof. exact qcomm_check_sound. Qed.
Print Assumptions C07_qubit_commutator_checker_sound.
