(* C08 - conversions: the verified equivalence checkers every conversion is judged with. *)
From Coq Require Import NArith List Bool.
From OFV Require Import Base.Cplx Base.Lin Sem.PauliSem Sem.FermiSem Model.QubitOp Model.LadderOp Check.OpEquiv Thm.C01.QubitHom.
Import ListNotations.
Theorem C08_fermi_equiv_sound : forall f g, fermi_equiv f g = true -> forall s, leq N.eqb (fden f s) (fden g s).
Proof. exact fermi_equiv_sound. Qed.
Print Assumptions C08_fermi_equiv_sound.
Theorem C08_fermi_pauli_equiv_sound : forall f q, fermi_pauli_equiv f q = true -> forall s, leq N.eqb (fden f s) (qden q s).
Proof. exact fermi_pauli_equiv_sound. Qed.
Print Assumptions C08_fermi_pauli_equiv_sound.
