(* C09 - BinaryPolynomial arithmetic agrees with evaluation over GF(2): specification-level theorems. *)
From Coq Require Import NArith Arith List Bool.
From OFV Require Import Model.BinaryPoly Thm.C09.EvalHom.
Import ListNotations.
Theorem C09_eval_add : forall a p q, beval a (badd p q) = xorb (beval a p) (beval a q).
Proof. exact beval_add. Qed.
Theorem C09_eval_mul : forall a p q, beval a (bmul p q) = beval a p && beval a q.
Proof. exact beval_mul. Qed.
Print Assumptions C09_eval_mul.
Theorem C09_eval_pow : forall a p n, beval a (bpow p (S n)) = beval a p.
Proof. exact beval_pow. Qed.
Theorem C09_eval_shift : forall a p c, beval a (bshift p c) = beval (N.shiftr a (N.of_nat c)) p.
Proof. exact beval_shift. Qed.
Print Assumptions C09_eval_shift.
Theorem C09_canonical_form_sound : forall a p, beval a (bcanon p) = beval a p.
Proof. exact beval_bcanon. Qed.
Print Assumptions C09_canonical_form_sound.
