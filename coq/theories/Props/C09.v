(* C09 - BinaryPolynomial arithmetic agrees with evaluation over GF(2): specification-level theorems. *)
From Coq Require Import NArith Arith List Bool.
From OFV Require Import Model.BinaryPoly Thm.C09.EvalHom Thm.C09.ParityCode.
Import ListNotations.
Theorem C09_eval_add : forall a p q, beval a (badd p q) = xorb (beval a p) (beval a q).
Proof. exact beval_add. Qed.
Theorem C09_eval_mul : forall a p q, beval a (bmul p q) = beval a p && beval a q.
Proof. exact beval_mul. Qed.
Print Assumptions C09_eval_mul.
Theorem C09_eval_pow : forall a p n, beval a (bpow p (S n)) = beval a p.
Proof. exact beval_pow. Qed.
Theorem C09_eval_shift : forall a p c, beval a (bshift p c) = beval (N.shiftr a (N.of_nat c)) p.
Proof. exact beval_shift. Qed.
Print Assumptions C09_eval_shift.
Theorem C09_canonical_form_sound : forall a p, beval a (bcanon p) = beval a p.
Proof. exact beval_bcanon. Qed.
Print Assumptions C09_canonical_form_sound.

(* [F] EVERY number of modes: the parity code and the Jordan-Wigner code (models of their encoder rows and
   linear decoders, compared with the implementation for the tested sizes) decode what they encode *)
Theorem C09_parity_code_roundtrip : forall n v, (v < 2 ^ N.of_nat n)%N -> decode (parity_dec n) (encode (parity_rows n) v) = v.
Proof. exact parity_code_roundtrip. Qed.
Print Assumptions C09_parity_code_roundtrip.
Theorem C09_jw_code_roundtrip : forall n v, (v < 2 ^ N.of_nat n)%N -> decode (jw_dec n) (encode (jw_rows n) v) = v.
Proof. exact jw_code_roundtrip. Qed.
Print Assumptions C09_jw_code_roundtrip.
