(* C10 - sectors: number operators are diagonal with eigenvalue = occupation count (all modes/states). *)
From Coq Require Import NArith List Bool.
From OFV Require Import Base.Cplx Base.Lin Sem.PauliSem Sem.FermiSem Model.LadderOp Check.Sectors Thm.C10.NumberOp Thm.C10.NumberIndices.
Import ListNotations.
Theorem C10_number_mode_diagonal : forall j s,
  leq N.eqb (fapply_word [(j, true); (j, false)] s) (if bit s j then [(C1, s)] else []).
Proof. exact number_mode_diagonal. Qed.
Print Assumptions C10_number_mode_diagonal.
Theorem C10_number_operator_eigen : forall n s k,
  coeff N.eqb k (fden (number_op n) s) = Cmul (Cnat (occ_count s n)) (coeff N.eqb k [(C1, s)]).
Proof. exact number_op_eigen. Qed.
Print Assumptions C10_number_operator_eigen.

(* [F] jw_number_indices (model: index sums over itertools.combinations) for EVERY n_qubits and particle
   number lists each x < 2^n with k bits set exactly once *)
Theorem C10_number_indices_exact : forall n k,
  NoDup (number_indices n k) /\
  forall x, In x (number_indices n k) <-> ((x < 2 ^ N.of_nat n)%N /\ popc x = k).
Proof. exact number_indices_exact. Qed.
Print Assumptions C10_number_indices_exact.
