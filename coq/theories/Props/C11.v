(* C11 - Givens decompositions: structural theorems about the schedules (complete enumeration). *)
From Coq Require Import Arith List Bool.
From OFV Require Import Model.Givens Thm.C11.Schedules Thm.C11.SchedulesF.
Import ListNotations.
Theorem C11_square_schedule_ok_32 :
  forallb (fun n => layers_ok (2 * (n - 1) - 1) (pairs_of_square n) && square_covers n) (seq 1 32) = true.
Proof. exact square_schedule_ok_32. Qed.
Print Assumptions C11_square_schedule_ok_32.
Theorem C11_rect_schedule_ok_20 :
  forallb (fun n => forallb (fun m => layers_ok (n - 1) (pairs_of_rect m n) && (Nat.eqb m n || rect_covers m n)) (seq 1 n)) (seq 1 20) = true.
Proof. exact rect_schedule_ok_20. Qed.
Theorem C11_gauss_schedule_ok_32 : forallb (fun n => layers_ok (2 * n - 1) (pairs_of_gauss n)) (seq 1 32) = true.
Proof. exact gauss_schedule_ok_32. Qed.
Print Assumptions C11_gauss_schedule_ok_32.

(* [F] EVERY size: rotations act on adjacent columns, the rotations of one layer act on pairwise disjoint
   column pairs, and the number of layers is the documented depth (2(n-1)-1, n-1, 2n-1) *)
Theorem C11_square_layers_ok : forall n, 1 <= n -> layers_ok (2 * (n - 1) - 1) (pairs_of_square n) = true.
Proof. exact square_layers_ok. Qed.
Print Assumptions C11_square_layers_ok.
Theorem C11_rect_layers_ok : forall m n, 1 <= m -> m <= n -> layers_ok (n - 1) (pairs_of_rect m n) = true.
Proof. exact rect_layers_ok. Qed.
Print Assumptions C11_rect_layers_ok.
Theorem C11_gauss_layers_ok : forall n, layers_ok (2 * n - 1) (pairs_of_gauss n) = true.
Proof. exact gauss_layers_ok. Qed.
Print Assumptions C11_gauss_layers_ok.
