(* C11 - Givens decompositions: structural theorems about the schedules (complete enumeration). *)
From Coq Require Import Arith List Bool.
From OFV Require Import Model.Givens Thm.C11.Schedules.
Import ListNotations.
Theorem C11_square_schedule_ok_32 :
  forallb (fun n => layers_ok (2 * (n - 1) - 1) (pairs_of_square n) && square_covers n) (seq 1 32) = true.
Proof. exact square_schedule_ok_32. Qed.
Print Assumptions C11_square_schedule_ok_32.
Theorem C11_rect_schedule_ok_20 :
  forallb (fun n => forallb (fun m => layers_ok (n - 1) (pairs_of_rect m n) && (Nat.eqb m n || rect_covers m n)) (seq 1 n)) (seq 1 20) = true.
Proof. exact rect_schedule_ok_20. Qed.
Theorem C11_gauss_schedule_ok_32 : forallb (fun n => layers_ok (2 * n - 1) (pairs_of_gauss n)) (seq 1 32) = true.
Proof. exact gauss_schedule_ok_32. Qed.
Print Assumptions C11_gauss_schedule_ok_32.
