(* C12 - quadratic Hamiltonians: the algebra used by the checkers (product homomorphism, adjoint). *)
From Coq Require Import NArith List Bool.
From OFV Require Import Base.Cplx Base.Lin Sem.FermiSem Model.LadderOp Model.Conjugate Thm.C01.FermiHom Thm.C07.Adjoint Check.OpEquiv.
Import ListNotations.
Theorem C12_fermion_product_hom : forall a b s, leq N.eqb (fden (fmul a b) s) (lbind (fden b s) (fden a)).
Proof. exact fmul_hom. Qed.
Print Assumptions C12_fermion_product_hom.
Theorem C12_hc_is_adjoint : forall op s s', coeff N.eqb s' (fden (hc_map op) s) = Cconj (coeff N.eqb s (fden op s')).
Proof. exact hc_map_adjoint. Qed.
Print Assumptions C12_hc_is_adjoint.
