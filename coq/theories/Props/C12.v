(* C12 - quadratic Hamiltonians: the algebra used by the checkers (product homomorphism, adjoint). *)
From Coq Require Import NArith List Bool.
From OFV Require Import Base.Cplx Base.Lin Sem.FermiSem Model.LadderOp Model.Conjugate Thm.C01.FermiHom Thm.C07.Adjoint Check.OpEquiv Thm.C12.DiagSpectrum.
Import ListNotations.
Theorem C12_fermion_product_hom : forall a b s, leq N.eqb (fden (fmul a b) s) (lbind (fden b s) (fden a)).
Proof. exact fmul_hom. Qed.
Print Assumptions C12_fermion_product_hom.
Theorem C12_hc_is_adjoint : forall op s s', coeff N.eqb s' (fden (hc_map op) s) = Cconj (coeff N.eqb s (fden op s')).
Proof. exact hc_map_adjoint. Qed.
Print Assumptions C12_hc_is_adjoint.

(* [F] every list of orbital energies, every constant, every Fock state: the diagonal form
   sum_k eps_k a+_k a_k + c has |s> as eigenvector with eigenvalue c + (sum of eps_k over the modes occupied
   in s) - the many-body spectrum is the set of subset sums *)
Theorem C12_diagonal_form_spectrum : forall eps c s k,
  coeff N.eqb k (fden (diag_ham eps c) s) = Cmul (Cadd c (subset_sum eps s 0)) (coeff N.eqb k [(C1, s)]).
Proof. exact diag_ham_eigen. Qed.
Print Assumptions C12_diagonal_form_spectrum.
