(* C13 - model Hamiltonian generators. *)
From Coq Require Import Arith List Bool.
From OFV Require Import Model.Hubbard Thm.C13.Bonds.
Import ListNotations.
(* [B] every lattice x, y <= 12, both boundary conditions: the neighbour enumeration of hubbard.py
   (with its length-2 periodic de-duplication) is exactly the edge set of the grid / torus graph
   defined on coordinates, each edge once, no self loops *)
Theorem C13_hubbard_bonds_exact_12 : forallb (fun x => forallb (fun y => bonds_ok x y) (seq 1 12)) (seq 1 12) = true.
Proof. exact hubbard_bonds_exact_12. Qed.
Print Assumptions C13_hubbard_bonds_exact_12.
