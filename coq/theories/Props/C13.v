(* C13 - model Hamiltonian generators. *)
From Coq Require Import ZArith Arith List Bool.
From OFV Require Import Model.Hubbard Thm.C13.Bonds Thm.C13.BondsF Thm.C13.BondsG Gen.HubbardNeighbors Thm.C13.GenTie.
Import ListNotations.
(* [B] every lattice x, y <= 12, both boundary conditions: the neighbour enumeration of hubbard.py
   (with its length-2 periodic de-duplication) is exactly the edge set of the grid / torus graph
   defined on coordinates, each edge once, no self loops *)
Theorem C13_hubbard_bonds_exact_12 : forallb (fun x => forallb (fun y => bonds_ok x y) (seq 1 12)) (seq 1 12) = true.
Proof. exact hubbard_bonds_exact_12. Qed.
Print Assumptions C13_hubbard_bonds_exact_12.

(* [F] EVERY lattice size and both boundary conditions: the neighbour enumeration of hubbard.py is
   literally the coordinate edge list of the grid / torus ... *)
Theorem C13_bonds_are_lattice_edges : forall x y per, 1 <= x -> 1 <= y -> bonds x y per = spec_edges x y per.
Proof. exact bonds_are_lattice_edges. Qed.
Print Assumptions C13_bonds_are_lattice_edges.
(* ... and that list counts every bond once: no repetition, no edge in both orientations, no self loop
   (periodic dimensions of length 2 and 1 included) *)
Theorem C13_each_bond_once : forall x y per, 1 <= x -> 1 <= y ->
  NoDup (bonds x y per) /\ (forall a b, In (a, b) (bonds x y per) -> ~ In (b, a) (bonds x y per)).
Proof. exact each_bond_once. Qed.
Print Assumptions C13_each_bond_once.

(* tie by translation: _right_neighbor / _bottom_neighbor regenerated from the current source on every
   run (Python integers as Z) equal the model the theorems above are about, for ALL arguments *)
Theorem C13_gen_right_neighbor_is_model : forall s x y per, 1 <= x ->
  gen_right_neighbor (Z.of_nat s) (Z.of_nat x) (Z.of_nat y) per = option_map Z.of_nat (right_neighbor s x y per).
Proof. exact gen_right_neighbor_is_model. Qed.
Print Assumptions C13_gen_right_neighbor_is_model.
Theorem C13_gen_bottom_neighbor_is_model : forall s x y per, 1 <= y ->
  gen_bottom_neighbor (Z.of_nat s) (Z.of_nat x) (Z.of_nat y) per = option_map Z.of_nat (bottom_neighbor s x y per).
Proof. exact gen_bottom_neighbor_is_model. Qed.
Print Assumptions C13_gen_bottom_neighbor_is_model.
