(* C14 - swap network: pairs once, adjacent, reversal, for every n <= 40 and both offsets. *)
From Coq Require Import Arith List Bool.
From OFV Require Import Model.SwapNetwork Thm.C14.SwapNetworkB.
Import ListNotations.
Theorem C14_swap_network_ok_40 : forallb (fun n => swap_network_ok n false && swap_network_ok n true) (seq 0 41) = true.
Proof. exact swap_network_ok_40. Qed.
Print Assumptions C14_swap_network_ok_40.
