(* C14 - swap network: pairs once, adjacent, reversal: for EVERY n and both offsets ([F]), and re-checked
   by complete evaluation for n <= 40 ([B]). *)
From Coq Require Import Arith List Bool.
From OFV Require Import Model.SwapNetwork Thm.C14.SwapNetworkB Thm.C14.SwapNetworkF.
Import ListNotations.
Theorem C14_swap_network_ok_40 : forallb (fun n => swap_network_ok n false && swap_network_ok n true) (seq 0 41) = true.
Proof. exact swap_network_ok_40. Qed.
Print Assumptions C14_swap_network_ok_40.

(* [F] every number of modes, both offsets: the final order is the reversal, every callback acts on
   adjacent positions i, i+1 < n, and every unordered pair of distinct modes meets exactly once *)
Theorem C14_swap_network_correct : forall n offset,
  let '(final, ev) := swap_network n offset in
  final = rev (seq 0 n) /\
  (forall p q i, In (p, q, i) ev -> S i < n) /\
  (forall a b, a < n -> b < n -> a <> b -> pair_count a b ev = 1).
Proof. exact swap_network_correct. Qed.
Print Assumptions C14_swap_network_correct.
