(* C15 - Suzuki recursion bookkeeping, for every order, time and split factors. *)
From Coq Require Import QArith Qcanon Arith List Reals.
From OFV Require Import Thm.C15.Suzuki Thm.C15.SuzukiR.
Close Scope Qc_scope. Close Scope Q_scope.
Theorem C15_suzuki_times_sum : forall k split t, qsum (leaves k split t) = t.
Proof. exact suzuki_times_sum. Qed.
Print Assumptions C15_suzuki_times_sum.
Theorem C15_suzuki_leaf_count : forall k split t, length (leaves k split t) = 5 ^ k.
Proof. exact suzuki_leaf_count. Qed.
Print Assumptions C15_suzuki_leaf_count.

(* over the (axiomatised) real numbers of the standard library: the split factor 1/(4 - 4^(1/(2k-1))) used by
   _perform_trotter_step cancels the order-(2k-1) error term: 4 s^(2k-1) + (1 - 4 s)^(2k-1) = 0 *)
Theorem C15_suzuki_split_cancels : forall (m : nat) (c s : R),
  (c ^ (2 * m + 1) = 4 -> (4 - c) * s = 1 -> 4 * s ^ (2 * m + 1) + (1 - 4 * s) ^ (2 * m + 1) = 0)%R.
Proof. exact suzuki_split_cancels. Qed.
Print Assumptions C15_suzuki_split_cancels.
