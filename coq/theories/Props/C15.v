(* C15 - Suzuki recursion bookkeeping, for every order, time and split factors. *)
From Coq Require Import QArith Qcanon Arith List.
From OFV Require Import Thm.C15.Suzuki.
Close Scope Qc_scope. Close Scope Q_scope.
Theorem C15_suzuki_times_sum : forall k split t, qsum (leaves k split t) = t.
Proof. exact suzuki_times_sum. Qed.
Print Assumptions C15_suzuki_times_sum.
Theorem C15_suzuki_leaf_count : forall k split t, length (leaves k split t) = 5 ^ k.
Proof. exact suzuki_leaf_count. Qed.
Print Assumptions C15_suzuki_leaf_count.
