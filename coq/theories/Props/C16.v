(* C16 - reductions: soundness of the equivalence checker used for "agrees on the sector". *)
From Coq Require Import NArith List Bool.
From OFV Require Import Base.Cplx Base.Lin Sem.PauliSem Model.QubitOp Check.OpEquiv Thm.C01.QubitHom Check.Reductions Thm.C16.SectorSound.
Import ListNotations.
Theorem C16_pauli_equiv_sound : forall a b, pauli_equiv a b = true -> forall s, leq N.eqb (qden a s) (qden b s).
Proof. exact pauli_equiv_sound. Qed.
Print Assumptions C16_pauli_equiv_sound.
Theorem C16_product_denotes_composition : forall a b s, leq N.eqb (qden (qmul a b) s) (lbind (qden b s) (qden a)).
Proof. exact qmul_hom. Qed.
Print Assumptions C16_product_denotes_composition.

(* the verdict "agrees on the sector" of the reduction checker: if (H' - H) prod_i (1 + s_i)/2 = 0 then H' and H act identically on
   every vector stabilised by all s_i - any number of qubits, any superposition of basis states *)
Theorem C16_projector_fixes_sector : forall stabs v, in_sector stabs v -> leq N.eqb (qact (sector_projector stabs) v) v.
Proof. exact projector_fixes_sector. Qed.
Print Assumptions C16_projector_fixes_sector.
Theorem C16_agrees_on_sector_sound : forall H H' stabs, agrees_on_sector H H' stabs = true ->
  forall v, in_sector stabs v -> leq N.eqb (qact H' v) (qact H v).
Proof. exact agrees_on_sector_sound. Qed.
Print Assumptions C16_agrees_on_sector_sound.
