(* C16 - reductions: soundness of the equivalence checker used for "agrees on the sector". *)
From Coq Require Import NArith List Bool.
From OFV Require Import Base.Cplx Base.Lin Sem.PauliSem Model.QubitOp Check.OpEquiv Thm.C01.QubitHom.
Import ListNotations.
Theorem C16_pauli_equiv_sound : forall a b, pauli_equiv a b = true -> forall s, leq N.eqb (qden a s) (qden b s).
Proof. exact pauli_equiv_sound. Qed.
Print Assumptions C16_pauli_equiv_sound.
Theorem C16_product_denotes_composition : forall a b s, leq N.eqb (qden (qmul a b) s) (lbind (qden b s) (qden a)).
Proof. exact qmul_hom. Qed.
Print Assumptions C16_product_denotes_composition.
