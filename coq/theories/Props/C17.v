(* C17 - chemistry reductions: the verified checker and the product homomorphism used to rebuild (sum g a+a)^2. *)
From Coq Require Import NArith List Bool.
From OFV Require Import Base.Cplx Base.Lin Sem.FermiSem Model.LadderOp Thm.C01.FermiHom Check.OpEquiv Thm.C17.RDMIdentities.
Import ListNotations.
Theorem C17_fermion_product_hom : forall a b s, leq N.eqb (fden (fmul a b) s) (lbind (fden b s) (fden a)).
Proof. exact fmul_hom. Qed.
Print Assumptions C17_fermion_product_hom.
Theorem C17_fermi_equiv_sound : forall f g, fermi_equiv f g = true -> forall s, leq N.eqb (fden f s) (fden g s).
Proof. exact fermi_equiv_sound. Qed.
Print Assumptions C17_fermi_equiv_sound.

(* [B] the operator identities behind the RDM mapping functions hold for every index tuple over 4 modes
   (every coincidence pattern of four indices), as decided by the sound checker above *)
Theorem C17_rdm_two_hole_identity_4 : forallb two_hole_ok (idx4 4) = true.
Proof. exact rdm_two_hole_identity_4. Qed.
Print Assumptions C17_rdm_two_hole_identity_4.
Theorem C17_rdm_particle_hole_identity_4 : forallb particle_hole_ok (idx4 4) = true.
Proof. exact rdm_particle_hole_identity_4. Qed.
Theorem C17_rdm_one_hole_identity_4 : forallb one_hole_ok (idx2 4) = true.
Proof. exact rdm_one_hole_identity_4. Qed.
Theorem C17_rdm_contractions_4 :
  forallb (fun n => forallb (fun x => contr_particle_ok n x && contr_hole_ok n x && contr_ph_ok n x) (idx2 n)) (seq 1 4) = true.
Proof. exact rdm_contractions_4. Qed.
Print Assumptions C17_rdm_contractions_4.
