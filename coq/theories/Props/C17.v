(* C17 - chemistry reductions: the verified checker and the product homomorphism used to rebuild (sum g a+a)^2. *)
From Coq Require Import NArith List Bool.
From OFV Require Import Base.Cplx Base.Lin Sem.FermiSem Model.LadderOp Thm.C01.FermiHom Check.OpEquiv.
Import ListNotations.
Theorem C17_fermion_product_hom : forall a b s, leq N.eqb (fden (fmul a b) s) (lbind (fden b s) (fden a)).
Proof. exact fmul_hom. Qed.
Print Assumptions C17_fermion_product_hom.
Theorem C17_fermi_equiv_sound : forall f g, fermi_equiv f g = true -> forall s, leq N.eqb (fden f s) (fden g s).
Proof. exact fermi_equiv_sound. Qed.
Print Assumptions C17_fermi_equiv_sound.
