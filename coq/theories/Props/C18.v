(* C18 - measurement schedules: soundness of the checkers that decide the property on the
   implementation's complete output for every list length of the explored range. *)
From Coq Require Import Arith List Bool.
From OFV Require Import Check.Schedules.
Import ListNotations.

Theorem C18_pair_within_checker_sound : forall labels ps, pair_within_ok labels ps = true ->
  (forall p, In p ps -> sort_nat (pairing_labels p) = sort_nat labels) /\
  (forall a b, In (a, b) (pairs_of labels) -> exists p, In p ps /\ has_pair a b p = true).
Proof. exact pair_within_ok_sound. Qed.
Print Assumptions C18_pair_within_checker_sound.
Theorem C18_quadruple_cover_checker_sound : forall labels ps, pws_ok labels ps = true ->
  forall i j k l, In [i; j; k; l] (subsets_k 4 labels) ->
  exists p, In p ps /\ (has_split i j k l p || has_split i k j l p || has_split i l j k p) = true.
Proof. exact pws_ok_sound. Qed.
Print Assumptions C18_quadruple_cover_checker_sound.
Theorem C18_partition_checker_sound : forall labels k parts, partitions_ok labels k parts = true ->
  forall s, In s (subsets_k k labels) -> exists ps, In ps parts /\ splits s ps = true.
Proof. exact partitions_ok_sound. Qed.
Print Assumptions C18_partition_checker_sound.
