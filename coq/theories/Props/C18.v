(* C18 - measurement schedules: soundness of the checkers that decide the property on the
   implementation's complete output for every list length of the explored range. *)
From Coq Require Import Arith List Bool.
From Coq Require Import Permutation.
From OFV Require Import Base.Cplx Sem.PauliSem Model.QubitOp Model.Grouping Check.Schedules Thm.C18.Grouping Thm.C18.PairBetween.
Import ListNotations.

Theorem C18_pair_within_checker_sound : forall labels ps, pair_within_ok labels ps = true ->
  (forall p, In p ps -> sort_nat (pairing_labels p) = sort_nat labels) /\
  (forall a b, In (a, b) (pairs_of labels) -> exists p, In p ps /\ has_pair a b p = true).
Proof. exact pair_within_ok_sound. Qed.
Print Assumptions C18_pair_within_checker_sound.
Theorem C18_quadruple_cover_checker_sound : forall labels ps, pws_ok labels ps = true ->
  forall i j k l, In [i; j; k; l] (subsets_k 4 labels) ->
  exists p, In p ps /\ (has_split i j k l p || has_split i k j l p || has_split i l j k p) = true.
Proof. exact pws_ok_sound. Qed.
Print Assumptions C18_quadruple_cover_checker_sound.
Theorem C18_partition_checker_sound : forall labels k parts, partitions_ok labels k parts = true ->
  forall s, In s (subsets_k k labels) -> exists ps, In ps parts /\ splits s ps = true.
Proof. exact partitions_ok_sound. Qed.
Print Assumptions C18_partition_checker_sound.

(* [F] group_into_tensor_product_basis_sets: for every sequence of shuffles (every seed), and every
   operator whose words act on each qubit at most once, the groups partition the terms, the bases are
   pairwise distinct (no dictionary entry is overwritten), and every term is contained in its basis. *)
Theorem C18_grouping_is_partition : forall (choose : nat -> list gkey -> list gkey) terms,
  (forall i l x, In x (choose i l) <-> In x l) ->
  Forall (fun tc : pword * C => uniq (fst tc)) terms ->
  let gs := grouping choose terms in
  Permutation (members gs) terms /\ NoDup (keys gs) /\
  (forall k ms, In (k, ms) gs -> uniq k /\ forall tc, In tc ms -> sub (fst tc) k).
Proof. exact grouping_is_partition. Qed.
Print Assumptions C18_grouping_is_partition.

(* [F] pair_between (index model, start_offset 0), EVERY pair of fragment lengths: every cross pair exactly
   once over the whole schedule; inside one pairing no position is used twice *)
Theorem C18_pair_between_each_pair_once : forall a b i j, 1 <= a -> 1 <= b -> i < a -> j < b ->
  length (filter (peqb (i, j)) (concat (pb_all a b))) = 1.
Proof. exact pair_between_each_pair_once. Qed.
Print Assumptions C18_pair_between_each_pair_once.
Theorem C18_pair_between_pairing_disjoint : forall a b k, 1 <= a -> 1 <= b ->
  NoDup (map fst (pb_pairs a b k)) /\ NoDup (map snd (pb_pairs a b k)).
Proof. exact pair_between_pairing_disjoint. Qed.
Print Assumptions C18_pair_between_pairing_disjoint.
