(* C19 - LCU sampling tables and cost arithmetic are exact. *)
From Coq Require Import ZArith List Bool.
From OFV Require Import Model.LCU Thm.C19.Alias Thm.C19.AliasF.
Import ListNotations.
(* [B] complete enumeration: every weight list of length n <= 5 with sum n*t, t <= 5: the modelled
   two-pass alias construction terminates inside the list and returns an exact table *)
Theorem C19_alias_tables_exact_5_5 :
  forallb (fun n => forallb (fun t => all_ok n t) (seq 0 6)) (seq 1 5) = true.
Proof. exact alias_tables_exact_5_5. Qed.
Print Assumptions C19_alias_tables_exact_5_5.
Example C19_alias_example : roulette [5; 0; 1; 6]%Z = Some ([3; 0; 3; 3]%Z, [2; 0; 1; 0]%Z) /\ alias_ok [5; 0; 1; 6]%Z [3; 0; 3; 3]%Z [2; 0; 1; 0]%Z = true.
Proof. split; vm_compute; reflexivity. Qed.

(* [F] EVERY non-empty list of non-negative integer weights whose sum is n * t: the modelled two-pass
   construction never runs its donor pointer past the end (the result is Some), and the returned table is
   exact: 0 <= keep_i <= t, 0 <= alt_i < n, w_i = keep_i + sum_{j : alt_j = i} (t - keep_j) *)
Theorem C19_alias_table_exact : forall (w : list Z) (t : Z),
  w <> [] -> (forall x, In x w -> (0 <= x)%Z) -> fold_left Z.add w 0%Z = (Z.of_nat (length w) * t)%Z ->
  exists alt keep, roulette w = Some (alt, keep) /\ alias_ok w alt keep = true.
Proof. exact roulette_exact. Qed.
Print Assumptions C19_alias_table_exact.
