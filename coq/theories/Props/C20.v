(* C20 - save/load state machine: no overwrite, load returns what save stored, for all histories. *)
From Coq Require Import NArith List Bool String.
From OFV Require Import Base.Cplx Model.SymbolicOp Model.FileStore Thm.C20.Store.
Import ListNotations.
Theorem C20_no_overwrite : forall d k op name text c,
  name <> ""%string -> dlookup d (file_path name) = Some c -> save d k op name false text = (d, RErrExists).
Proof. exact save_no_overwrite. Qed.
Print Assumptions C20_no_overwrite.
Theorem C20_load_after_save : forall d k op name ow text d',
  save d k op name ow text = (d', ROk) ->
  load d' name text = (Some (k, iadd gfeqb small_tol [] (stored text op)), ROk).
Proof. exact load_after_save. Qed.
Print Assumptions C20_load_after_save.
Theorem C20_history_no_overwrite : forall os d p c,
  dlookup d p = Some c -> forallb (fun o => negb (touches p o)) os = true -> dlookup (fst (frun d os)) p = Some c.
Proof. exact history_no_overwrite. Qed.
Print Assumptions C20_history_no_overwrite.
