(* Bargmann-Fock semantics of bosonic ladder and quadrature operators: the state space is the
   polynomial ring, basis x^k with k a vector of exponents (a list of N of fixed length);
     b+_j x^k = x^(k+e_j),   b_j x^k = k_j x^(k-e_j)          ([b_i, b+_j] = delta_ij)
     q_j = multiplication by x_j,   p_j = -i hbar d/dx_j        ([q_i, p_j] = i hbar delta_ij)
   These are faithful representations of the CCR / Weyl algebras (characteristic 0). *)
From Coq Require Import NArith ZArith List Bool.
From OFV Require Import Base.Cplx Base.Lin Model.LadderOp.
Import ListNotations.

Definition bstate := list N.
Fixpoint bs_eqb (a b : bstate) : bool :=
  match a, b with
  | [], [] => true
  | x :: a', y :: b' => N.eqb x y && bs_eqb a' b'
  | _, _ => false
  end.
Lemma bs_eqb_spec a b : reflect (a = b) (bs_eqb a b).
Proof.
  revert b; induction a as [|x a IH]; intros [|y b]; simpl; try (constructor; congruence).
  destruct (N.eqb_spec x y) as [->|NE]; simpl; [|constructor; congruence].
  destruct (IH b) as [->|N2]; constructor; congruence.
Qed.

Definition vget (k : bstate) (j : nat) : N := nth j k 0%N.
Fixpoint vset (k : bstate) (j : nat) (v : N) : bstate :=
  match k, j with
  | [], _ => []
  | _ :: k', O => v :: k'
  | x :: k', S j' => x :: vset k' j' v
  end.
Definition CofN (n : N) : C := CofZ (Z.of_N n).

(* factor (j, true) = raising b+_j, (j, false) = lowering b_j *)
Definition bapply1 (f : lfactor) (k : bstate) : lin bstate :=
  let j := N.to_nat (fst f) in
  if snd f then [(C1, vset k j (vget k j + 1))]
  else if N.eqb (vget k j) 0 then [] else [(CofN (vget k j), vset k j (vget k j - 1))].
(* quadrature factor (j, false) = q_j, (j, true) = p_j *)
Definition qapply1 (hbar : C) (f : lfactor) (k : bstate) : lin bstate :=
  let j := N.to_nat (fst f) in
  if snd f then
    if N.eqb (vget k j) 0 then [] else [(Cmul (Cmul (Copp Ci) hbar) (CofN (vget k j)), vset k j (vget k j - 1))]
  else [(C1, vset k j (vget k j + 1))].

Section Word.
Variable ap1 : lfactor -> bstate -> lin bstate.
Fixpoint bapply_word (t : lword) (k : bstate) : lin bstate :=
  match t with
  | [] => [(C1, k)]
  | f :: t' => lbind (bapply_word t' k) (ap1 f)
  end.
Definition bden (op : lop) (k : bstate) : lin bstate :=
  flat_map (fun tc => lscale (snd tc) (bapply_word (fst tc) k)) op.
End Word.

(* all exponent vectors of length m with entries <= d *)
Fixpoint grid (m : nat) (d : N) : list bstate :=
  match m with
  | O => [[]]
  | S m' => flat_map (fun k => map (fun v => v :: k) (map N.of_nat (seq 0 (S (N.to_nat d))))) (grid m' d)
  end.
(* two operators act identically on every monomial of the grid *)
Definition bose_equiv_on (ap1 : lfactor -> bstate -> lin bstate) (m : nat) (d : N) (a b : lop) : bool :=
  forallb (fun k => lin_eqb bs_eqb (bden ap1 a k) (bden ap1 b k)) (grid m d).
