(* Fock-space semantics of fermionic ladder operators, independent of any qubit encoding.
   A basis state is an occupation mask (bit j = occupation of mode j).
     a_j  |v> = 0 if v_j = 0, else (-1)^{sum_{k<j} v_k} |v - e_j>
     a+_j |v> = 0 if v_j = 1, else (-1)^{sum_{k<j} v_k} |v + e_j>            *)
From Coq Require Import NArith List Bool.
From OFV Require Import Base.Cplx Base.Lin Sem.PauliSem Model.LadderOp.
Import ListNotations.

(* parity of the occupations below mode j *)
Fixpoint par (s : N) (j : nat) : bool :=
  match j with O => false | S j' => xorb (bit s (N.of_nat j')) (par s j') end.

Definition fapply1 (f : lfactor) (s : N) : lin N :=
  let j := fst f in
  if Bool.eqb (snd f) (bit s j) then []        (* create on occupied / annihilate on empty *)
  else [(sgn (par s (N.to_nat j)), flip s j)].

(* rightmost factor acts first *)
Fixpoint fapply_word (t : lword) (s : N) : lin N :=
  match t with
  | [] => [(C1, s)]
  | f :: t' => lbind (fapply_word t' s) (fapply1 f)
  end.

Definition fden (op : lop) (s : N) : lin N :=
  flat_map (fun tc => lscale (snd tc) (fapply_word (fst tc) s)) op.
