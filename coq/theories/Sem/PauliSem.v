(* Semantics of Pauli words on computational basis states.
   A basis state is an N used as a bit mask: bit j = value of qubit j.
   X_j flips bit j; Z_j multiplies by (-1)^{bit j}; Y_j = i X_j Z_j.  Nothing else. *)
From Coq Require Import QArith Qcanon NArith List Bool Ring.
Close Scope Qc_scope. Close Scope Q_scope.
From OFV Require Import Base.Cplx Base.Lin.
Import ListNotations.

Inductive pauli := PI | PX | PY | PZ.
Definition pauli_eqb (a b : pauli) : bool :=
  match a, b with PI, PI | PX, PX | PY, PY | PZ, PZ => true | _, _ => false end.
Lemma pauli_eqb_eq a b : pauli_eqb a b = true <-> a = b.
Proof. destruct a, b; simpl; split; intros; try reflexivity; try discriminate. Qed.

Definition pfactor := (N * pauli)%type.
Definition pword := list pfactor.

Definition bit (s j : N) : bool := N.testbit s j.
Definition flip (s j : N) : N := N.lxor s (N.pow 2 j).

Definition apply1 (f : pfactor) (s : N) : C * N :=
  let j := fst f in
  match snd f with
  | PI => (C1, s)
  | PX => (C1, flip s j)
  | PY => (Cmul Ci (sgn (bit s j)), flip s j)
  | PZ => (sgn (bit s j), s)
  end.

(* rightmost factor acts first *)
Fixpoint apply_word (t : pword) (s : N) : C * N :=
  match t with
  | [] => (C1, s)
  | f :: t' => let (c, s') := apply_word t' s in
               let (c2, s2) := apply1 f s' in (Cmul c2 c, s2)
  end.

Definition cscale (c : C) (x : C * N) : C * N := (Cmul c (fst x), snd x).

(* an operator = association list term -> coefficient, in dictionary insertion order *)
Definition pop := list (pword * C).
Definition nlin := lin N.
Definition apply_op (op : pop) (s : N) : nlin :=
  map (fun tc => cscale (snd tc) (apply_word (fst tc) s)) op.
Definition ncoeff := @coeff N N.eqb.
Definition nleq := @leq N N.eqb.

(* ---- bit lemmas ---- *)
Lemma bit_flip_same s j : bit (flip s j) j = negb (bit s j).
Proof. unfold bit, flip. rewrite N.lxor_spec, N.pow2_bits_true. destruct (N.testbit s j); reflexivity. Qed.
Lemma bit_flip_other s j k : j <> k -> bit (flip s j) k = bit s k.
Proof. intros H. unfold bit, flip. rewrite N.lxor_spec, N.pow2_bits_false by assumption.
  destruct (N.testbit s k); reflexivity. Qed.
Lemma flip_comm s j k : flip (flip s j) k = flip (flip s k) j.
Proof. unfold flip. rewrite !N.lxor_assoc. f_equal. apply N.lxor_comm. Qed.
Lemma flip_flip s j : flip (flip s j) j = s.
Proof. unfold flip. rewrite N.lxor_assoc, N.lxor_nilpotent, N.lxor_0_r. reflexivity. Qed.

Lemma cscale_cscale a b x : cscale a (cscale b x) = cscale (Cmul a b) x.
Proof. unfold cscale; simpl; f_equal; ring. Qed.
Lemma cscale_1 x : cscale C1 x = x.
Proof. destruct x; unfold cscale; simpl; f_equal; ring. Qed.

(* composition of single-factor actions *)
Definition then1 (f : pfactor) (x : C * N) : C * N :=
  let (c2, s2) := apply1 f (snd x) in (Cmul c2 (fst x), s2).
Lemma apply_word_cons f t s : apply_word (f :: t) s = then1 f (apply_word t s).
Proof. simpl. unfold then1. destruct (apply_word t s). reflexivity. Qed.
Lemma then1_cscale f c x : then1 f (cscale c x) = cscale c (then1 f x).
Proof. unfold then1, cscale. simpl. destruct (apply1 f (snd x)). simpl. f_equal. ring. Qed.

Lemma apply_word_app t u s :
  apply_word (t ++ u) s = let (c, s') := apply_word u s in cscale c (apply_word t s').
Proof.
  induction t as [|f t IH]; simpl.
  - destruct (apply_word u s); unfold cscale; simpl; f_equal; ring.
  - rewrite IH. destruct (apply_word u s) as [c s']. destruct (apply_word t s') as [c1 s1]. simpl.
    destruct (apply1 f s1). unfold cscale; simpl. f_equal. ring.
Qed.

(* factors on different qubits commute *)
Lemma then1_comm f g x : fst f <> fst g -> then1 f (then1 g x) = then1 g (then1 f x).
Proof.
  destruct f as [j a], g as [k b], x as [c s]. simpl. intros H.
  assert (H' : k <> j) by congruence.
  unfold then1, apply1; simpl.
  destruct a, b; simpl; rewrite ?(bit_flip_other _ _ _ H), ?(bit_flip_other _ _ _ H'); 
    try (f_equal; try ring; apply flip_comm).
Qed.

(* the 16 products of single-qubit Paulis *)
Definition pauli_mul (a b : pauli) : nat * pauli :=   (* a.b = i^k . r *)
  match a, b with
  | PI, x => (0, x) | x, PI => (0, x)
  | PX, PX | PY, PY | PZ, PZ => (0, PI)
  | PX, PY => (1, PZ) | PY, PX => (3, PZ)
  | PY, PZ => (1, PX) | PZ, PY => (3, PX)
  | PZ, PX => (1, PY) | PX, PZ => (3, PY)
  end%nat.

Lemma sgn_negb b : sgn (negb b) = Cmul Cm1 (sgn b).
Proof. destruct b; simpl; [symmetry; apply Cm1_sq | ring]. Qed.

Lemma pauli_mul_sound j a b x :
  then1 (j, a) (then1 (j, b) x) = cscale (ipow (fst (pauli_mul a b))) (then1 (j, snd (pauli_mul a b)) x).
Proof.
  destruct x as [c s]. unfold then1, apply1, cscale; simpl.
  destruct a, b; simpl; rewrite ?bit_flip_same, ?flip_flip, ?sgn_negb; unfold ipow; simpl;
    destruct (bit s j); simpl; f_equal; destruct c as [cr ci]; apply Ceq_pair; unfold Cmul, Ci, Cm1, C1, Copp; simpl; ring.
Qed.
