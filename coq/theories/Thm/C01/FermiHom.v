(* Instantiation of the generic homomorphism theorems for FermionOperator (no term rewriting:
   _simplify is the identity because different indices do not commute). *)
From Coq Require Import NArith List Bool Ring.
From OFV Require Import Base.Cplx Base.Lin Sem.PauliSem Sem.FermiSem Model.SymbolicOp Model.LadderOp
  Thm.C01.SymHom Thm.C04.JWSound.
Import ListNotations.

Lemma lfeqb_spec a b : reflect (a = b) (lfeqb a b).
Proof.
  destruct a as [j x], b as [k y]. unfold lfeqb; simpl.
  destruct (N.eqb_spec j k) as [->|NE]; simpl; [|constructor; congruence].
  destruct x, y; simpl; constructor; congruence.
Qed.
Lemma fsimplify_sound t c s :
  leq N.eqb (lscale (fst (fsimplify t c)) (fapply_word (snd (fsimplify t c)) s)) (lscale c (fapply_word t s)).
Proof. apply leq_refl. Qed.
Lemma fden_aop op s : fden op s = aop lfactor fapply_word op s.
Proof. reflexivity. Qed.

Definition fmul := imul lfeqb fsimplify.
Theorem fmul_hom a b s : leq N.eqb (fden (fmul a b) s) (lbind (fden b s) (fden a)).
Proof. apply (mul_hom lfactor lfeqb lfeqb_spec fsimplify fapply_word fapply_word_app fsimplify_sound). Qed.
Theorem fadd_hom a b s : iadd_exact lfactor lfeqb small_tol a b = true ->
  leq N.eqb (fden (iadd lfeqb small_tol a b) s) (fden a s ++ fden b s).
Proof. apply (add_hom lfactor lfeqb lfeqb_spec small_tol fapply_word). Qed.
Theorem fsub_hom a b s : iadd_exact lfactor lfeqb small_tol a (negop lfactor b) = true ->
  leq N.eqb (fden (isub lfeqb small_tol a b) s) (fden a s ++ lscale Cm1 (fden b s)).
Proof. apply (sub_hom lfactor lfeqb lfeqb_spec small_tol fapply_word). Qed.
Theorem fscale_hom a c s : leq N.eqb (fden (iscale a c) s) (lscale c (fden a s)).
Proof. apply scale_hom. Qed.
Theorem fpow_hom a n s : leq N.eqb (fden (spow lfeqb fsimplify a n) s) (lpow (fden a) n s).
Proof.
  apply (pow_hom lfactor lfeqb lfeqb_spec fsimplify fapply_word fapply_word_app fsimplify_sound).
  intros x k. reflexivity.
Qed.
