(* Obligations re-proved on every run against tables regenerated from /repo's current source. *)
From Coq Require Import NArith ZArith List Bool String.
From OFV Require Import Base.Cplx Sem.PauliSem Model.SymbolicOp Model.QubitOp Gen.PauliTable Gen.ClassAttrs Gen.Constants.
Import ListNotations.

Definition all_pauli := [PI; PX; PY; PZ].
Fixpoint tlookup (t : list ((pauli * pauli) * (C * pauli))) (a b : pauli) : list (C * pauli) :=
  match t with
  | [] => []
  | ((a', b'), r) :: t' => (if pauli_eqb a a' && pauli_eqb b b' then [r] else []) ++ tlookup t' a b
  end.
Definition entry_ok (a b : pauli) : bool :=
  match tlookup gen_pauli_products a b with
  | [(c, r)] => Ceqb c (ipow (fst (pauli_mul a b))) && pauli_eqb r (snd (pauli_mul a b))
  | _ => false
  end.
(* the source table has exactly one entry per pair and it is the product computed by the model,
   whose soundness against the semantics is PauliSem.pauli_mul_sound *)
Theorem gen_pauli_table_is_model :
  forallb (fun a => forallb (fun b => entry_ok a b) all_pauli) all_pauli = true
  /\ List.length gen_pauli_products = 16%nat.
Proof. split; vm_compute; reflexivity. Qed.

Theorem gen_tolerance_is_model : gen_eq_tolerance = tolq.
Proof. vm_compute. reflexivity. Qed.

Open Scope string_scope.
Theorem gen_class_attrs_is_model :
  map (fun e => (fst e, fst (fst (fst (snd e))))) gen_class_attrs =
  [("QubitOperator", true); ("FermionOperator", false); ("BosonOperator", true);
   ("QuadOperator", true); ("IsingOperator", true)].
Proof. vm_compute. reflexivity. Qed.
