(* IsingOperator._simplify (indices of odd multiplicity, sorted, all Z) is sound and canonical. *)
From Coq Require Import NArith List Bool Ring Lia.
From OFV Require Import Base.Cplx Sem.PauliSem Model.SymbolicOp Model.QubitOp Thm.C01.QubitSimplify.
Import ListNotations.

Definition zpar (s : N) (l : list N) : bool := fold_right (fun j acc => xorb (bit s j) acc) false l.
Definition zword (l : list N) : pword := map (fun j => (j, PZ)) l.

Lemma apply_zword l s : apply_word (zword l) s = (sgn (zpar s l), s).
Proof.
  induction l as [|j l IH]; [reflexivity|].
  cbn [zword map apply_word]. fold (zword l). rewrite IH. unfold apply1. cbn [fst snd zpar fold_right].
  f_equal. rewrite sgn_mul. reflexivity.
Qed.

Lemma zpar_toggle s j l : zpar s (toggle j l) = xorb (bit s j) (zpar s l).
Proof.
  induction l as [|k l IH]; [reflexivity|].
  cbn [toggle]. destruct (N.ltb_spec k j).
  - cbn [zpar fold_right]. fold (zpar s (toggle j l)). fold (zpar s l). rewrite IH.
    destruct (bit s k), (bit s j), (zpar s l); reflexivity.
  - destruct (N.eqb_spec k j) as [->|NE].
    + cbn [zpar fold_right]. fold (zpar s l). destruct (bit s j), (zpar s l); reflexivity.
    + reflexivity.
Qed.

Definition all_Z (t : pword) : Prop := Forall (fun f => snd f = PZ) t.

Lemma zpar_odd_indices t s : all_Z t ->
  apply_word t s = (sgn (zpar s (fold_right (fun f acc => toggle (fst f) acc) [] t)), s).
Proof.
  intros H. induction H as [|f t Hf Ht IH]; [reflexivity|].
  cbn [apply_word fold_right]. rewrite IH, zpar_toggle. unfold apply1. rewrite Hf. cbn [fst snd].
  f_equal. rewrite sgn_mul. reflexivity.
Qed.

Theorem isimplify_sound t c s : all_Z t ->
  cscale (fst (isimplify t c)) (apply_word (snd (isimplify t c)) s) = cscale c (apply_word t s).
Proof.
  intros H. unfold isimplify. cbn [fst snd]. fold (zword (fold_right (fun f acc => toggle (fst f) acc) [] t)).
  rewrite apply_zword, (zpar_odd_indices t s H). reflexivity.
Qed.

(* strictly increasing index lists *)
Inductive sinc : N -> list N -> Prop :=
| sinc_nil j : sinc j []
| sinc_cons j k l : (j <= k)%N -> sinc (N.succ k) l -> sinc j (k :: l).
Lemma sinc_weaken j j' l : (j' <= j)%N -> sinc j l -> sinc j' l.
Proof. intros H Hs; destruct Hs; constructor; try assumption; lia. Qed.
Lemma toggle_sinc j : forall b l, sinc b l -> sinc (N.min b j) (toggle j l).
Proof.
  intros b l H. induction H as [b|b k l Hb Hs IH].
  - cbn. constructor; [lia|constructor].
  - cbn [toggle]. destruct (N.ltb_spec k j).
    + constructor; [lia|]. replace (N.succ k) with (N.min (N.succ k) j) by lia. exact IH.
    + destruct (N.eqb_spec k j) as [->|NE].
      * apply (sinc_weaken (N.succ j)); [lia|assumption].
      * constructor; [lia|]. constructor; [lia|assumption].
Qed.
Theorem isimplify_canonical t c : canonical (snd (isimplify t c)).
Proof.
  unfold isimplify, canonical. cbn [snd].
  assert (G : exists b, sinc b (fold_right (fun f acc => toggle (fst f) acc) [] t)).
  { induction t as [|f t [b IH]]; [exists 0%N; constructor|]. cbn [fold_right]. eexists. apply toggle_sinc. exact IH. }
  destruct G as [b G].
  assert (H : forall b l, sinc b l -> canon_from b (map (fun j => (j, PZ)) l)).
  { clear. intros b l Hs. induction Hs; cbn [map]; constructor; cbn [fst snd]; try assumption; discriminate. }
  apply (canon_from_weaken b); [lia|]. apply H. exact G.
Qed.
