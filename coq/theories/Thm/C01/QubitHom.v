(* Instantiation of the generic homomorphism theorems for QubitOperator. *)
From Coq Require Import NArith List Bool Ring Lia.
From OFV Require Import Base.Cplx Base.Lin Sem.PauliSem Model.SymbolicOp Model.QubitOp
  Thm.C01.QubitSimplify Thm.C01.SymHom.
Import ListNotations.

Definition pact (t : pword) (s : N) : lin N := [apply_word t s].
Definition qden (op : qop) (s : N) : lin N := aop pfactor pact op s.

Lemma pfeqb_spec a b : reflect (a = b) (pfeqb a b).
Proof.
  destruct a as [j x], b as [k y]. unfold pfeqb; simpl.
  destruct (N.eqb_spec j k) as [->|NE]; simpl; [|constructor; congruence].
  destruct (pauli_eqb x y) eqn:E; constructor.
  - apply pauli_eqb_eq in E; congruence.
  - intros H; inversion H; subst. destruct y; discriminate.
Qed.

Lemma pact_app a b s : leq N.eqb (pact (a ++ b) s) (lbind (pact b s) (pact a)).
Proof.
  intros k. unfold pact. rewrite apply_word_app. destruct (apply_word b s) as [c s']. simpl.
  reflexivity.
Qed.

Lemma pact_simplify t c s :
  leq N.eqb (lscale (fst (qsimplify t c)) (pact (snd (qsimplify t c)) s)) (lscale c (pact t s)).
Proof.
  intros k. pose proof (qsimplify_sound t c s) as H. unfold pact, lscale, cscale in *. cbn [map fst snd].
  destruct (apply_word (snd (qsimplify t c)) s) as [c0 n0], (apply_word t s) as [c1 n1]. cbn [fst snd] in *.
  pose proof (f_equal fst H) as H1. pose proof (f_equal snd H) as H2. cbn [fst snd] in H1, H2.
  subst n1. rewrite H1. reflexivity.
Qed.

Lemma pact_nil s : leq N.eqb (pact [] s) [(C1, s)].
Proof. intros k; reflexivity. Qed.

Theorem qmul_hom a b s : leq N.eqb (qden (qmul a b) s) (lbind (qden b s) (qden a)).
Proof. apply (mul_hom pfactor pfeqb pfeqb_spec qsimplify pact pact_app pact_simplify). Qed.

Theorem qscale_hom a c s : leq N.eqb (qden (iscale a c) s) (lscale c (qden a s)).
Proof. apply scale_hom. Qed.

Theorem qadd_hom a b s : iadd_exact pfactor pfeqb small_tol a b = true ->
  leq N.eqb (qden (qadd a b) s) (qden a s ++ qden b s).
Proof. apply (add_hom pfactor pfeqb pfeqb_spec small_tol pact). Qed.

Theorem qsub_hom a b s : iadd_exact pfactor pfeqb small_tol a (negop pfactor b) = true ->
  leq N.eqb (qden (qsub a b) s) (qden a s ++ lscale Cm1 (qden b s)).
Proof. apply (sub_hom pfactor pfeqb pfeqb_spec small_tol pact). Qed.

Theorem qpow_hom a n s : leq N.eqb (qden (qpow a n) s) (lpow (qden a) n s).
Proof. apply (pow_hom pfactor pfeqb pfeqb_spec qsimplify pact pact_app pact_simplify pact_nil). Qed.

(* every key produced by a product is canonical *)
Lemma dset_keys (d : qop) t c (P : pword -> Prop) :
  Forall (fun tc => P (fst tc)) d -> P t -> Forall (fun tc => P (fst tc)) (dset pfeqb d t c).
Proof.
  intros Hd Ht. induction d as [|[t' c'] d IH]; simpl; [repeat constructor; assumption|].
  inversion Hd; subst. destruct (teqb pfeqb t t'); constructor; auto.
Qed.
Lemma dacc_keys (d : qop) t c (P : pword -> Prop) :
  Forall (fun tc => P (fst tc)) d -> P t -> Forall (fun tc => P (fst tc)) (dacc pfeqb d t c).
Proof. intros; unfold dacc; destruct (dget pfeqb d t); apply dset_keys; assumption. Qed.

Theorem qmul_canonical a b : Forall (fun tc => canonical (fst tc)) (qmul a b).
Proof.
  unfold qmul, imul.
  assert (G : forall acc, Forall (fun tc => canonical (fst tc)) acc ->
     Forall (fun tc => canonical (fst tc))
       (fold_left (fun acc lt => fold_left (fun acc rt =>
          let (c, t) := qsimplify (fst lt ++ fst rt) (Cmul (snd lt) (snd rt)) in dacc pfeqb acc t c) b acc) a acc)).
  { induction a as [|lt a IH]; intros acc Hacc; simpl; [assumption|]. apply IH.
    clear IH. revert acc Hacc. induction b as [|rt b IHb]; intros acc Hacc; simpl; [assumption|].
    apply IHb. pose proof (qsimplify_canonical (fst lt ++ fst rt) (Cmul (snd lt) (snd rt))) as Hc.
    unfold term, sop, pword in *. destruct (qsimplify (fst lt ++ fst rt) (Cmul (snd lt) (snd rt))) as [c t]. simpl in Hc.
    apply dacc_keys; assumption. }
  apply G. constructor.
Qed.

Theorem qmk_canonical t c : Forall (fun tc => canonical (fst tc)) (qmk t c).
Proof.
  unfold qmk, mk1. pose proof (qsimplify_canonical t c) as H. destruct (qsimplify t c) as [c' t'].
  repeat constructor. exact H.
Qed.
