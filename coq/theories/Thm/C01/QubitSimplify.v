(* QubitOperator._simplify is sound (denotes coefficient * the input word) and canonical. *)
From Coq Require Import NArith List Bool Ring Lia Sorted.
From OFV Require Import Base.Cplx Base.Lin Sem.PauliSem Model.SymbolicOp Model.QubitOp.
Import ListNotations.

Lemma pinsert_sound f l s : apply_word (pinsert f l) s = apply_word (f :: l) s.
Proof.
  revert s; induction l as [|g l IH]; intros s; [reflexivity|].
  simpl pinsert. destruct (N.ltb_spec (fst g) (fst f)) as [Hlt|Hge]; [|reflexivity].
  rewrite apply_word_cons, IH, !apply_word_cons. apply then1_comm. lia.
Qed.

Lemma psort_sound t s : apply_word (psort t) s = apply_word t s.
Proof.
  induction t as [|f t IH]; [reflexivity|]. simpl psort.
  rewrite pinsert_sound, !apply_word_cons, IH. reflexivity.
Qed.

Lemma apply_emit f (x : C * N) : apply_word (emit f) (snd x) = then1 f (C1, snd x).
Proof. destruct f as [j a]; destruct a; reflexivity. Qed.

Lemma then1_as_scale f x : then1 f x = cscale (fst x) (then1 f (C1, snd x)).
Proof. destruct x as [c s]. unfold then1, cscale; simpl. destruct (apply1 f s); simpl. f_equal. ring. Qed.

Lemma pfold_sound rest : forall left s,
  apply_word (left :: rest) s = cscale (fst (pfold left rest)) (apply_word (snd (pfold left rest)) s).
Proof.
  induction rest as [|r rest IH]; intros left s.
  - simpl pfold. simpl fst; simpl snd. rewrite cscale_1.
    change s with (snd (C1, s)) at 2. rewrite apply_emit. reflexivity.
  - simpl pfold. destruct (N.eqb_spec (fst left) (fst r)) as [E|NE].
    + destruct (pauli_mul (snd left) (snd r)) as [k a] eqn:Epm.
      specialize (IH (fst left, a) s). destruct (pfold (fst left, a) rest) as [c t]. simpl fst in *; simpl snd in *.
      rewrite <- cscale_cscale, <- IH.
      rewrite !apply_word_cons. destruct left as [j x], r as [j' y]. simpl in E. subst j'.
      rewrite pauli_mul_sound. simpl in Epm. rewrite Epm. reflexivity.
    + specialize (IH r s). destruct (pfold r rest) as [c t]. simpl fst in *; simpl snd in *.
      rewrite apply_word_cons, IH. rewrite apply_word_app.
      destruct (apply_word t s) as [c1 s1] eqn:E1.
      change s1 with (snd (c1, s1)). rewrite apply_emit. simpl snd.
      rewrite then1_cscale, cscale_cscale. rewrite (then1_as_scale left (c1, s1)). simpl fst; simpl snd.
      rewrite cscale_cscale. f_equal; try ring.
Qed.

Theorem qsimplify_sound t c s :
  cscale (fst (qsimplify t c)) (apply_word (snd (qsimplify t c)) s) = cscale c (apply_word t s).
Proof.
  unfold qsimplify. rewrite <- (psort_sound t s).
  destruct (psort t) as [|l rest]; [reflexivity|].
  rewrite (pfold_sound rest l s). destruct (pfold l rest) as [ph t']. simpl fst; simpl snd.
  rewrite cscale_cscale. reflexivity.
Qed.

(* ---- canonical form ---- *)
Definition sorted_le (t : pword) := Sorted (fun a b => fst a <= fst b)%N t.
Definition lower_bounded (j : N) (t : pword) := Forall (fun f => j <= fst f)%N t.
(* strictly increasing indices, none below j, no identity factor *)
Inductive canon_from : N -> pword -> Prop :=
| cf_nil j : canon_from j []
| cf_cons j f t : (j <= fst f)%N -> snd f <> PI -> canon_from (N.succ (fst f)) t -> canon_from j (f :: t).
Definition canonical (t : pword) := canon_from 0 t.

Lemma canon_from_weaken j k t : (k <= j)%N -> canon_from j t -> canon_from k t.
Proof. intros H Hc; destruct Hc; constructor; try assumption; lia. Qed.

Lemma pinsert_sorted f l : sorted_le l -> sorted_le (pinsert f l).
Proof.
  intros H; induction H as [|g l Hs IH Hhd]; simpl.
  - repeat constructor.
  - destruct (N.ltb_spec (fst g) (fst f)) as [Hlt|Hge].
    + constructor; [assumption|]. destruct l as [|h l]; simpl.
      * constructor; lia.
      * destruct (N.ltb_spec (fst h) (fst f)); constructor; inversion Hhd; subst; lia.
    + constructor; [constructor; assumption|]. constructor; assumption.
Qed.
Lemma psort_sorted t : sorted_le (psort t).
Proof. induction t; simpl; [constructor|apply pinsert_sorted; assumption]. Qed.

Lemma emit_cases f : (snd f = PI /\ emit f = []) \/ (snd f <> PI /\ emit f = [f]).
Proof. destruct f as [j a]; destruct a; simpl; [left|right|right|right]; split; try reflexivity; discriminate. Qed.

Lemma sorted_le_tail_lb f t : sorted_le (f :: t) -> Forall (fun g => fst f <= fst g)%N t.
Proof.
  intros H. apply Sorted_StronglySorted in H.
  - inversion H; assumption.
  - intros a b c; lia.
Qed.

Lemma pfold_canonical rest : forall left,
  sorted_le (left :: rest) -> canon_from (fst left) (snd (pfold left rest)).
Proof.
  induction rest as [|r rest IH]; intros left Hs.
  - simpl. destruct (emit_cases left) as [[E ->]|[E ->]]; repeat constructor; try lia; assumption.
  - simpl pfold. inversion Hs as [|? ? Hs' Hhd]; subst. inversion Hhd as [|? ? Hle]; subst.
    destruct (N.eqb_spec (fst left) (fst r)) as [E|NE].
    + destruct (pauli_mul (snd left) (snd r)) as [k a].
      assert (Hs2 : sorted_le ((fst left, a) :: rest)).
      { inversion Hs' as [|? ? Hs'' Hh2]; subst. constructor; [assumption|].
        destruct rest; constructor. inversion Hh2; subst. simpl. lia. }
      specialize (IH (fst left, a) Hs2). destruct (pfold (fst left, a) rest) as [c t]. exact IH.
    + specialize (IH r Hs'). destruct (pfold r rest) as [c t]. simpl in *.
      assert (Hc : canon_from (N.succ (fst left)) t) by (apply (canon_from_weaken (fst r)); [lia|assumption]).
      destruct (emit_cases left) as [[E ->]|[E ->]]; simpl.
      * apply (canon_from_weaken (N.succ (fst left))); [lia|assumption].
      * constructor; [lia|assumption|assumption].
Qed.

Theorem qsimplify_canonical t c : canonical (snd (qsimplify t c)).
Proof.
  unfold qsimplify, canonical. pose proof (psort_sorted t) as Hs.
  destruct (psort t) as [|l rest]; [constructor|].
  pose proof (pfold_canonical rest l Hs) as H. destruct (pfold l rest) as [ph t']. simpl in *.
  apply (canon_from_weaken (fst l)); [lia|assumption].
Qed.

(* a canonical term is a fixed point of _simplify *)
Lemma pinsert_lb f l : Forall (fun g => fst f <= fst g)%N l -> pinsert f l = f :: l.
Proof. intros H; destruct l as [|g l]; [reflexivity|]. simpl. inversion H; subst.
  destruct (N.ltb_spec (fst g) (fst f)); [lia|reflexivity]. Qed.
Lemma canon_from_lb j t : canon_from j t -> Forall (fun g => j <= fst g)%N t.
Proof. intros H; induction H; constructor; [assumption|].
  eapply Forall_impl; [|eassumption]. intros a Ha; simpl in Ha; lia. Qed.
Lemma psort_canon j t : canon_from j t -> psort t = t.
Proof.
  intros H; induction H as [|j f t Hj Hn Hc IH]; [reflexivity|]. simpl. rewrite IH.
  apply pinsert_lb. apply canon_from_lb in Hc. eapply Forall_impl; [|eassumption]. intros a Ha; simpl in Ha; lia.
Qed.
Lemma pfold_canon j f t : canon_from j (f :: t) -> pfold f t = (C1, f :: t).
Proof.
  revert j f; induction t as [|g t IH]; intros j f H; inversion H as [|? ? ? Hj Hn Hc]; subst.
  - simpl. destruct (emit_cases f) as [[E _]|[_ ->]]; [contradiction|reflexivity].
  - simpl. inversion Hc as [|? ? ? Hj2 Hn2 Hc2]; subst.
    destruct (N.eqb_spec (fst f) (fst g)); [lia|].
    rewrite (IH _ _ Hc). destruct (emit_cases f) as [[E _]|[_ ->]]; [contradiction|reflexivity].
Qed.
Theorem qsimplify_fixed t c : canonical t -> qsimplify t c = (Cmul c C1, t) \/ (t = [] /\ qsimplify t c = (c, [])).
Proof.
  intros H. unfold qsimplify. rewrite (psort_canon 0 t H). destruct t as [|f t]; [right; split; reflexivity|].
  left. rewrite (pfold_canon 0 f t H). reflexivity.
Qed.
