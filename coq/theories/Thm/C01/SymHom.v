(* Generic homomorphism theorems for the SymbolicOperator arithmetic model:
   given any word semantics `act` that is multiplicative on concatenation and any `_simplify`
   that is sound for it, the model's *, +, -, scalar *, neg, ** denote the corresponding
   operations on the denoted linear maps (formal sums over basis states). *)
From Coq Require Import NArith List Bool Ring Lia.
From OFV Require Import Base.Cplx Base.Lin Model.SymbolicOp.
Import ListNotations.

Section SymHom.
Variable F : Type.
Variable feqb : F -> F -> bool.
Hypothesis feqb_spec : forall a b, reflect (a = b) (feqb a b).
Variable simplify : term F -> C -> C * term F.
Variable small : C -> bool.
Variable act : term F -> N -> lin N.

Notation nleq := (@leq N N.eqb).
Notation ncoeff := (@coeff N N.eqb).

Hypothesis act_app : forall a b s, nleq (act (a ++ b) s) (lbind (act b s) (act a)).
Hypothesis simplify_sound : forall t c s,
  nleq (lscale (fst (simplify t c)) (act (snd (simplify t c)) s)) (lscale c (act t s)).

Definition aop (op : sop F) (s : N) : lin N :=
  flat_map (fun tc => lscale (snd tc) (act (fst tc) s)) op.

Lemma Neqb_spec : forall a b : N, reflect (a = b) (N.eqb a b).
Proof. intros; apply N.eqb_spec. Qed.

Lemma teqb_spec a b : reflect (a = b) (teqb feqb a b).
Proof.
  revert b; induction a as [|x a IH]; intros [|y b]; simpl; try (constructor; congruence).
  destruct (feqb_spec x y) as [->|N1]; simpl; [|constructor; congruence].
  destruct (IH b) as [->|N2]; constructor; congruence.
Qed.

Definition dgetd (d : sop F) (t : term F) : C := match dget feqb d t with Some c => c | None => C0 end.

Lemma aop_app a b s : aop (a ++ b) s = aop a s ++ aop b s.
Proof. apply flat_map_app. Qed.

Lemma coeff_aop_dset k d t v s :
  ncoeff k (aop (dset feqb d t v) s) =
  Cadd (ncoeff k (aop d s)) (Cmul (Csub v (dgetd d t)) (ncoeff k (act t s))).
Proof.
  unfold dgetd. induction d as [|[t' c'] d IH]; simpl.
  - rewrite app_nil_r, coeff_scale. ring.
  - destruct (teqb_spec t t') as [->|NE]; simpl.
    + rewrite !coeff_app, !coeff_scale. ring.
    + rewrite !coeff_app, IH. ring.
Qed.

Lemma coeff_aop_ddel k d t s :
  ncoeff k (aop (ddel feqb d t) s) =
  Csub (ncoeff k (aop d s)) (Cmul (dgetd d t) (ncoeff k (act t s))).
Proof.
  unfold dgetd. induction d as [|[t' c'] d IH]; simpl.
  - ring.
  - destruct (teqb_spec t t') as [->|NE]; simpl.
    + rewrite !coeff_app, !coeff_scale. ring.
    + rewrite !coeff_app, IH. ring.
Qed.

Lemma coeff_aop_dacc k d t c s :
  ncoeff k (aop (dacc feqb d t c) s) = Cadd (ncoeff k (aop d s)) (Cmul c (ncoeff k (act t s))).
Proof.
  unfold dacc. destruct (dget feqb d t) as [c0|] eqn:E; rewrite coeff_aop_dset; unfold dgetd; rewrite E; ring.
Qed.

(* ---------- multiplication ---------- *)
Definition mul_inner (lt : term F * C) (acc : sop F) (b : sop F) : sop F :=
  fold_left (fun acc rt =>
      let (c, t) := simplify (fst lt ++ fst rt) (Cmul (snd lt) (snd rt)) in dacc feqb acc t c) b acc.

Lemma mul_inner_sound k lt b : forall acc s,
  ncoeff k (aop (mul_inner lt acc b) s) =
  Cadd (ncoeff k (aop acc s)) (ncoeff k (lbind (aop b s) (fun s' => lscale (snd lt) (act (fst lt) s')))).
Proof.
  induction b as [|rt b IH]; intros acc s; simpl; [ring|].
  unfold mul_inner in *. simpl fold_left.
  pose proof (simplify_sound (fst lt ++ fst rt) (Cmul (snd lt) (snd rt)) s k) as Hs.
  unfold term, sop in *.
  destruct (simplify (fst lt ++ fst rt) (Cmul (snd lt) (snd rt))) as [c t]. simpl in Hs.
  rewrite IH, coeff_aop_dacc. rewrite lbind_app, coeff_app.
  rewrite !coeff_scale in Hs. rewrite Hs.
  rewrite (act_app (fst lt) (fst rt) s k).
  rewrite lbind_scale, coeff_scale.
  rewrite (coeff_bind_scalef N N.eqb k (act (fst rt) s)). ring.
Qed.

Theorem mul_hom a b s : nleq (aop (imul feqb simplify a b) s) (lbind (aop b s) (aop a)).
Proof.
  intros k. unfold imul.
  assert (G : forall acc, ncoeff k (aop (fold_left (fun acc lt => mul_inner lt acc b) a acc) s) =
              Cadd (ncoeff k (aop acc s)) (ncoeff k (lbind (aop b s) (aop a)))).
  { induction a as [|lt a IH]; intros acc; simpl fold_left.
    - simpl fold_left. change (aop []) with (fun _ : N => @nil (C * N)). rewrite lbind_nilf. simpl; ring.
    - rewrite IH, mul_inner_sound.
      change (aop (lt :: a)) with (fun s' => lscale (snd lt) (act (fst lt) s') ++ aop a s').
      rewrite (coeff_bind_addf N N.eqb k). ring. }
  specialize (G []). simpl in G. unfold mul_inner in G. etransitivity; [exact G|ring].
Qed.

(* ---------- scalar multiplication, negation ---------- *)
Theorem scale_hom a c s : nleq (aop (iscale a c) s) (lscale c (aop a s)).
Proof.
  intros k. induction a as [|[t x] a IH]; simpl; [reflexivity|].
  rewrite lscale_app, !coeff_app, IH, lscale_lscale, !coeff_scale. ring.
Qed.
Corollary neg_hom a s : nleq (aop (neg a) s) (lscale Cm1 (aop a s)).
Proof. apply scale_hom. Qed.

(* ---------- addition / subtraction ---------- *)
(* a step is exact when the pruning `del` only ever removes an exactly-zero coefficient *)
Definition iadd1_exact (d : sop F) (t : term F) (c : C) : bool :=
  let v := match dget feqb d t with Some c0 => Cadd c0 c | None => Cadd C0 c end in
  implb (small v) (Cis0 v).
Fixpoint iadd_exact (a b : sop F) : bool :=
  match b with
  | [] => true
  | (t, c) :: b' => iadd1_exact a t c && iadd_exact (iadd1 feqb small a t c) b'
  end.

Lemma iadd1_sound k d t c s : iadd1_exact d t c = true ->
  ncoeff k (aop (iadd1 feqb small d t c) s) = Cadd (ncoeff k (aop d s)) (Cmul c (ncoeff k (act t s))).
Proof.
  unfold iadd1_exact, iadd1. intros H.
  set (v := match dget feqb d t with Some c0 => Cadd c0 c | None => Cadd C0 c end) in *.
  assert (Ev : v = Cadd (dgetd d t) c) by (unfold v, dgetd; destruct (dget feqb d t); reflexivity).
  destruct (small v) eqn:Es.
  - simpl in H. apply Ceqb_eq in H. rewrite coeff_aop_ddel.
    assert (E : dgetd d t = Copp c).
    { rewrite Ev in H. replace (dgetd d t) with (Csub (Cadd (dgetd d t) c) c) by ring. rewrite H. ring. }
    rewrite E. ring.
  - rewrite coeff_aop_dset, Ev. ring.
Qed.

Theorem add_hom a b s : iadd_exact a b = true -> nleq (aop (iadd feqb small a b) s) (aop a s ++ aop b s).
Proof.
  intros H k. unfold iadd. revert a H. induction b as [|[t c] b IH]; intros a H; simpl.
  - rewrite app_nil_r. reflexivity.
  - simpl in H. apply andb_true_iff in H. destruct H as [H1 H2].
    rewrite (IH _ H2). rewrite !coeff_app, (iadd1_sound k a t c s H1), coeff_scale. ring.
Qed.

Definition negop (b : sop F) : sop F := map (fun tc => (fst tc, Copp (snd tc))) b.
Lemma isub_as_iadd a b : isub feqb small a b = iadd feqb small a (negop b).
Proof. unfold isub, iadd, negop. revert a. induction b as [|[t c] b IH]; intros a; simpl; [reflexivity|apply IH]. Qed.
Lemma aop_negop k b s : ncoeff k (aop (negop b) s) = Cmul Cm1 (ncoeff k (aop b s)).
Proof. induction b as [|[t c] b IH]; simpl; [ring|]. rewrite !coeff_app, IH, !coeff_scale. 
  rewrite (Copp_m1 c). ring. Qed.
Theorem sub_hom a b s : iadd_exact a (negop b) = true ->
  nleq (aop (isub feqb small a b) s) (aop a s ++ lscale Cm1 (aop b s)).
Proof.
  intros H k. rewrite isub_as_iadd, (add_hom a (negop b) s H k), !coeff_app, aop_negop, coeff_scale. reflexivity.
Qed.

(* ---------- powers ---------- *)
Fixpoint lpow (f : N -> lin N) (n : nat) (s : N) : lin N :=
  match n with O => [(C1, s)] | S n' => lbind (f s) (lpow f n') end.
Hypothesis act_nil : forall s, nleq (act [] s) [(C1, s)].
Theorem pow_hom a n s : nleq (aop (spow feqb simplify a n) s) (lpow (aop a) n s).
Proof.
  revert s; induction n as [|n IH]; intros s k; simpl.
  - rewrite app_nil_r, coeff_scale, (act_nil s k). simpl. ring.
  - rewrite (mul_hom (spow feqb simplify a n) a s k).
    apply coeff_bind_ext. intros x. apply IH.
Qed.
End SymHom.
