(* [B] theorems by complete enumeration inside Coq (domains stated in each theorem). *)
From Coq Require Import ZArith NArith List Bool.
From OFV Require Import Base.Cplx Base.Lin Sem.PauliSem Model.SymbolicOp Model.QubitOp Model.LadderOp Model.NormalOrder
  Model.Predicates Model.MajoranaOp Model.Program Check.DictEquiv Check.OpEquiv Check.Commutator Thm.C03.NormalOrderB.
Import ListNotations.

(* all strictly increasing index lists over {0..n-1} *)
Fixpoint subsets (n : nat) : list mterm :=
  match n with
  | O => [[]]
  | S n' => let r := subsets n' in r ++ map (fun l => l ++ [N.of_nat n']) r
  end.

(* merging two sorted Majorana terms: gamma(l) gamma(r) = (-1)^parity gamma(merged), as operators *)
Definition merge_ok (l r : mterm) : bool :=
  let (m, p) := mmerge l r in
  pauli_equiv (mjw0 [(l ++ r, C1)]) (mjw0 [(m, sgn p)]).
Theorem majorana_merge_sound_6 :
  forallb (fun l => forallb (fun r => merge_ok l r) (subsets 5)) (subsets 5) = true.
Proof. vm_compute. reflexivity. Qed.

(* _majorana_terms_commute decides commutation of the denoted operators *)
Definition commute_ok (l r : mterm) : bool :=
  Bool.eqb (mterms_commute l r) (qcomm_zero (mjw0 [(l, C1)]) (mjw0 [(r, C1)])).
Theorem majorana_terms_commute_correct_5 :
  forallb (fun l => forallb (fun r => commute_ok l r) (subsets 5)) (subsets 5) = true.
Proof. vm_compute. reflexivity. Qed.

(* sorting an arbitrary index word (repeats allowed) preserves the operator up to the parity sign:
   all words of length <= 4 over indices {0..3} *)
Fixpoint iwords (m len : nat) : list mterm :=
  match len with
  | O => [[]]
  | S len' => flat_map (fun w => map (fun j => N.of_nat j :: w) (seq 0 m)) (iwords m len')
  end.
Definition sort_ok (w : mterm) : bool :=
  pauli_equiv (mjw0 [(w, C1)]) (mjw0 (mmk w C1)).
Theorem majorana_sort_sound_4_4 : forallb sort_ok (flat_map (iwords 4) (seq 0 5)) = true.
Proof. vm_compute. reflexivity. Qed.

(* is_normal_ordered agrees with the canonical form of C03: a fermionic word is accepted iff
   normal ordering leaves it unchanged (all words of length <= 4 over 3 modes) *)
Definition no_pred_ok (w : lword) : bool :=
  Bool.eqb (is_normal_ordered_fermi [(w, C1)]) (dict_eqb lfactor lfeqb (no_fermi_term w C1) [(w, C1)]).
Theorem is_normal_ordered_iff_fixed_3_4 : forallb no_pred_ok (words_upto 3 4) = true.
Proof. vm_compute. reflexivity. Qed.
