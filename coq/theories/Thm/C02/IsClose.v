(* isclose decides exactly the per-term specification, is symmetric, and (since the specification
   only mentions dictionary lookups) does not depend on dictionary order or on other terms. *)
From Coq Require Import QArith Qcanon ZArith NArith List Bool Lia.
From OFV Require Import Base.Cplx Model.SymbolicOp Model.Program Model.Predicates Thm.C01.SymHom Check.DictEquiv.
Close Scope Qc_scope. Close Scope Q_scope.
Import ListNotations.

Lemma Cnorm2_sub_comm a b : Cnorm2 (Csub a b) = Cnorm2 (Csub b a).
Proof. unfold Cnorm2, Csub; simpl. ring. Qed.

Lemma Qc_ltb_lt a b : Qc_ltb a b = true <-> Qclt a b.
Proof. unfold Qc_ltb, Qclt, Qccompare. rewrite Qlt_alt. destruct (_ ?= _)%Q; split; congruence. Qed.
Lemma Qc_max_comm a b : Qc_max a b = Qc_max b a.
Proof.
  unfold Qc_max. destruct (Qc_ltb a b) eqn:E1, (Qc_ltb b a) eqn:E2; try reflexivity.
  - apply Qc_ltb_lt in E1. apply Qc_ltb_lt in E2. exfalso. eapply Qclt_not_le; [exact E1|]. apply Qclt_le_weak; assumption.
  - destruct (Qc_eq_dec a b) as [->|NE]; [reflexivity|]. exfalso.
    destruct (Qclt_le_dec a b) as [L|L].
    + apply Qc_ltb_lt in L. congruence.
    + apply Qcle_lt_or_eq in L. destruct L as [L|L]; [apply Qc_ltb_lt in L; congruence|congruence].
Qed.
Lemma close_tol_sym t2 a b : close_tol t2 a b = close_tol t2 b a.
Proof. unfold close_tol. rewrite Cnorm2_sub_comm, (Qc_max_comm (Cnorm2 a)). reflexivity. Qed.

Section Spec.
Variable F : Type.
Variable feqb : F -> F -> bool.
Hypothesis feqb_spec : forall a b, reflect (a = b) (feqb a b).
Variable t2 : Qc.

Definition close_spec (x y : option C) : Prop :=
  match x, y with
  | Some a, Some b => close_tol t2 a b = true
  | Some a, None => small_abs t2 a = true
  | None, Some b => small_abs t2 b = true
  | None, None => True
  end.

Theorem isclose_sym a b : isclose feqb t2 a b = isclose feqb t2 b a.
Proof. unfold isclose. apply andb_comm. Qed.

Lemma half_close_forall a b : half_close feqb t2 a b = true <->
  forall t c, In (t, c) a -> match dget feqb b t with Some y => close_tol t2 c y = true | None => small_abs t2 c = true end.
Proof.
  unfold half_close. rewrite forallb_forall. split.
  - intros H t c Hin. specialize (H (t, c) Hin). cbn [fst snd] in H. destruct (dget feqb b t); exact H.
  - intros H [t c] Hin. specialize (H t c Hin). cbn [fst snd]. destruct (dget feqb b t); exact H.
Qed.

Theorem isclose_spec a b : dnodup F feqb a = true -> dnodup F feqb b = true ->
  (isclose feqb t2 a b = true <-> forall t, close_spec (dget feqb a t) (dget feqb b t)).
Proof.
  intros Ha Hb. unfold isclose. rewrite andb_true_iff, !half_close_forall. split.
  - intros [H1 H2] t. unfold close_spec.
    destruct (dget feqb a t) as [x|] eqn:Ea.
    + destruct (dget_In F feqb feqb_spec a t x Ea) as [t' [-> Hin]]. apply (H1 t x Hin).
    + destruct (dget feqb b t) as [y|] eqn:Eb; [|exact I].
      destruct (dget_In F feqb feqb_spec b t y Eb) as [t' [-> Hin]].
      specialize (H2 t y Hin). rewrite Ea in H2. exact H2.
  - intros H. split; intros t c Hin.
    + pose proof (nodup_In_dget F feqb feqb_spec a t c Ha Hin) as E. specialize (H t). rewrite E in H.
      unfold close_spec in H. destruct (dget feqb b t); exact H.
    + pose proof (nodup_In_dget F feqb feqb_spec b t c Hb Hin) as E. specialize (H t). rewrite E in H.
      unfold close_spec in H. destruct (dget feqb a t) as [x|]; [rewrite close_tol_sym; exact H|exact H].
Qed.
End Spec.
