(* The canonical anticommutation relations hold in FermiSem, for all modes and all states:
   these are the rewrite steps normal ordering uses. *)
From Coq Require Import QArith Qcanon NArith List Bool Ring Lia.
From OFV Require Import Base.Cplx Base.Lin Sem.PauliSem Sem.FermiSem Model.LadderOp Thm.C04.JWSound.
Close Scope Qc_scope. Close Scope Q_scope.
Import ListNotations.

Notation "a ~ b" := (leq N.eqb a b) (at level 70).

Definition two (f g : lfactor) (s : N) : lin N := lbind (fapply1 g s) (fapply1 f).   (* f . g *)

Lemma sgn_xorb a b : sgn (xorb a b) = Cmul (sgn a) (sgn b).
Proof. symmetry; apply sgn_mul. Qed.

(* {f_i, g_j} = 0 for i <> j, whatever the actions *)
Theorem car_anticomm_diff i x j y s : i <> j ->
  two (i, x) (j, y) s ~ lscale Cm1 (two (j, y) (i, x) s).
Proof.
  intros Hne k. unfold two, fapply1. cbn [fst snd].
  assert (Hji : j <> i) by congruence.
  destruct (Bool.eqb y (bit s j)) eqn:Ej, (Bool.eqb x (bit s i)) eqn:Ei;
    cbn [lbind flat_map fst snd app lscale map]; rewrite ?app_nil_r;
    cbn [fst snd]; rewrite ?(bit_flip_other _ _ _ Hne), ?(bit_flip_other _ _ _ Hji), ?Ei, ?Ej;
    cbn [lscale map app coeff]; try reflexivity.
  rewrite !par_flip, (flip_comm s j i). rewrite !N2Nat.id. cbn [fst snd].
  destruct (N.eqb k (flip (flip s i) j)); [|reflexivity].
  destruct (N.ltb_spec j i), (N.ltb_spec i j); try lia;
    destruct (par s (N.to_nat i)), (par s (N.to_nat j)); cbn [xorb sgn]; ceq.
Qed.

(* f f = 0 *)
Theorem car_nilpotent i x s : two (i, x) (i, x) s ~ [].
Proof.
  intros k. unfold two, fapply1. cbn [fst snd].
  destruct (Bool.eqb x (bit s i)) eqn:Ei; [reflexivity|].
  cbn [lbind flat_map fst snd app]. rewrite bit_flip_same.
  destruct x, (bit s i); try discriminate; reflexivity.
Qed.

(* a_i a+_i + a+_i a_i = 1 *)
Theorem car_contract i s k :
  Cadd (coeff N.eqb k (two (i, false) (i, true) s)) (coeff N.eqb k (two (i, true) (i, false) s))
  = coeff N.eqb k [(C1, s)].
Proof.
  unfold two, fapply1. cbn [fst snd].
  destruct (bit s i) eqn:Eb; cbn [Bool.eqb lbind flat_map fst snd app lscale map]; rewrite ?app_nil_r;
    cbn [fst snd]; rewrite bit_flip_same, Eb; cbn [negb Bool.eqb lscale map app coeff];
    rewrite flip_flip, par_flip_self; cbn [fst snd]; rewrite sgn_sq; destruct (N.eqb k s); ring.
Qed.
