(* [B] bounded theorems, proved by computation over the complete stated domain:
   for every fermionic word of length <= 4 over modes {0,1,2} (all 1555 words), the model of
   normal_ordered_ladder_term returns a normal-ordered operator denoting the same Fock-space
   operator (via the verified checker fermi_equiv), and normal ordering is idempotent. *)
From Coq Require Import ZArith NArith List Bool.
From OFV Require Import Base.Cplx Base.Lin Sem.PauliSem Sem.FermiSem Sem.BoseSem Model.SymbolicOp Model.QubitOp
  Model.LadderOp Model.NormalOrder Model.Program Check.DictEquiv Check.OpEquiv.
Import ListNotations.

Definition factors (m : nat) : list lfactor :=
  flat_map (fun j => [(N.of_nat j, true); (N.of_nat j, false)]) (seq 0 m).
Fixpoint words (m len : nat) : list lword :=
  match len with
  | O => [[]]
  | S len' => flat_map (fun w => map (fun f => f :: w) (factors m)) (words m len')
  end.
Definition words_upto (m len : nat) : list lword := flat_map (words m) (seq 0 (S len)).

Definition fermi_word_ok (w : lword) : bool :=
  let r := no_fermi_term w C1 in
  fermi_equiv [(w, C1)] r && is_normal_ordered_fermi r
  && dict_eqb lfactor lfeqb (normal_ordered_fermi r) r.

Theorem no_fermi_words_3_4 : forallb fermi_word_ok (words_upto 3 4) = true.
Proof. vm_compute. reflexivity. Qed.

(* bosons: same on every monomial x^k with exponents <= 4 (sufficient for words of length <= 4) *)
Definition bose_word_ok (w : lword) : bool :=
  bose_equiv_on bapply1 2 4 [(w, C1)] (no_bose_term w C1).
Theorem no_bose_words_2_4 : forallb bose_word_ok (words_upto 2 4) = true.
Proof. vm_compute. reflexivity. Qed.

(* quadratures with hbar = 2 and hbar = 1/2 (D3: nested contractions must use the caller's hbar) *)
Definition quad_word_ok (hbar : C) (w : lword) : bool :=
  bose_equiv_on (qapply1 hbar) 2 4 [(w, C1)] (noqt (S (length w)) hbar w C1).
Theorem no_quad_words_2_4 :
  forallb (quad_word_ok (Cmk 2%Z 1%positive 0%Z 1%positive)) (words_upto 2 4) = true /\
  forallb (quad_word_ok (Cmk 1%Z 2%positive 0%Z 1%positive)) (words_upto 2 4) = true.
Proof. split; vm_compute; reflexivity. Qed.
