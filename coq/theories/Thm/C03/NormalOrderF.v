(* C03, unbounded: the model of normal_ordered_ladder_term (fermions) with exact accumulation denotes, for every word of any
   length over any modes and every coefficient, the same Fock-space operator as the word it was given. *)
From Coq Require Import QArith Qcanon NArith List Bool Ring Lia Arith.
From OFV Require Import Base.Cplx Base.Lin Sem.PauliSem Sem.FermiSem Model.SymbolicOp Model.LadderOp Model.NormalOrder
  Thm.C01.SymHom Thm.C01.FermiHom Thm.C04.JWSound Thm.C03.CAR.
Close Scope Qc_scope. Close Scope Q_scope.
Import ListNotations.

Notation "a ~ b" := (leq N.eqb a b) (at level 70).

(* ---- the in-place list operations of the double loop, in append form *)
Lemma split2 (t : lword) j : 1 <= j -> j < length t ->
  exists pre a b post, t = pre ++ a :: b :: post /\ j = S (length pre).
Proof.
  intros H1 H2. exists (firstn (j - 1) t).
  destruct (skipn (j - 1) t) as [|a [|b post]] eqn:E.
  - exfalso. assert (L := skipn_length (j - 1) t). rewrite E in L. simpl in L. lia.
  - exfalso. assert (L := skipn_length (j - 1) t). rewrite E in L. simpl in L. lia.
  - exists a, b, post. split.
    + rewrite <- E. symmetry. apply firstn_skipn.
    + rewrite firstn_length. lia.
Qed.
Lemma nthf_pre pre a b post : nthf (pre ++ a :: b :: post) (length pre) = a.
Proof. unfold nthf. rewrite app_nth2 by lia. rewrite Nat.sub_diag. reflexivity. Qed.
Lemma nthf_pre1 pre a b post : nthf (pre ++ a :: b :: post) (S (length pre)) = b.
Proof. unfold nthf. rewrite app_nth2 by lia. replace (S (length pre) - length pre) with 1 by lia. reflexivity. Qed.
Lemma setn_app pre : forall x rest i, setn (pre ++ rest) (length pre + i) x = pre ++ setn rest i x.
Proof. induction pre as [|g pre IH]; intros x rest i; [reflexivity|]. simpl. rewrite IH. reflexivity. Qed.
Lemma setn2 pre a b post x y :
  setn (setn (pre ++ a :: b :: post) (length pre) x) (S (length pre)) y = pre ++ x :: y :: post.
Proof.
  replace (length pre) with (length pre + 0) at 1 by lia. rewrite setn_app. cbn [setn].
  replace (S (length pre)) with (length pre + 1) by lia. rewrite setn_app. reflexivity.
Qed.
Lemma cut2_app pre x y post : cut2 (pre ++ x :: y :: post) (S (length pre)) = pre ++ post.
Proof.
  unfold cut2. replace (S (length pre) - 1) with (length pre) by lia.
  rewrite firstn_app, firstn_all, Nat.sub_diag. cbn [firstn]. rewrite app_nil_r.
  replace (S (length pre) + 1) with (length pre + 2) by lia.
  rewrite skipn_app, skipn_all2 by lia. replace (length pre + 2 - length pre) with 2 by lia. reflexivity.
Qed.

(* ---- semantics of a word with a distinguished middle part *)
Lemma word3 pre mid post s :
  fapply_word (pre ++ mid ++ post) s ~ lbind (fapply_word post s) (fun s1 => lbind (fapply_word mid s1) (fapply_word pre)).
Proof.
  eapply leq_trans; [apply fapply_word_app|].
  intros k. rewrite (coeff_bind_leq N N.eqb N.eqb_spec k _ _ (fapply_word pre) (fapply_word_app mid post s)).
  rewrite lbind_lbind. reflexivity.
Qed.
Lemma word3_ext pre mid post s X : (forall s1, fapply_word mid s1 ~ X s1) ->
  fapply_word (pre ++ mid ++ post) s ~ lbind (fapply_word post s) (fun s1 => lbind (X s1) (fapply_word pre)).
Proof.
  intros H. eapply leq_trans; [apply word3|]. apply leq_bind_ext. intros s1.
  apply leq_bind; [exact N.eqb_spec|apply H|intros; apply leq_refl].
Qed.
Lemma pair_two a b s : fapply_word [a; b] s ~ two a b s.
Proof.
  unfold two. cbn [fapply_word]. intros k.
  apply (coeff_bind_leq N N.eqb N.eqb_spec). intros k'. rewrite (coeff_bind_single N N.eqb). ring.
Qed.

(* ---- the three rewriting facts on an adjacent pair *)
Lemma pair_anticomm i x j y s : i <> j -> fapply_word [(i, x); (j, y)] s ~ lscale Cm1 (fapply_word [(j, y); (i, x)] s).
Proof.
  intros H. eapply leq_trans; [apply pair_two|]. eapply leq_trans; [apply car_anticomm_diff; exact H|].
  apply leq_scale. apply leq_sym. apply pair_two.
Qed.
Lemma pair_nilpotent i x s : fapply_word [(i, x); (i, x)] s ~ [].
Proof. eapply leq_trans; [apply pair_two|apply car_nilpotent]. Qed.
Lemma pair_contract i s : fapply_word [(i, false); (i, true)] s ~ [(C1, s)] ++ lscale Cm1 (fapply_word [(i, true); (i, false)] s).
Proof.
  intros k. rewrite (pair_two _ _ s k), coeff_app, coeff_scale, (pair_two _ _ s k).
  rewrite <- (car_contract i s k). rewrite Cm1_opp1. ring.
Qed.

(* ---- the same three facts inside a word *)
Lemma lscale_nil c : lscale c ([] : lin N) = []. Proof. reflexivity. Qed.
Lemma word_pair_zero pre (u v : lfactor) post s : (forall s1, fapply_word [u; v] s1 ~ []) ->
  fapply_word (pre ++ u :: v :: post) s ~ [].
Proof.
  intros H. change (pre ++ u :: v :: post) with (pre ++ [u; v] ++ post).
  eapply leq_trans; [apply (word3_ext pre [u; v] post s (fun _ => []) H)|].
  cbn [lbind]. rewrite lbind_nilf. apply leq_refl.
Qed.
Lemma word_pair_swap pre (u v : lfactor) post s : (forall s1, fapply_word [u; v] s1 ~ lscale Cm1 (fapply_word [v; u] s1)) ->
  fapply_word (pre ++ u :: v :: post) s ~ lscale Cm1 (fapply_word (pre ++ v :: u :: post) s).
Proof.
  intros H. change (pre ++ u :: v :: post) with (pre ++ [u; v] ++ post). change (pre ++ v :: u :: post) with (pre ++ [v; u] ++ post).
  eapply leq_trans; [apply (word3_ext pre [u; v] post s _ H)|].
  eapply leq_trans; [|apply leq_scale; apply leq_sym; apply word3].
  intros k. rewrite coeff_scale, <- (coeff_bind_scalef N N.eqb).
  apply coeff_bind_ext. intros x. rewrite lbind_scale. apply leq_refl.
Qed.
Lemma word_pair_contract pre i post s :
  fapply_word (pre ++ (i, false) :: (i, true) :: post) s ~
  fapply_word (pre ++ post) s ++ lscale Cm1 (fapply_word (pre ++ (i, true) :: (i, false) :: post) s).
Proof.
  change (pre ++ (i, false) :: (i, true) :: post) with (pre ++ [(i, false); (i, true)] ++ post).
  change (pre ++ (i, true) :: (i, false) :: post) with (pre ++ [(i, true); (i, false)] ++ post).
  eapply leq_trans; [apply (word3_ext pre _ post s _ (fun s1 => pair_contract i s1))|].
  eapply leq_trans; [|apply leq_app; [apply leq_sym; apply fapply_word_app|apply leq_scale; apply leq_sym; apply word3]].
  intros k. rewrite coeff_app, coeff_scale.
  rewrite <- (coeff_bind_scalef N N.eqb), <- (coeff_bind_addf N N.eqb).
  apply coeff_bind_ext. intros x k'. rewrite lbind_app, lbind_scale, !coeff_app, coeff_scale.
  rewrite (coeff_bind_single N N.eqb). ring.
Qed.

Section Step.
Variable small : C -> bool.
Hypothesis small_exact : forall a b, iadd_exact lfactor lfeqb small a b = true.
Variable rec : lword -> C -> lop.

Definition stden (st : nstate) (s : N) : lin N :=
  (if nret st then [] else lscale (ncoef st) (fapply_word (nterm st) s)) ++ fden (nacc st) s.

Lemma acc_add_den acc r s : fden (acc_add small acc r) s ~ fden acc s ++ fden r s.
Proof. apply (add_hom lfactor lfeqb lfeqb_spec small fapply_word). apply small_exact. Qed.

Lemma step_sound st j :
  1 <= j -> j < length (nterm st) ->
  (forall t' c' s, length t' + 2 = length (nterm st) -> fden (rec t' c') s ~ lscale c' (fapply_word t' s)) ->
  length (nterm (step_j small true rec st j)) = length (nterm st) /\
  forall s, stden (step_j small true rec st j) s ~ stden st s.
Proof.
  intros H1 H2 Hrec. unfold step_j.
  destruct (nret st) eqn:Er; [split; [rewrite ?Et; reflexivity|intros; apply leq_refl]|].
  destruct (split2 (nterm st) j H1 H2) as [pre [a [b [post [Et Ej]]]]].
  assert (Ej1 : j - 1 = length pre) by lia.
  rewrite Ej1. subst j. rewrite Et, nthf_pre, nthf_pre1, setn2, cut2_app.
  destruct a as [ia xa], b as [ib xb]. cbn [fst snd parity].
  assert (Lsw : forall u v, length (pre ++ u :: v :: post) = length (pre ++ (ia, xa) :: (ib, xb) :: post)) by (intros; rewrite !app_length; reflexivity).
  assert (Lcut : length (pre ++ post) + 2 = length (nterm st)) by (rewrite Et, !app_length; simpl; lia).
  assert (SW : forall s c, ia <> ib ->
     lscale (Cmul c Cm1) (fapply_word (pre ++ (ib, xb) :: (ia, xa) :: post) s) ~ lscale c (fapply_word (pre ++ (ia, xa) :: (ib, xb) :: post) s)).
  { intros s c Hne.
    eapply leq_trans; [|apply leq_scale; apply leq_sym; apply (word_pair_swap pre (ia, xa) (ib, xb) post s (fun s1 => pair_anticomm ia xa ib xb s1 Hne))].
    rewrite lscale_lscale. apply leq_refl. }
  destruct xb, xa; cbn [andb negb Bool.eqb].
  - (* both creation *)
    destruct (N.eqb_spec ib ia) as [->|Hne]; cbn [andb].
    + split; [reflexivity|]. intros s. unfold stden. cbn [nret nterm ncoef nacc]. rewrite Er, Et.
      apply leq_app; [|apply leq_refl]. apply leq_sym.
      eapply leq_trans; [apply leq_scale; apply (word_pair_zero pre _ _ post s (fun s1 => pair_nilpotent ia true s1))|apply leq_refl].
    + destruct (N.ltb ia ib) eqn:El; [|split; [rewrite ?Et; reflexivity|intros; apply leq_refl]].
      split; [cbn [nterm]; rewrite ?Et; apply Lsw|]. intros s. unfold stden. cbn [nret nterm ncoef nacc]. rewrite Er, Et.
      apply leq_app; [|apply leq_refl]. apply SW. congruence.
  - (* right creation, left annihilation: swap, contract if the modes coincide *)
    destruct (N.eqb_spec ib ia) as [->|Hne].
    + split; [cbn [nterm]; rewrite ?Et; apply Lsw|]. intros s. unfold stden. cbn [nret nterm ncoef nacc]. rewrite Er, Et.
      eapply leq_trans; [apply leq_app; [apply leq_refl|eapply leq_trans; [apply acc_add_den|apply leq_app; [apply leq_refl|apply (Hrec _ _ s Lcut)]]]|].
      eapply leq_trans; [|apply leq_app; [apply leq_scale; apply leq_sym; apply (word_pair_contract pre ia post s)|apply leq_refl]].
      intros k. rewrite !coeff_app, !coeff_scale, !coeff_app, !coeff_scale.
      unfold lword, lfactor in *. rewrite Cm1_opp1. ring.
    + split; [cbn [nterm]; rewrite ?Et; apply Lsw|]. intros s. unfold stden. cbn [nret nterm ncoef nacc]. rewrite Er, Et.
      apply leq_app; [|apply leq_refl]. apply SW. congruence.
  - (* right annihilation, left creation: already ordered *)
    split; [rewrite ?Et; reflexivity|intros; apply leq_refl].
  - (* both annihilation *)
    destruct (N.eqb_spec ib ia) as [->|Hne]; cbn [andb].
    + split; [reflexivity|]. intros s. unfold stden. cbn [nret nterm ncoef nacc]. rewrite Er, Et.
      apply leq_app; [|apply leq_refl]. apply leq_sym.
      eapply leq_trans; [apply leq_scale; apply (word_pair_zero pre _ _ post s (fun s1 => pair_nilpotent ia false s1))|apply leq_refl].
    + destruct (N.ltb ia ib) eqn:El; [|split; [rewrite ?Et; reflexivity|intros; apply leq_refl]].
      split; [cbn [nterm]; rewrite ?Et; apply Lsw|]. intros s. unfold stden. cbn [nret nterm ncoef nacc]. rewrite Er, Et.
      apply leq_app; [|apply leq_refl]. apply SW. congruence.
Qed.

(* the double loop: every (i, j) visited satisfies 1 <= j <= i < length *)
Lemma inner_sound : forall js st, Forall (fun j => 1 <= j /\ j < length (nterm st)) js ->
  (forall t' c' s, length t' + 2 = length (nterm st) -> fden (rec t' c') s ~ lscale c' (fapply_word t' s)) ->
  length (nterm (fold_left (step_j small true rec) js st)) = length (nterm st) /\
  forall s, stden (fold_left (step_j small true rec) js st) s ~ stden st s.
Proof.
  induction js as [|j js IH]; intros st Hjs Hrec; [split; [reflexivity|intros; apply leq_refl]|].
  inversion Hjs as [|? ? [Hj1 Hj2] Hrest]; subst. cbn [fold_left].
  destruct (step_sound st j Hj1 Hj2 Hrec) as [L1 D1].
  destruct (IH (step_j small true rec st j)) as [L2 D2].
  - rewrite L1. exact Hrest.
  - rewrite L1. exact Hrec.
  - split; [congruence|]. intros s. eapply leq_trans; [apply D2|apply D1].
Qed.
Lemma outer_sound : forall is_ st, Forall (fun i => i < length (nterm st)) is_ ->
  (forall t' c' s, length t' + 2 = length (nterm st) -> fden (rec t' c') s ~ lscale c' (fapply_word t' s)) ->
  length (nterm (fold_left (fun st i => fold_left (step_j small true rec) (rev (seq 1 i)) st) is_ st)) = length (nterm st) /\
  forall s, stden (fold_left (fun st i => fold_left (step_j small true rec) (rev (seq 1 i)) st) is_ st) s ~ stden st s.
Proof.
  induction is_ as [|i is_ IH]; intros st His Hrec; [split; [reflexivity|intros; apply leq_refl]|].
  inversion His as [|? ? Hi Hrest]; subst. cbn [fold_left].
  destruct (inner_sound (rev (seq 1 i)) st) as [L1 D1].
  - apply Forall_forall. intros j Hj. apply in_rev in Hj. apply in_seq in Hj. lia.
  - exact Hrec.
  - destruct (IH (fold_left (step_j small true rec) (rev (seq 1 i)) st)) as [L2 D2].
    + rewrite L1. exact Hrest.
    + rewrite L1. exact Hrec.
    + split; [congruence|]. intros s. eapply leq_trans; [apply D2|apply D1].
Qed.

Lemma body_sound t c :
  (forall t' c' s, length t' + 2 = length t -> fden (rec t' c') s ~ lscale c' (fapply_word t' s)) ->
  forall s, fden (nolt_body small true fsimplify rec t c) s ~ lscale c (fapply_word t s).
Proof.
  intros Hrec s. unfold nolt_body, run_loops.
  set (st0 := {| nterm := t; ncoef := c; nacc := []; nret := false |}).
  destruct (outer_sound (seq 1 (length t - 1)) st0) as [L D].
  - apply Forall_forall. intros i Hi. apply in_seq in Hi. cbn [nterm st0]. lia.
  - exact Hrec.
  - set (st := fold_left _ _ st0) in *. specialize (D s). unfold stden in D. cbn [st0 nret nterm ncoef nacc fden flat_map] in D.
    rewrite app_nil_r in D.
    destruct (nret st) eqn:Er.
    + eapply leq_trans; [|exact D]. cbn [app]. apply leq_refl.
    + eapply leq_trans; [apply acc_add_den|]. eapply leq_trans; [|exact D].
      eapply leq_trans; [apply leq_app_comm|]. apply leq_app; [|apply leq_refl].
      unfold mk1, fsimplify. cbn [fden flat_map fst snd]. rewrite app_nil_r. apply leq_refl.
Qed.
End Step.

(* enough fuel: the recursive call is on a word shorter by two *)
Theorem nolt_sound small : (forall a b, iadd_exact lfactor lfeqb small a b = true) ->
  forall fuel t c s, length t < fuel -> fden (nolt small fuel true fsimplify t c) s ~ lscale c (fapply_word t s).
Proof.
  intros Hex. induction fuel as [|fuel IH]; intros t c s Hl; [lia|].
  cbn [nolt]. apply (body_sound small Hex). intros t' c' s' Hl'. apply IH. lia.
Qed.

Lemma liadd_exact_Cis0 a b : iadd_exact lfactor lfeqb Cis0 a b = true.
Proof.
  revert a; induction b as [|[t c] b IH]; intros a; cbn [iadd_exact]; [reflexivity|].
  rewrite IH, andb_true_r. unfold iadd1_exact. destruct (Cis0 _); reflexivity.
Qed.

(* every fermionic word, any length, any modes, any coefficient *)
Theorem no_fermi_term0_sound t c s : fden (no_fermi_term0 t c) s ~ lscale c (fapply_word t s).
Proof. unfold no_fermi_term0. apply nolt_sound; [apply liadd_exact_Cis0|lia]. Qed.

Theorem normal_ordered_fermi0_sound op s : fden (normal_ordered_fermi0 op) s ~ fden op s.
Proof.
  unfold normal_ordered_fermi0.
  assert (G : forall acc, fden (fold_left (fun acc tc => iadd lfeqb Cis0 acc (no_fermi_term0 (fst tc) (snd tc))) op acc) s ~ fden acc s ++ fden op s).
  { induction op as [|[t c] op IH]; intros acc; cbn [fold_left fden flat_map fst snd].
    - rewrite app_nil_r. apply leq_refl.
    - eapply leq_trans; [apply IH|].
      eapply leq_trans; [apply leq_app; [apply (add_hom lfactor lfeqb lfeqb_spec Cis0 fapply_word acc (no_fermi_term0 t c) s (liadd_exact_Cis0 _ _))|apply leq_refl]|].
      eapply leq_trans; [apply leq_app; [apply leq_app; [apply leq_refl|apply (no_fermi_term0_sound t c s)]|apply leq_refl]|].
      rewrite <- app_assoc. apply leq_refl. }
  eapply leq_trans; [apply G|]. apply leq_refl.
Qed.
