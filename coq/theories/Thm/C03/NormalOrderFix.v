(* C02 / C03, unbounded: a fermionic word that satisfies is_normal_ordered is a fixed point of the normal-ordering model -
   the double loop changes nothing, whatever the length and the modes. *)
From Coq Require Import QArith Qcanon NArith List Bool Lia Arith.
From OFV Require Import Base.Cplx Base.Lin Model.SymbolicOp Model.LadderOp Model.NormalOrder.
Close Scope Qc_scope. Close Scope Q_scope.
Import ListNotations.

Lemma adj_ok_nth ok : forall (t : lword) j, adj_ok ok t = true -> 1 <= j -> j < length t ->
  ok (nthf t (j - 1)) (nthf t j) = true.
Proof.
  induction t as [|a t IH]; intros j H H1 H2; [simpl in H2; lia|].
  destruct t as [|b t]; [simpl in H2; lia|].
  cbn [adj_ok] in H. apply andb_true_iff in H. destruct H as [Hab Hrest].
  destruct j as [|[|j]]; [lia|exact Hab|].
  replace (S (S j) - 1) with (S j) by lia.
  specialize (IH (S j) Hrest ltac:(lia) ltac:(simpl in *; lia)).
  replace (S j - 1) with j in IH by lia.
  unfold nthf in *. cbn [nth] in *. exact IH.
Qed.

Section Fix.
Variable small : C -> bool.
Variable rec : lword -> C -> lop.

Lemma step_fixed st j : nret st = false -> adj_ok fermi_pair_ok (nterm st) = true -> 1 <= j -> j < length (nterm st) ->
  step_j small true rec st j = st.
Proof.
  intros Er Hok H1 H2. unfold step_j. rewrite Er.
  pose proof (adj_ok_nth fermi_pair_ok (nterm st) j Hok H1 H2) as P. unfold fermi_pair_ok in P.
  destruct (nthf (nterm st) j) as [ir xr], (nthf (nterm st) (j - 1)) as [il xl]. cbn [fst snd] in *.
  destruct xr, xl; cbn [andb negb Bool.eqb] in *; try discriminate; try reflexivity.
  - (* both creation: strictly decreasing index *)
    apply negb_true_iff in P. apply N.leb_gt in P.
    destruct (N.eqb_spec ir il) as [->|Hne]; [lia|]. destruct (N.ltb_spec il ir); [lia|reflexivity].
  - apply negb_true_iff in P. apply N.leb_gt in P.
    destruct (N.eqb_spec ir il) as [->|Hne]; [lia|]. destruct (N.ltb_spec il ir); [lia|reflexivity].
Qed.

Lemma inner_fixed : forall js st, nret st = false -> adj_ok fermi_pair_ok (nterm st) = true ->
  Forall (fun j => 1 <= j /\ j < length (nterm st)) js -> fold_left (step_j small true rec) js st = st.
Proof.
  induction js as [|j js IH]; intros st Er Hok Hjs; [reflexivity|].
  inversion Hjs as [|? ? [Hj1 Hj2] Hrest]; subst. cbn [fold_left].
  rewrite (step_fixed st j Er Hok Hj1 Hj2). apply IH; assumption.
Qed.
Lemma outer_fixed : forall is_ st, nret st = false -> adj_ok fermi_pair_ok (nterm st) = true ->
  Forall (fun i => i < length (nterm st)) is_ ->
  fold_left (fun st i => fold_left (step_j small true rec) (rev (seq 1 i)) st) is_ st = st.
Proof.
  induction is_ as [|i is_ IH]; intros st Er Hok His; [reflexivity|].
  inversion His as [|? ? Hi Hrest]; subst. cbn [fold_left].
  rewrite (inner_fixed (rev (seq 1 i)) st Er Hok).
  - apply IH; assumption.
  - apply Forall_forall. intros j Hj. apply in_rev in Hj. apply in_seq in Hj. lia.
Qed.

Theorem body_fixed t c : adj_ok fermi_pair_ok t = true -> small (Cadd C0 c) = false ->
  nolt_body small true fsimplify rec t c = [(t, c)].
Proof.
  intros Hok Hc. unfold nolt_body, run_loops.
  rewrite outer_fixed; cbn [nret nterm ncoef nacc]; try reflexivity; try assumption.
  - unfold acc_add, mk1, fsimplify, iadd. cbn [fold_left fst snd]. unfold iadd1. cbn [dget]. rewrite Hc. cbn [dset]. rewrite Cadd_0_l. reflexivity.
  - apply Forall_forall. intros i Hi. apply in_seq in Hi. lia.
Qed.
End Fix.

(* is_normal_ordered(word) implies normal_ordered(word) = word, for the model with the code's tolerance *)
Theorem normal_ordered_word_fixed t c : adj_ok fermi_pair_ok t = true -> small_tol (Cadd C0 c) = false ->
  no_fermi_term t c = [(t, c)].
Proof. intros Hok Hc. unfold no_fermi_term. cbn [nolt]. apply body_fixed; assumption. Qed.

Example fixed_nonvacuous :
  adj_ok fermi_pair_ok [(3%N, true); (1%N, true); (2%N, false); (0%N, false)] = true /\ small_tol (Cadd C0 C1) = false.
Proof. split; vm_compute; reflexivity. Qed.
