(* C03, unbounded: every term returned by the model of fermionic normal ordering is in normal order (creation operators first,
   strictly decreasing indices within each kind) - for every input word of any length and for the code's pruning tolerance.
   The double loop is an insertion sort with an early exit on a repeated factor. *)
From Coq Require Import QArith Qcanon NArith List Bool Lia Arith Sorting.Sorted.
From OFV Require Import Base.Cplx Base.Lin Model.SymbolicOp Model.LadderOp Model.NormalOrder Thm.C03.NormalOrderF.
Close Scope Qc_scope. Close Scope Q_scope.
Import ListNotations.

Definition okb (a b : lfactor) : bool := fermi_pair_ok a b.
Definition ok (a b : lfactor) : Prop := okb a b = true.

Lemma ok_trans a b c : ok a b -> ok b c -> ok a c.
Proof.
  unfold ok, okb, fermi_pair_ok. destruct a as [ia xa], b as [ib xb], c as [ic xc]. cbn [fst snd].
  destruct xa, xb, xc; cbn [andb negb Bool.eqb]; intros H1 H2; try discriminate; try reflexivity;
    repeat match goal with H : negb _ = true |- _ => apply negb_true_iff in H; apply N.leb_gt in H end;
    apply negb_true_iff; apply N.leb_gt; lia.
Qed.
Lemma ok_total a b : ok a b \/ a = b \/ ok b a.
Proof.
  unfold ok, okb, fermi_pair_ok. destruct a as [ia xa], b as [ib xb]. cbn [fst snd].
  destruct xa, xb; cbn [andb negb Bool.eqb]; auto;
    destruct (N.lt_trichotomy ia ib) as [H|[H|H]];
    try (left; apply negb_true_iff; apply N.leb_gt; lia);
    try (right; right; apply negb_true_iff; apply N.leb_gt; lia);
    right; left; subst; reflexivity.
Qed.
Lemma ok_irrefl a : ~ ok a a.
Proof.
  unfold ok, okb, fermi_pair_ok. destruct a as [ia xa]. cbn [fst snd].
  destruct xa; cbn [andb negb Bool.eqb]; intros H; apply negb_true_iff in H; apply N.leb_gt in H; lia.
Qed.

Lemma sorted_adj_ok s : StronglySorted ok s -> adj_ok fermi_pair_ok s = true.
Proof.
  induction 1 as [|a s Hs IH Ha]; [reflexivity|].
  destruct s as [|b s]; [reflexivity|].
  change (adj_ok fermi_pair_ok (a :: b :: s)) with (fermi_pair_ok a b && adj_ok fermi_pair_ok (b :: s)).
  rewrite IH, andb_true_r. inversion Ha; subst. assumption.
Qed.

(* ---- one step on a word in append form *)
Section Sort.
Variable small : C -> bool.
Variable rec : lword -> C -> lop.
Definition keys_ok (d : lop) : Prop := Forall (fun tc => adj_ok fermi_pair_ok (fst tc) = true) d.
Hypothesis rec_ok : forall t c, keys_ok (rec t c).

Lemma ddel_keys (d : lop) t : keys_ok d -> keys_ok (ddel lfeqb d t).
Proof.
  unfold keys_ok. induction d as [|[t' c'] d IH]; intros H; simpl; [constructor|].
  inversion H; subst. destruct (teqb lfeqb t t'); [assumption|constructor; auto].
Qed.
Lemma dset_keys' (d : lop) t c : keys_ok d -> adj_ok fermi_pair_ok t = true -> keys_ok (dset lfeqb d t c).
Proof.
  unfold keys_ok. intros Hd Ht. induction d as [|[t' c'] d IH]; simpl; [repeat constructor; assumption|].
  inversion Hd; subst. destruct (teqb lfeqb t t'); constructor; auto.
Qed.
Lemma iadd_keys (a b : lop) : keys_ok a -> keys_ok b -> keys_ok (iadd lfeqb small a b).
Proof.
  unfold iadd. revert a. induction b as [|[t c] b IH]; intros a Ha Hb; [exact Ha|].
  inversion Hb; subst. cbn [fold_left]. apply IH; [|assumption].
  unfold iadd1. cbn [fst snd]. destruct (small _); [apply ddel_keys|apply dset_keys']; assumption.
Qed.

Lemma step_cases st pre a b post :
  nret st = false -> nterm st = pre ++ a :: b :: post -> keys_ok (nacc st) ->
  let st' := step_j small true rec st (S (length pre)) in
  keys_ok (nacc st') /\
  ((ok a b /\ nterm st' = nterm st /\ nret st' = false) \/
   nret st' = true \/
   (ok b a /\ nterm st' = pre ++ b :: a :: post /\ nret st' = false)).
Proof.
  intros Er Et Hk. cbv zeta. unfold step_j. rewrite Er.
  replace (S (length pre) - 1) with (length pre) by lia.
  rewrite Et, nthf_pre, nthf_pre1, setn2, cut2_app.
  destruct a as [ia xa], b as [ib xb]. cbn [fst snd parity].
  destruct (ok_total (ia, xa) (ib, xb)) as [H|[H|H]].
  - (* in order: nothing happens *)
    assert (P := H). unfold ok, okb, fermi_pair_ok in P. cbn [fst snd] in P.
    destruct xb, xa; cbn [andb negb Bool.eqb] in *; try discriminate.
    + apply negb_true_iff in P. apply N.leb_gt in P.
      destruct (N.eqb_spec ib ia) as [->|Hne]; [lia|]. destruct (N.ltb_spec ia ib); [lia|].
      split; [assumption|]. left. rewrite Et. auto.
    + split; [assumption|]. left. rewrite Et. auto.
    + apply negb_true_iff in P. apply N.leb_gt in P.
      destruct (N.eqb_spec ib ia) as [->|Hne]; [lia|]. destruct (N.ltb_spec ia ib); [lia|].
      split; [assumption|]. left. rewrite Et. auto.
  - (* repeated factor *)
    injection H as -> ->. destruct xb; cbn [andb negb Bool.eqb]; rewrite N.eqb_refl; cbn [nacc nret]; split; auto.
  - (* out of order: swap (with a contraction term if the modes coincide) *)
    assert (P := H). unfold ok, okb, fermi_pair_ok in P. cbn [fst snd] in P.
    destruct xb, xa; cbn [andb negb Bool.eqb] in *; try discriminate.
    + apply negb_true_iff in P. apply N.leb_gt in P.
      destruct (N.eqb_spec ib ia) as [->|Hne]; [lia|]. destruct (N.ltb_spec ia ib); [|lia].
      cbn [nacc nterm nret]. split; [assumption|]. right; right. auto.
    + destruct (N.eqb ib ia); cbn [nacc nterm nret]; (split; [|right; right; auto]); [|assumption].
      apply iadd_keys; [assumption|apply rec_ok].
    + apply negb_true_iff in P. apply N.leb_gt in P.
      destruct (N.eqb_spec ib ia) as [->|Hne]; [lia|]. destruct (N.ltb_spec ia ib); [|lia].
      cbn [nacc nterm nret]. split; [assumption|]. right; right. auto.
Qed.

Lemma steps_stuck : forall js st, nret st = true -> fold_left (step_j small true rec) js st = st.
Proof.
  induction js as [|j js IH]; intros st H; [reflexivity|]. cbn [fold_left].
  assert (E : step_j small true rec st j = st) by (unfold step_j; rewrite H; reflexivity).
  rewrite E. apply IH. exact H.
Qed.
Lemma rev_seq_S j : rev (seq 1 (S j)) = S j :: rev (seq 1 j).
Proof. rewrite seq_S, rev_app_distr. reflexivity. Qed.

(* the inner loop inserts x (at position j = length l) into the sorted l ++ r, unless it meets a copy of itself *)
Lemma insert_sorted : forall j l x r tail st,
  length l = j -> nret st = false -> nterm st = l ++ x :: r ++ tail -> keys_ok (nacc st) ->
  StronglySorted ok (l ++ r) -> Forall (ok x) r ->
  let st' := fold_left (step_j small true rec) (rev (seq 1 j)) st in
  keys_ok (nacc st') /\
  (nret st' = true \/ exists s, nterm st' = s ++ tail /\ StronglySorted ok s /\ length s = S (j + length r) /\ nret st' = false).
Proof.
  induction j as [|j IH]; intros l x r tail st Hl Er Et Hk Hs Hx; cbv zeta.
  - destruct l; [|discriminate]. cbn [seq rev fold_left]. split; [assumption|]. right.
    exists (x :: r). cbn [app] in *. repeat split; try assumption.
    constructor; assumption.
  - rewrite rev_seq_S. cbn [fold_left].
    destruct (exists_last (l := l)) as [l' [y El]]; [intros ->; discriminate|]. subst l.
    rewrite app_length in Hl. cbn [length] in Hl. assert (Hl' : length l' = j) by lia.
    assert (Et' : nterm st = l' ++ y :: x :: (r ++ tail)) by (rewrite Et, <- app_assoc; reflexivity).
    pose proof (step_cases st l' y x (r ++ tail) Er Et' Hk) as SC. cbv zeta in SC. rewrite Hl' in SC.
    destruct SC as [Hk1 [[Hyx [Hn1 Hr1]]|[Hr1|[Hxy [Hn1 Hr1]]]]].
    + (* y before x already: x has settled; continue with y as the element to place *)
      rewrite <- app_assoc in Hs. cbn [app] in Hs.
      assert (Hly : Forall (fun z => ok z y) l' /\ StronglySorted ok (l' ++ r) /\ Forall (ok y) r).
      { clear - Hs. induction l' as [|z l' IHl]; cbn [app] in *.
        - inversion Hs; subst. repeat split; try constructor; assumption.
        - inversion Hs as [|? ? Hs' Hz]; subst. destruct (IHl Hs') as [A [B Cc]].
          apply Forall_app in Hz. destruct Hz as [Hz1 Hz2]. inversion Hz2; subst.
          repeat split; [constructor; assumption|constructor; [assumption|apply Forall_app; split; assumption]|assumption]. }
      destruct Hly as [Hly [Hs2 Hyr]].
      set (st1 := step_j small true rec st (S j)) in *.
      assert (P1 : nterm st1 = l' ++ y :: (x :: r) ++ tail) by (rewrite Hn1, Et'; reflexivity).
      assert (P2 : StronglySorted ok (l' ++ x :: r)).
      { clear - Hs Hyx Hx Hly. induction l' as [|z l' IHl]; cbn [app] in *.
        - inversion Hs; subst. constructor; assumption.
        - inversion Hs as [|? ? Hs' Hz]; subst. inversion Hly; subst.
          constructor; [apply IHl; assumption|].
          apply Forall_app in Hz. destruct Hz as [Hz1 Hz2]. inversion Hz2; subst.
          apply Forall_app. split; [assumption|]. constructor; [eapply ok_trans; eassumption|assumption]. }
      assert (P3 : Forall (ok y) (x :: r)) by (constructor; assumption).
      destruct (IH l' y (x :: r) tail st1 Hl' Hr1 P1 Hk1 P2 P3) as [K R].
      split; [assumption|]. destruct R as [R|[s [E1 [E2 [E3 E4]]]]]; [left; assumption|].
      right. exists s. cbn [length] in E3. repeat split; try assumption. lia.
    + (* a copy of x: the word denotes zero, the loops stop *)
      rewrite steps_stuck by assumption. split; [assumption|]. left. assumption.
    + (* swap: x moves one place to the left *)
      set (st1 := step_j small true rec st (S j)) in *.
      assert (P1 : nterm st1 = l' ++ x :: (y :: r) ++ tail) by (rewrite Hn1; reflexivity).
      assert (P2 : StronglySorted ok (l' ++ y :: r)) by (rewrite <- app_assoc in Hs; exact Hs).
      assert (P3 : Forall (ok x) (y :: r)) by (constructor; assumption).
      destruct (IH l' x (y :: r) tail st1 Hl' Hr1 P1 Hk1 P2 P3) as [K R].
      split; [assumption|]. destruct R as [R|[s [E1 [E2 [E3 E4]]]]]; [left; assumption|].
      right. exists s. cbn [length] in E3. repeat split; try assumption. lia.
Qed.

(* the outer loop: after the iterations 1..m the first m+1 factors are sorted *)
Lemma outer_sorted : forall m st s tail,
  nret st = false -> nterm st = s ++ tail -> s <> [] -> StronglySorted ok s -> keys_ok (nacc st) -> m <= length tail ->
  let st' := fold_left (fun st i => fold_left (step_j small true rec) (rev (seq 1 i)) st) (seq (length s) m) st in
  keys_ok (nacc st') /\
  (nret st' = true \/ exists s' tail', nterm st' = s' ++ tail' /\ StronglySorted ok s' /\ length s' = length s + m /\ length tail' = length tail - m /\ nret st' = false).
Proof.
  induction m as [|m IH]; intros st s tail Er Et Hne Hs Hk Hm; cbv zeta.
  - cbn [seq fold_left]. split; [assumption|]. right. exists s, tail. repeat split; try assumption; lia.
  - destruct tail as [|x tail]; [simpl in Hm; lia|]. cbn [seq fold_left].
    assert (P1 : nterm st = s ++ x :: [] ++ tail) by (rewrite Et; reflexivity).
    assert (P2 : StronglySorted ok (s ++ [])) by (rewrite app_nil_r; assumption).
    destruct (insert_sorted (length s) s x [] tail st eq_refl Er P1 Hk P2 (Forall_nil _)) as [K R].
    set (st1 := fold_left (step_j small true rec) (rev (seq 1 (length s))) st) in *.
    destruct R as [R|[s1 [E1 [E2 [E3 E4]]]]].
    + (* stopped: all later steps do nothing *)
      assert (St : forall is_ st0, nret st0 = true -> fold_left (fun st i => fold_left (step_j small true rec) (rev (seq 1 i)) st) is_ st0 = st0).
      { induction is_ as [|i is_ IHi]; intros st0 H0; [reflexivity|]. cbn [fold_left]. rewrite (steps_stuck _ st0 H0). apply IHi. exact H0. }
      rewrite St by assumption. split; [assumption|]. left. assumption.
    + cbn [length] in E3. rewrite Nat.add_0_r in E3.
      assert (Hne1 : s1 <> []) by (intros ->; discriminate).
      assert (Hm1 : m <= length tail) by (simpl in Hm; lia).
      rewrite <- E3.
      destruct (IH st1 s1 tail E4 E1 Hne1 E2 K Hm1) as [K2 R2]. split; [assumption|].
      destruct R2 as [R2|[s' [tail' [F1 [F2 [F3 [F4 F5]]]]]]]; [left; assumption|].
      right. exists s', tail'. cbn [length]. repeat split; try assumption; lia.
Qed.

Lemma body_sorted t c : keys_ok (nolt_body small true fsimplify rec t c).
Proof.
  unfold nolt_body, run_loops.
  set (st0 := {| nterm := t; ncoef := c; nacc := []; nret := false |}).
  assert (K0 : keys_ok (nacc st0)) by constructor.
  destruct t as [|a t'].
  - cbn [length Nat.sub seq fold_left]. cbn [nret nacc st0 nterm ncoef].
    unfold acc_add. apply iadd_keys; [constructor|]. unfold mk1, fsimplify. repeat constructor.
  - assert (E0 : nterm st0 = [a] ++ t') by reflexivity.
    assert (S0 : StronglySorted ok [a]) by (repeat constructor).
    destruct (outer_sorted (length t') st0 [a] t' eq_refl E0 ltac:(discriminate) S0 K0 (le_n _)) as [K R].
    cbn [length] in *. replace (S (length t') - 1) with (length t') by lia.
    set (st := fold_left _ (seq 1 (length t')) st0) in *.
    destruct R as [R|[s' [tail' [F1 [F2 [F3 [F4 F5]]]]]]].
    + rewrite R. exact K.
    + rewrite F5. unfold acc_add. apply iadd_keys; [exact K|].
      unfold mk1, fsimplify. constructor; [|constructor]. cbn [fst].
      assert (tail' = []) by (destruct tail'; [reflexivity|simpl in F4; lia]). subst tail'.
      rewrite F1, app_nil_r. apply sorted_adj_ok. exact F2.
Qed.
End Sort.

(* every fuel, every word: all returned terms are in normal order *)
Theorem nolt_sorted small : forall fuel t c, keys_ok (nolt small fuel true fsimplify t c).
Proof.
  induction fuel as [|fuel IH]; intros t c; [constructor|].
  cbn [nolt]. apply body_sorted. exact IH.
Qed.
Theorem no_fermi_term_sorted t c : is_normal_ordered_fermi (no_fermi_term t c) = true.
Proof.
  unfold is_normal_ordered_fermi, no_fermi_term. apply forallb_forall. intros tc Hin.
  pose proof (nolt_sorted small_tol (S (length t)) t c) as K. unfold keys_ok in K.
  rewrite Forall_forall in K. apply K. exact Hin.
Qed.
Theorem normal_ordered_fermi_sorted op : is_normal_ordered_fermi (normal_ordered_fermi op) = true.
Proof.
  unfold is_normal_ordered_fermi, normal_ordered_fermi.
  assert (G : forall acc, keys_ok acc -> keys_ok (fold_left (fun acc tc => iadd lfeqb small_tol acc (no_fermi_term (fst tc) (snd tc))) op acc)).
  { induction op as [|tc op IH]; intros acc Ha; [exact Ha|]. cbn [fold_left]. apply IH.
    apply iadd_keys; [exact Ha|]. apply (nolt_sorted small_tol). }
  apply forallb_forall. intros tc Hin. specialize (G [] ltac:(constructor)). unfold keys_ok in G.
  rewrite Forall_forall in G. apply G. exact Hin.
Qed.
