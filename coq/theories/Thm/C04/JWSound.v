(* The Jordan-Wigner model denotes, on every basis state, the Fock-space action of the
   fermionic operator (mode j on qubit j), for every FermionOperator. *)
From Coq Require Import QArith Qcanon NArith List Bool Ring Lia.
From OFV Require Import Base.Cplx Base.Lin Sem.PauliSem Sem.FermiSem Model.SymbolicOp Model.QubitOp
  Model.LadderOp Model.JordanWigner Thm.C01.QubitSimplify Thm.C01.SymHom Thm.C01.QubitHom.
Close Scope Qc_scope. Close Scope Q_scope.
Import ListNotations.

Notation "a ~ b" := (leq N.eqb a b) (at level 70).

Lemma zstring_S j : zstring (S j) = zstring j ++ [(N.of_nat j, PZ)].
Proof. unfold zstring. rewrite seq_S, map_app. reflexivity. Qed.

Lemma apply_zstring j s : apply_word (zstring j) s = (sgn (par s j), s).
Proof.
  induction j as [|j IH]; [reflexivity|].
  rewrite zstring_S, apply_word_app. simpl apply_word. unfold apply1; simpl.
  unfold cscale. rewrite IH. simpl. f_equal.
  rewrite Cmul_1_r. rewrite Cmul_comm, sgn_mul, xorb_comm. reflexivity.
Qed.

Lemma par_flip s m j : par (flip s m) j = xorb (N.ltb m (N.of_nat j)) (par s j).
Proof.
  induction j as [|j IH]; [simpl; destruct (N.ltb_spec m 0); [lia|reflexivity]|].
  cbn [par]. rewrite IH. destruct (N.eq_dec m (N.of_nat j)) as [->|NE].
  - rewrite bit_flip_same. destruct (N.ltb_spec (N.of_nat j) (N.of_nat (S j))); [|lia].
    destruct (N.ltb_spec (N.of_nat j) (N.of_nat j)); [lia|].
    destruct (bit s (N.of_nat j)), (par s j); reflexivity.
  - rewrite bit_flip_other by assumption.
    destruct (N.ltb_spec m (N.of_nat (S j))), (N.ltb_spec m (N.of_nat j)); try lia;
    destruct (bit s (N.of_nat j)), (par s j); reflexivity.
Qed.
Lemma par_flip_self s j : par (flip s j) (N.to_nat j) = par s (N.to_nat j).
Proof. rewrite par_flip. destruct (N.ltb_spec j (N.of_nat (N.to_nat j))); [lia|]. destruct (par s (N.to_nat j)); reflexivity. Qed.

Lemma qden_qmk t c s : qden (qmk t c) s ~ [cscale c (apply_word t s)].
Proof.
  intros k. unfold qmk, mk1, qden. pose proof (pact_simplify t c s k) as H.
  destruct (qsimplify t c) as [c' t']. simpl in *. exact H.
Qed.

Lemma qadd_exact_disjoint (a b : qop) :
  (forall t c, In (t, c) b -> dget pfeqb a t = None /\ small_tol c = false) ->
  True.
Proof. trivial. Qed.

Lemma teqb_app_diff (z : pword) j : teqb pfeqb (z ++ [(j, PY)]) (z ++ [(j, PX)]) = false.
Proof.
  induction z as [|g z IHz]; simpl.
  - unfold pfeqb; simpl. rewrite N.eqb_refl. reflexivity.
  - rewrite IHz. apply andb_false_r.
Qed.

(* the ladder image: exactness of its internal '+' is checked by computation per (action) since the
   two keys differ (X vs Y on qubit j) and the coefficients are +-1/2 *)
Lemma jw_ladder_den f s : qden (jw_ladder f) s ~ fapply1 f s.
Proof.
  destruct f as [j cr]. unfold jw_ladder. cbn [fst snd].
  set (z := zstring (N.to_nat j)).
  assert (HX : qsimplify (z ++ [(j, PX)]) Chalf = (Cmul Chalf C1, z ++ [(j, PX)]) /\
               forall c, qsimplify (z ++ [(j, PY)]) c = (Cmul c C1, z ++ [(j, PY)])).
  { assert (Hc : forall P, P <> PI -> canonical (z ++ [(j, P)])).
    { intros P HP. unfold z, canonical.
      assert (G : forall n k, (N.of_nat k + N.of_nat n = j)%N ->
                  canon_from (N.of_nat k) (map (fun i => (N.of_nat i, PZ)) (seq k n) ++ [(j, P)])).
      { induction n as [|n IHn]; intros k Hk; simpl.
        - constructor; simpl; [lia|assumption|constructor].
        - constructor; simpl; [lia|discriminate|].
          replace (N.succ (N.of_nat k)) with (N.of_nat (S k)) by lia. apply IHn. lia. }
      apply (G (N.to_nat j) 0%nat). lia. }
    split; [|intros c].
    - destruct (qsimplify_fixed _ Chalf (Hc PX ltac:(discriminate))) as [E|[E _]]; [exact E|].
      destruct z; discriminate.
    - destruct (qsimplify_fixed _ c (Hc PY ltac:(discriminate))) as [E|[E _]]; [exact E|].
      destruct z; discriminate. }
  destruct HX as [HX HY].
  intros k.
  unfold qadd, qmk, mk1. rewrite HX, HY.
  unfold iadd. cbn [fold_left fst snd].
  unfold iadd1. cbn [dget teqb].
  pose proof (teqb_app_diff z j) as Hne.
  rewrite Hne.
  assert (Hs : forall c, (c = Cmihalf \/ c = Cihalf) -> small_tol (Cadd C0 (Cmul c C1)) = false).
  { intros c [->| ->]; vm_compute; reflexivity. }
  rewrite Hs by (destruct cr; auto).
  cbn [dset teqb]. rewrite Hne. unfold qden, aop. cbn [flat_map fst snd]. rewrite app_nil_r.
  unfold pact, lscale. cbn [map fst snd app].
  rewrite !apply_word_app. cbn [apply_word]. unfold apply1. cbn [fst snd].
  unfold z. rewrite !apply_zstring. unfold cscale. cbn [fst snd].
  unfold fapply1. cbn [fst snd]. rewrite !par_flip_self.
  destruct cr, (bit s j); cbn [Bool.eqb sgn coeff];
    destruct (N.eqb k (flip s j)); try reflexivity;
    destruct (par s (N.to_nat j)); cbn [sgn]; ceq.
Qed.

Lemma fapply_word_app a b s : fapply_word (a ++ b) s ~ lbind (fapply_word b s) (fapply_word a).
Proof.
  induction a as [|f a IH]; simpl.
  - intros k. symmetry. apply (coeff_bind_ret N N.eqb).
  - intros k. rewrite (coeff_bind_leq N N.eqb N.eqb_spec k _ _ (fapply1 f) IH).
    rewrite lbind_lbind. reflexivity.
Qed.

(* qden of the running product: acc * L(f1) * ... * L(fn) *)
Lemma jw_term_fold t : forall acc s,
  qden (fold_left (fun acc f => qmul acc (jw_ladder f)) t acc) s ~ lbind (fapply_word t s) (qden acc).
Proof.
  induction t as [|f t IH]; intros acc s.
  - simpl. intros k. rewrite app_nil_r, coeff_scale. ring.
  - simpl fold_left. eapply leq_trans; [apply IH|].
    simpl fapply_word. rewrite lbind_lbind.
    apply leq_bind_ext. intros x.
    eapply leq_trans; [apply qmul_hom|].
    apply leq_bind; [exact N.eqb_spec|apply jw_ladder_den|intros; apply leq_refl].
Qed.

Theorem jw_term_den t c s : qden (jw_term t c) s ~ lscale c (fapply_word t s).
Proof.
  unfold jw_term. eapply leq_trans; [apply jw_term_fold|].
  intros k. rewrite (coeff_bind_ext N N.eqb k (fapply_word t s) (qden (qmk [] c)) (fun s' => lscale c [(C1, s')])).
  - rewrite (coeff_bind_scalef N N.eqb), (coeff_bind_ret N N.eqb), coeff_scale. reflexivity.
  - intros x k'. rewrite (qden_qmk [] c x k'). reflexivity.
Qed.

(* exactness of the outer accumulation: no `+=` prunes a non-zero coefficient *)
Section Outer.
Variable small : C -> bool.
Fixpoint jw_exact_from (acc : qop) (op : lop) : bool :=
  match op with
  | [] => true
  | (t, c) :: op' => iadd_exact pfactor pfeqb small acc (jw_term t c)
                     && jw_exact_from (iadd pfeqb small acc (jw_term t c)) op'
  end.

Lemma jw_fold_den op : forall acc s, jw_exact_from acc op = true ->
  qden (fold_left (fun acc tc => iadd pfeqb small acc (jw_term (fst tc) (snd tc))) op acc) s ~ qden acc s ++ fden op s.
Proof.
  induction op as [|[t c] op IH]; intros acc s H; cbn [fold_left fden flat_map fst snd].
  - rewrite app_nil_r. apply leq_refl.
  - cbn [jw_exact_from] in H. apply andb_true_iff in H. destruct H as [H1 H2].
    eapply leq_trans; [apply IH; exact H2|].
    intros k. unfold fden. rewrite !coeff_app.
    pose proof (add_hom pfactor pfeqb pfeqb_spec small pact acc (jw_term t c) s H1 k) as E.
    unfold qden at 1. rewrite E, coeff_app.
    fold (qden acc s). fold (qden (jw_term t c) s).
    rewrite (jw_term_den t c s k). ring.
Qed.
End Outer.
Definition jw_exact (op : lop) : bool := jw_exact_from small_tol [] op.

Theorem jw_sound op s : jw_exact op = true -> qden (jw op) s ~ fden op s.
Proof. intros H. unfold jw, jw_gen. eapply leq_trans; [apply jw_fold_den; exact H|]. apply leq_refl. Qed.

Lemma iadd_exact_Cis0 a b : iadd_exact pfactor pfeqb Cis0 a b = true.
Proof.
  revert a; induction b as [|[t c] b IH]; intros a; cbn [iadd_exact]; [reflexivity|].
  rewrite IH, andb_true_r. unfold iadd1_exact. destruct (Cis0 _); reflexivity.
Qed.
Lemma jw_exact_Cis0 op : forall acc, jw_exact_from Cis0 acc op = true.
Proof. induction op as [|[t c] op IH]; intros acc; cbn [jw_exact_from]; [reflexivity|]. rewrite iadd_exact_Cis0, IH. reflexivity. Qed.

(* unconditional: the exact-accumulation transform denotes the Fock action of every operator *)
Theorem jw0_sound op s : qden (jw0 op) s ~ fden op s.
Proof. unfold jw0, jw_gen. eapply leq_trans; [apply jw_fold_den; apply jw_exact_Cis0|]. apply leq_refl. Qed.
