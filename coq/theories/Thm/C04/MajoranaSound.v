(* jordan_wigner on MajoranaOperators: the model mjw0 (gamma_k -> Z_0..Z_{q-1} X_q | Y_q, k = 2q | 2q+1) denotes, on every
   basis state, the Fock-space action of the Majorana word with gamma_{2q} = a_q + a+_q and gamma_{2q+1} = i (a+_q - a_q). *)
From Coq Require Import QArith Qcanon NArith List Bool Ring Lia.
From OFV Require Import Base.Cplx Base.Lin Sem.PauliSem Sem.FermiSem Model.SymbolicOp Model.QubitOp
  Model.LadderOp Model.JordanWigner Model.MajoranaOp Thm.C01.QubitSimplify Thm.C01.SymHom Thm.C01.QubitHom Thm.C04.JWSound.
Close Scope Qc_scope. Close Scope Q_scope.
Import ListNotations.

Notation "a ~ b" := (leq N.eqb a b) (at level 70).

Definition gamma_lop (k : N) : lop :=
  let q := N.div k 2 in
  if N.odd k then [([(q, true)], Ci); ([(q, false)], Copp Ci)] else [([(q, true)], C1); ([(q, false)], C1)].
(* rightmost factor acts first *)
Fixpoint mapply_word (t : mterm) (s : N) : lin N :=
  match t with [] => [(C1, s)] | k :: t' => lbind (mapply_word t' s) (fden (gamma_lop k)) end.
Definition mden (op : mop) (s : N) : lin N := flat_map (fun tc => lscale (snd tc) (mapply_word (fst tc) s)) op.

Lemma gamma_den k s : qden (qmk (gamma_word k) C1) s ~ fden (gamma_lop k) s.
Proof.
  eapply leq_trans; [apply qden_qmk|].
  unfold gamma_word, gamma_lop. set (q := N.div k 2).
  rewrite apply_word_app. cbn [apply_word]. unfold apply1. cbn [fst snd].
  intros k'.
  destruct (N.odd k); cbn [fst snd]; rewrite apply_zstring; unfold cscale, fden; cbn [flat_map fst snd fapply_word lbind];
  unfold lbind, lscale, fapply1; cbn [flat_map map fst snd app]; rewrite par_flip_self;
  destruct (bit s q); cbn [Bool.eqb map app coeff fst snd sgn];
  destruct (N.eqb k' (flip s q)); try reflexivity;
  destruct (par s (N.to_nat q)); cbn [sgn]; ceq.
Qed.

Lemma mjw_term_fold t : forall acc s,
  qden (fold_left (fun acc k => qmul acc (qmk (gamma_word k) C1)) t acc) s ~ lbind (mapply_word t s) (qden acc).
Proof.
  induction t as [|f t IH]; intros acc s.
  - simpl. intros k. rewrite app_nil_r, coeff_scale. ring.
  - simpl fold_left. eapply leq_trans; [apply IH|].
    simpl mapply_word. rewrite lbind_lbind.
    apply leq_bind_ext. intros x.
    eapply leq_trans; [apply qmul_hom|].
    apply leq_bind; [exact N.eqb_spec|apply gamma_den|intros; apply leq_refl].
Qed.

Theorem mjw_term_den t c s : qden (mjw_term t c) s ~ lscale c (mapply_word t s).
Proof.
  unfold mjw_term. eapply leq_trans; [apply mjw_term_fold|].
  intros k. rewrite (coeff_bind_ext N N.eqb k (mapply_word t s) (qden (qmk [] c)) (fun s' => lscale c [(C1, s')])).
  - rewrite (coeff_bind_scalef N N.eqb), (coeff_bind_ret N N.eqb), coeff_scale. reflexivity.
  - intros x k'. rewrite (qden_qmk [] c x k'). reflexivity.
Qed.

Lemma mjw_fold_den op : forall acc s,
  qden (fold_left (fun acc tc => iadd pfeqb Cis0 acc (mjw_term (fst tc) (snd tc))) op acc) s ~ qden acc s ++ mden op s.
Proof.
  induction op as [|[t c] op IH]; intros acc s; cbn [fold_left mden flat_map fst snd].
  - rewrite app_nil_r. apply leq_refl.
  - eapply leq_trans; [apply IH|].
    intros k. unfold mden. rewrite !coeff_app.
    pose proof (add_hom pfactor pfeqb pfeqb_spec Cis0 pact acc (mjw_term t c) s (iadd_exact_Cis0 _ _) k) as E.
    unfold qden at 1. rewrite E, coeff_app.
    fold (qden acc s). fold (qden (mjw_term t c) s).
    rewrite (mjw_term_den t c s k). ring.
Qed.

(* every MajoranaOperator: the Jordan-Wigner image acts on each basis state as the Majorana word does on Fock space *)
Theorem mjw0_sound op s : qden (mjw0 op) s ~ mden op s.
Proof. unfold mjw0. eapply leq_trans; [apply mjw_fold_den|]. apply leq_refl. Qed.

(* non-vacuity: on Fock space gamma_k squares to the identity and distinct gammas anticommute (modes 0..3, all 16 states) *)
Example gamma_clifford :
  forallb (fun j => forallb (fun k => forallb (fun s => forallb (fun s' =>
     Ceqb (Cadd (coeff N.eqb s' (mapply_word [j; k] s)) (coeff N.eqb s' (mapply_word [k; j] s)))
          (if N.eqb j k && N.eqb s s' then Cadd C1 C1 else C0))
   (map N.of_nat (seq 0 16))) (map N.of_nat (seq 0 16))) (map N.of_nat (seq 0 8))) (map N.of_nat (seq 0 8)) = true.
Proof. vm_compute. reflexivity. Qed.
