(* [B] For every number of qubits n <= 7 (powers of two and not), the modelled Bravyi-Kitaev and
   Bravyi-Kitaev-tree ladder images form a valid encoding: W is a signed permutation of the 2^n
   occupation states with W|0> = |0>, every ladder image is the Fock ladder operator transported
   by W (hence CAR, isospectrality), and number operators are diagonal.  Complete enumeration. *)
From Coq Require Import ZArith NArith List Bool.
From OFV Require Import Base.Cplx Base.Lin Sem.PauliSem Sem.FermiSem Model.SymbolicOp Model.QubitOp Model.LadderOp
  Model.BravyiKitaev Check.Encoding.
Import ListNotations.

Definition ladder_imgs (img : lfactor -> Z -> qop) (n : nat) : list qop :=
  map (fun m => img (N.of_nat m, true) (Z.of_nat n)) (seq 0 n).
Definition encoding_valid (img : lfactor -> Z -> qop) (n : nat) : bool :=
  let L := ladder_imgs img n in
  W_signed_perm n L &&
  forallb (fun m => forallb (fun act =>
      encoding_check n L [([(N.of_nat m, act)], C1)] (img (N.of_nat m, act) (Z.of_nat n))) [true; false]
      && diagonal_op (qmul (img (N.of_nat m, true) (Z.of_nat n)) (img (N.of_nat m, false) (Z.of_nat n))))
    (seq 0 n).

Theorem bk_encoding_valid_upto_7 : forallb (encoding_valid bk_ladder) (seq 1 7) = true.
Proof. vm_compute. reflexivity. Qed.
Theorem bk_tree_encoding_valid_upto_7 : forallb (encoding_valid bkt_ladder) (seq 1 7) = true.
Proof. vm_compute. reflexivity. Qed.
