(* Linear-encoding argument for the Bravyi-Kitaev ladder images, for every number of qubits n and mode i
   for which the (decidable, computed) mask identities of the index sets hold. *)
From Coq Require Import ZArith NArith Arith List Bool Lia Ring.
From OFV Require Import Base.Cplx Base.Lin Sem.PauliSem Sem.FermiSem Model.SymbolicOp Model.QubitOp Model.LadderOp
  Model.BinaryPoly Model.JordanWigner Model.BravyiKitaev Thm.C01.QubitSimplify Thm.C01.SymHom Thm.C01.QubitHom Thm.C04.JWSound Thm.C05.Sets.
Import ListNotations.

(* ---------- parity of bit masks ---------- *)
Lemma parity_double x : parity (N.double x) = parity x.
Proof. destruct x; reflexivity. Qed.
Lemma parity_succ_double x : parity (N.succ_double x) = negb (parity x).
Proof. destruct x as [|p]; [reflexivity|]. simpl. rewrite Nat.odd_succ. rewrite <- Nat.negb_odd. reflexivity. Qed.
Lemma parity_pos_lxor p q : parity (Pos.lxor p q) = xorb (Nat.odd (popcount_pos p)) (Nat.odd (popcount_pos q)).
Proof.
  revert q. induction p as [p IH|p IH|]; intros [q|q|]; cbn [Pos.lxor popcount_pos];
    rewrite ?parity_double, ?parity_succ_double, ?IH; cbn [parity popcount_pos];
    rewrite ?Nat.odd_succ, <- ?Nat.negb_odd;
    repeat match goal with |- context [Nat.odd (popcount_pos ?x)] => destruct (Nat.odd (popcount_pos x)) end; reflexivity.
Qed.
Lemma parity_lxor a b : parity (N.lxor a b) = xorb (parity a) (parity b).
Proof.
  destruct a as [|p], b as [|q]; cbn [N.lxor parity].
  - reflexivity.
  - destruct (Nat.odd (popcount_pos q)); reflexivity.
  - destruct (Nat.odd (popcount_pos p)); reflexivity.
  - apply parity_pos_lxor.
Qed.
Lemma land_lxor_r v a b : N.land v (N.lxor a b) = N.lxor (N.land v a) (N.land v b).
Proof.
  apply N.bits_inj. intros k. rewrite N.land_spec, !N.lxor_spec, !N.land_spec.
  destruct (N.testbit v k), (N.testbit a k), (N.testbit b k); reflexivity.
Qed.
Lemma parity_land_pow2 v j : parity (N.land v (N.pow 2 j)) = N.testbit v j.
Proof.
  assert (E : N.land v (2 ^ j) = if N.testbit v j then (2 ^ j)%N else 0%N).
  { apply N.bits_inj. intros k. rewrite N.land_spec. destruct (N.eq_dec j k) as [->|Hne].
    - rewrite N.pow2_bits_true. destruct (N.testbit v k); [rewrite N.pow2_bits_true|]; reflexivity.
    - rewrite N.pow2_bits_false by assumption. rewrite andb_false_r.
      destruct (N.testbit v j); [rewrite N.pow2_bits_false by assumption|]; reflexivity. }
  rewrite E. destruct (N.testbit v j); [|reflexivity].
  assert (P : forall m, parity (N.pow 2 (N.of_nat m)) = true).
  { induction m as [|m IHm]; [reflexivity|]. rewrite Nat2N.inj_succ, N.pow_succ_r'.
    replace (2 * 2 ^ N.of_nat m)%N with (N.double (2 ^ N.of_nat m)) by (rewrite N.double_spec; reflexivity).
    rewrite parity_double. exact IHm. }
  rewrite <- (N2Nat.id j). apply P.
Qed.

(* ---------- masks of index lists, strings of X and Z ---------- *)
Definition zN (j : Z) : N := Z.to_N j.
Fixpoint xmask (l : list Z) : N := match l with [] => 0%N | j :: l' => N.lxor (N.pow 2 (zN j)) (xmask l') end.
Fixpoint zpar (s : N) (l : list Z) : bool := match l with [] => false | j :: l' => xorb (bit s (zN j)) (zpar s l') end.

Lemma zpar_mask s l : zpar s l = parity (N.land s (xmask l)).
Proof.
  induction l as [|j l IH]; cbn [zpar xmask]; [rewrite N.land_0_r; reflexivity|].
  rewrite land_lxor_r, parity_lxor, parity_land_pow2, IH. reflexivity.
Qed.
Lemma apply_pwX l s : apply_word (pw PX l) s = (C1, N.lxor s (xmask l)).
Proof.
  induction l as [|j l IH]; cbn [pw map apply_word xmask]; [rewrite N.lxor_0_r; reflexivity|].
  fold (pw PX l). rewrite IH. unfold apply1. cbn [fst snd]. unfold flip. fold (zN j).
  replace (Cmul C1 C1) with C1 by ring. f_equal. rewrite N.lxor_assoc. f_equal. apply N.lxor_comm.
Qed.
Lemma apply_pwZ l s : apply_word (pw PZ l) s = (sgn (zpar s l), s).
Proof.
  induction l as [|j l IH]; cbn [pw map apply_word zpar]; [reflexivity|].
  fold (pw PZ l). rewrite IH. unfold apply1. cbn [fst snd]. fold (zN j). f_equal. apply sgn_mul.
Qed.

(* ---------- the encoding: qubit k stores the parity of the modes in FN k ---------- *)
Definition FN (k : N) : N := Z.to_N (Fmask (Z.of_N k)).
Fixpoint genmask (g : N -> bool) (n : nat) : N :=
  match n with
  | O => 0%N
  | S m => N.lxor (if g (N.of_nat m) then N.pow 2 (N.of_nat m) else 0%N) (genmask g m)
  end.
Definition enc (n : nat) (v : N) : N := genmask (fun k => parity (N.land v (FN k))) n.
Definition colmask (i : N) (n : nat) : N := genmask (fun k => N.testbit (FN k) i) n.
Fixpoint xorF (l : list Z) : N := match l with [] => 0%N | k :: l' => N.lxor (FN (zN k)) (xorF l') end.

Lemma gen_bit (g : N -> bool) n k : N.testbit (genmask g n) k = (N.ltb k (N.of_nat n)) && g k.
Proof.
  induction n as [|n IH].
  - cbn [genmask]. rewrite N.bits_0. destruct (N.ltb_spec k (N.of_nat 0)); [lia|reflexivity].
  - cbn [genmask]. rewrite N.lxor_spec, IH. destruct (N.eq_dec k (N.of_nat n)) as [->|Hne].
    + destruct (g (N.of_nat n)); [rewrite N.pow2_bits_true|rewrite N.bits_0];
      destruct (N.ltb_spec (N.of_nat n) (N.of_nat n)); try lia; destruct (N.ltb_spec (N.of_nat n) (N.of_nat (S n))); try lia; reflexivity.
    + assert (E : N.testbit (if g (N.of_nat n) then (2 ^ N.of_nat n)%N else 0%N) k = false).
      { destruct (g (N.of_nat n)); [apply N.pow2_bits_false; congruence|apply N.bits_0]. }
      rewrite E. destruct (N.ltb_spec k (N.of_nat n)), (N.ltb_spec k (N.of_nat (S n))); try lia; destruct (g k); reflexivity.
Qed.
Lemma enc_bit n v k : N.testbit (enc n v) k = (N.ltb k (N.of_nat n)) && parity (N.land v (FN k)).
Proof. exact (gen_bit (fun k => parity (N.land v (FN k))) n k). Qed.
Lemma colmask_bit i n k : N.testbit (colmask i n) k = (N.ltb k (N.of_nat n)) && N.testbit (FN k) i.
Proof. exact (gen_bit (fun k => N.testbit (FN k) i) n k). Qed.

Lemma enc_flip n v i : enc n (flip v i) = N.lxor (enc n v) (colmask i n).
Proof.
  apply N.bits_inj. intros k. rewrite N.lxor_spec, !enc_bit, colmask_bit. unfold flip.
  rewrite (N.land_comm (N.lxor v (2 ^ i))), land_lxor_r, parity_lxor, (N.land_comm (FN k) v), parity_land_pow2.
  destruct (N.ltb k (N.of_nat n)); cbn [andb]; [reflexivity|reflexivity].
Qed.
Lemma zpar_enc n v l : (forall k, In k l -> (0 <= k < Z.of_nat n)%Z) -> zpar (enc n v) l = parity (N.land v (xorF l)).
Proof.
  induction l as [|k l IH]; intros H; cbn [zpar xorF]; [rewrite N.land_0_r; reflexivity|].
  rewrite land_lxor_r, parity_lxor, <- IH by (intros; apply H; right; assumption).
  f_equal. unfold bit. rewrite enc_bit. specialize (H k (or_introl eq_refl)).
  destruct (N.ltb_spec (zN k) (N.of_nat n)); [reflexivity|unfold zN in *; lia].
Qed.
Lemma ones_bit n m : N.testbit (N.ones n) m = N.ltb m n.
Proof.
  destruct (N.ltb_spec m n); [apply N.ones_spec_low; assumption|apply N.ones_spec_high; assumption].
Qed.
Lemma parity_ones v i : parity (N.land v (N.ones (N.of_nat i))) = par v i.
Proof.
  induction i as [|i IH]; [cbn [par]; rewrite N.land_0_r; reflexivity|].
  assert (E : N.ones (N.of_nat (S i)) = N.lxor (N.pow 2 (N.of_nat i)) (N.ones (N.of_nat i))).
  { apply N.bits_inj. intros k. rewrite N.lxor_spec, !ones_bit.
    destruct (N.eq_dec (N.of_nat i) k) as [<-|Hne].
    - rewrite N.pow2_bits_true. destruct (N.ltb_spec (N.of_nat i) (N.of_nat (S i))), (N.ltb_spec (N.of_nat i) (N.of_nat i)); try lia; reflexivity.
    - rewrite N.pow2_bits_false by assumption. destruct (N.ltb_spec k (N.of_nat (S i))), (N.ltb_spec k (N.of_nat i)); try lia; reflexivity. }
  rewrite E, land_lxor_r, parity_lxor, parity_land_pow2, IH. reflexivity.
Qed.
Lemma xmask_bit_notin l k : (forall j, In j l -> zN j <> k) -> N.testbit (xmask l) k = false.
Proof.
  induction l as [|j l IH]; intros H; cbn [xmask]; [apply N.bits_0|].
  rewrite N.lxor_spec, IH by (intros; apply H; right; assumption).
  rewrite N.pow2_bits_false by (apply H; left; reflexivity). reflexivity.
Qed.

(* ---------- the ladder images ---------- *)
Definition emap (n : nat) (l : lin N) : lin N := map (fun x => (fst x, enc n (snd x))) l.

Definition bk_ok (n i : nat) : bool :=
  let zi := Z.of_nat i in let zn := Z.of_nat n in
  let U := update_set zi zn in let P := parity_set zi in let O := occupation_set zi in
  let S := zremove zi (zsymdiff P O) in
  (i <? n)%nat
  && N.eqb (xmask (zi :: U)) (colmask (N.of_nat i) n)
  && N.eqb (xorF P) (N.ones (N.of_nat i))
  && N.eqb (xorF O) (N.pow 2 (N.of_nat i))
  && N.eqb (xmask S) (N.lxor (N.lxor (xmask P) (xmask O)) (N.pow 2 (N.of_nat i)))
  && forallb (fun k => (0 <=? k)%Z && (k <? zn)%Z) (P ++ O ++ S)
  && forallb (fun k => (0 <=? k)%Z && negb (k =? zi)%Z) (U ++ S)
  && iadd_exact pfactor pfeqb small_tol (qmk (bk_c zi zn) Chalf) (qmk (bk_d zi zn) Cmihalf)
  && iadd_exact pfactor pfeqb small_tol (qmk (bk_c zi zn) Chalf) (negop pfactor (qmk (bk_d zi zn) Cmihalf)).

Lemma in_range_zN (l : list Z) zn : forallb (fun k => (0 <=? k)%Z && (k <? zn)%Z) l = true ->
  forall k, In k l -> (0 <= k < zn)%Z.
Proof. intros H k Hk. rewrite forallb_forall in H. specialize (H k Hk). apply andb_true_iff in H. destruct H as [H1 H2]. apply Z.leb_le in H1. apply Z.ltb_lt in H2. lia. Qed.

Theorem bk_ladder_den n i act v : bk_ok n i = true ->
  qden (bk_ladder (N.of_nat i, act) (Z.of_nat n)) (enc n v) ~ emap n (fapply1 (N.of_nat i, act) v).
Proof.
  unfold bk_ok. cbv zeta. intros H.
  apply andb_true_iff in H; destruct H as [H Hsub]. apply andb_true_iff in H; destruct H as [H Hadd].
  apply andb_true_iff in H; destruct H as [H Hnot]. apply andb_true_iff in H; destruct H as [H Hrange].
  apply andb_true_iff in H; destruct H as [H HS]. apply andb_true_iff in H; destruct H as [H HO].
  apply andb_true_iff in H; destruct H as [H HP]. apply andb_true_iff in H; destruct H as [H HU].
  apply N.eqb_eq in HS, HO, HP, HU.
  apply Nat.ltb_lt in H.
  set (zi := Z.of_nat i) in *. set (zn := Z.of_nat n) in *.
  set (U := update_set zi zn) in *. set (P := parity_set zi) in *. set (O := occupation_set zi) in *.
  set (S := zremove zi (zsymdiff P O)) in *.
  assert (EzN : zN zi = N.of_nat i) by (unfold zN, zi; lia).
  pose proof (in_range_zN _ _ Hrange) as Hr.
  assert (HrP : forall k, In k P -> (0 <= k < Z.of_nat n)%Z) by (intros; apply Hr; apply in_or_app; left; assumption).
  assert (HrO : forall k, In k O -> (0 <= k < Z.of_nat n)%Z) by (intros; apply Hr; apply in_or_app; right; apply in_or_app; left; assumption).
  assert (HrS : forall k, In k S -> (0 <= k < Z.of_nat n)%Z) by (intros; apply Hr; apply in_or_app; right; apply in_or_app; right; assumption).
  assert (HnotU : forall j, In j U -> zN j <> N.of_nat i).
  { intros j Hj. rewrite forallb_forall in Hnot. specialize (Hnot j (in_or_app _ _ _ (or_introl Hj))).
    apply andb_true_iff in Hnot. destruct Hnot as [N1 N2]. apply Z.leb_le in N1. apply negb_true_iff, Z.eqb_neq in N2. unfold zN, zi in *. lia. }
  (* the two words on an encoded state *)
  set (w := enc n v).
  assert (Ew' : N.lxor w (xmask (zi :: U)) = enc n (flip v (N.of_nat i))) by (rewrite HU; symmetry; apply enc_flip).
  assert (EparP : zpar w P = par v i) by (unfold w; rewrite (zpar_enc n v P HrP), HP; apply parity_ones).
  assert (EparO : zpar w O = bit v (N.of_nat i)) by (unfold w; rewrite (zpar_enc n v O HrO), HO; apply parity_land_pow2).
  assert (EparS : zpar w S = xorb (xorb (par v i) (bit v (N.of_nat i))) (bit w (N.of_nat i))).
  { rewrite zpar_mask, HS, !land_lxor_r, !parity_lxor, parity_land_pow2, <- !zpar_mask, EparP, EparO. reflexivity. }
  assert (Ec : apply_word (bk_c zi zn) w = (sgn (par v i), enc n (flip v (N.of_nat i)))).
  { unfold bk_c. fold U P. rewrite apply_word_app, apply_pwZ, apply_pwX. unfold cscale. cbn [fst snd].
    rewrite EparP, Ew'. f_equal. ring. }
  assert (Ed : apply_word (bk_d zi zn) w =
               (Cmul Ci (sgn (xorb (par v i) (bit v (N.of_nat i)))), enc n (flip v (N.of_nat i)))).
  { unfold bk_d. fold U P O S. rewrite apply_word_cons, apply_word_app, apply_pwZ, apply_pwX.
    unfold cscale, then1, apply1. cbn [fst snd]. fold (zN zi). rewrite EzN.
    assert (Eb : bit (N.lxor w (xmask U)) (N.of_nat i) = bit w (N.of_nat i)).
    { unfold bit. rewrite N.lxor_spec, (xmask_bit_notin U (N.of_nat i) HnotU). destruct (N.testbit w (N.of_nat i)); reflexivity. }
    rewrite Eb, EparS. f_equal.
    - destruct (par v i), (bit v (N.of_nat i)), (bit w (N.of_nat i)); cbn [xorb sgn]; ceq.
    - rewrite <- Ew'. unfold flip. cbn [xmask]. rewrite EzN. rewrite N.lxor_assoc. f_equal. apply N.lxor_comm. }
  unfold bk_ladder. cbn [fst snd]. rewrite nat_N_Z. fold zi zn.
  intros k. destruct act.
  - rewrite (qadd_hom _ _ w Hadd k), coeff_app, (qden_qmk _ _ w k), (qden_qmk _ _ w k). fold w. rewrite Ec, Ed.
    unfold fapply1, emap, cscale. cbn [fst snd]. rewrite Nat2N.id.
    destruct (bit v (N.of_nat i)), (par v i); cbn [Bool.eqb xorb sgn map coeff fst snd];
      destruct (N.eqb k (enc n (flip v (N.of_nat i)))); ceq.
  - rewrite (qsub_hom _ _ w Hsub k), coeff_app, coeff_scale, (qden_qmk _ _ w k), (qden_qmk _ _ w k). fold w. rewrite Ec, Ed.
    unfold fapply1, emap, cscale. cbn [fst snd]. rewrite Nat2N.id.
    destruct (bit v (N.of_nat i)), (par v i); cbn [Bool.eqb xorb sgn map coeff fst snd];
      destruct (N.eqb k (enc n (flip v (N.of_nat i)))); ceq.
Qed.

(* ---------- words and operators ---------- *)
Lemma lbind_emap n l (g : N -> lin N) : lbind (emap n l) g = lbind l (fun x => g (enc n x)).
Proof. induction l as [|[c x] l IH]; [reflexivity|]. unfold emap, lbind in *. cbn [map flat_map fst snd]. rewrite IH. reflexivity. Qed.
Lemma emap_app n a b : emap n (a ++ b) = emap n a ++ emap n b.
Proof. unfold emap. apply map_app. Qed.
Lemma emap_scale n c l : emap n (lscale c l) = lscale c (emap n l).
Proof. unfold emap, lscale. rewrite !map_map. reflexivity. Qed.
Lemma coeff_emap_leq n a b : a ~ b -> emap n a ~ emap n b.
Proof.
  intros H k. 
  assert (G : forall l, coeff N.eqb k (emap n l) = coeff N.eqb k (lbind l (fun x => [(C1, enc n x)]))).
  { induction l as [|[c x] l IH]; [reflexivity|].
    change (emap n ((c, x) :: l)) with ((c, enc n x) :: emap n l).
    change (lbind ((c, x) :: l) (fun x => [(C1, enc n x)])) with (lscale c [(C1, enc n x)] ++ lbind l (fun x => [(C1, enc n x)])).
    rewrite coeff_app, coeff_scale. cbn [coeff fst snd]. rewrite IH. destruct (N.eqb k (enc n x)); ring. }
  rewrite !G. apply (coeff_bind_leq N N.eqb N.eqb_spec). assumption.
Qed.

Definition word_ok (n : nat) (t : lword) : bool := forallb (fun f => bk_ok n (N.to_nat (fst f))) t.

Lemma bk_term_fold n t : word_ok n t = true -> forall acc v,
  qden (fold_left (fun acc f => qmul acc (bk_ladder f (Z.of_nat n))) t acc) (enc n v)
  ~ lbind (fapply_word t v) (fun x => qden acc (enc n x)).
Proof.
  induction t as [|f t IH]; intros Hok acc v.
  - simpl. intros k. rewrite app_nil_r, coeff_scale. ring.
  - cbn [word_ok forallb] in Hok. apply andb_true_iff in Hok. destruct Hok as [Hf Ht].
    simpl fold_left. eapply leq_trans; [apply (IH Ht)|].
    simpl fapply_word. rewrite lbind_lbind.
    apply leq_bind_ext. intros y.
    eapply leq_trans; [apply qmul_hom|].
    rewrite <- lbind_emap.
    apply leq_bind; [exact N.eqb_spec| |intros; apply leq_refl].
    destruct f as [j act]. cbn [fst] in Hf.
    pose proof (bk_ladder_den n (N.to_nat j) act y Hf) as L. rewrite N2Nat.id in L. exact L.
Qed.

Theorem bk_term_den n t c v : word_ok n t = true ->
  qden (bk_term (Z.of_nat n) t c) (enc n v) ~ emap n (lscale c (fapply_word t v)).
Proof.
  intros Hok. unfold bk_term. eapply leq_trans; [apply (bk_term_fold n t Hok)|].
  intros k.
  rewrite (coeff_bind_ext N N.eqb k (fapply_word t v) (fun x => qden (qmk [] c) (enc n x)) (fun x => lscale c [(C1, enc n x)])).
  - rewrite emap_scale, coeff_scale, (coeff_bind_scalef N N.eqb). f_equal.
    generalize (fapply_word t v). intros l. induction l as [|[c0 x] l IHl]; [reflexivity|].
    change (emap n ((c0, x) :: l)) with ((c0, enc n x) :: emap n l).
    change (lbind ((c0, x) :: l) (fun x => [(C1, enc n x)])) with (lscale c0 [(C1, enc n x)] ++ lbind l (fun x => [(C1, enc n x)])).
    rewrite coeff_app, coeff_scale. cbn [coeff fst snd]. rewrite <- IHl. destruct (N.eqb k (enc n x)); ring.
  - intros x k'. rewrite (qden_qmk [] c (enc n x) k'). reflexivity.
Qed.

Definition op_ok (n : nat) (op : lop) : bool := forallb (fun tc => word_ok n (fst tc)) op.

Lemma bk_fold_den n op : op_ok n op = true -> forall acc v,
  qden (fold_left (fun acc tc => iadd pfeqb Cis0 acc (bk_term (Z.of_nat n) (fst tc) (snd tc))) op acc) (enc n v)
  ~ qden acc (enc n v) ++ emap n (fden op v).
Proof.
  induction op as [|[t c] op IH]; intros Hok acc v; cbn [fold_left fden flat_map fst snd].
  - rewrite app_nil_r. apply leq_refl.
  - cbn [op_ok forallb fst] in Hok. apply andb_true_iff in Hok. destruct Hok as [Ht Hop].
    eapply leq_trans; [apply (IH Hop)|].
    intros k. rewrite emap_app, !coeff_app.
    pose proof (add_hom pfactor pfeqb pfeqb_spec Cis0 pact acc (bk_term (Z.of_nat n) t c) (enc n v) (iadd_exact_Cis0 _ _) k) as E.
    unfold qden at 1. rewrite E, coeff_app.
    fold (qden acc (enc n v)). fold (qden (bk_term (Z.of_nat n) t c) (enc n v)).
    rewrite (bk_term_den n t c v Ht k). unfold fden. ring.
Qed.

(* the exact-accumulation Bravyi-Kitaev transform carries the Fock action through the encoding *)
Theorem bk0_sound n op v : op_ok n op = true ->
  qden (bk_gen Cis0 op (Z.of_nat n)) (enc n v) ~ emap n (fden op v).
Proof. intros H. unfold bk_gen. eapply leq_trans; [apply (bk_fold_den n op H)|]. apply leq_refl. Qed.

(* the encoding is injective on n-bit occupation states (so the transported operator is isospectral) *)
Theorem enc_injective n v v' : (forall i, (i < n)%nat -> bk_ok n i = true) ->
  (v < 2 ^ N.of_nat n)%N -> (v' < 2 ^ N.of_nat n)%N -> enc n v = enc n v' -> v = v'.
Proof.
  intros Hall Hv Hv' E. apply N.bits_inj. intros k.
  destruct (N.ltb_spec k (N.of_nat n)) as [Hk|Hk].
  - specialize (Hall (N.to_nat k) ltac:(lia)). unfold bk_ok in Hall. cbv zeta in Hall.
    apply andb_true_iff in Hall; destruct Hall as [Hall _]. apply andb_true_iff in Hall; destruct Hall as [Hall _].
    apply andb_true_iff in Hall; destruct Hall as [Hall _]. apply andb_true_iff in Hall; destruct Hall as [Hall Hrange].
    apply andb_true_iff in Hall; destruct Hall as [Hall _]. apply andb_true_iff in Hall; destruct Hall as [Hall HO].
    apply N.eqb_eq in HO. rewrite N2Nat.id in HO.
    pose proof (in_range_zN _ _ Hrange) as Hr.
    set (O := occupation_set (Z.of_nat (N.to_nat k))) in *.
    assert (HrO : forall j, In j O -> (0 <= j < Z.of_nat n)%Z) by (intros; apply Hr; apply in_or_app; right; apply in_or_app; left; assumption).
    pose proof (zpar_enc n v O HrO) as A. pose proof (zpar_enc n v' O HrO) as B.
    rewrite HO, parity_land_pow2 in A, B. rewrite <- A, <- B, E. reflexivity.
  - rewrite <- (N.mod_small v (2 ^ N.of_nat n)) by assumption. rewrite <- (N.mod_small v' (2 ^ N.of_nat n)) by assumption.
    rewrite !N.mod_pow2_bits_high by assumption. reflexivity.
Qed.

(* ---------- the computed side conditions, and the packaged statement ---------- *)
Definition bk_table_ok (nmax : nat) : bool := forallb (fun n => forallb (fun i => bk_ok n i) (seq 0 n)) (seq 1 nmax).
Theorem bk_table_128 : bk_table_ok 128 = true.
Proof. vm_compute. reflexivity. Qed.

Definition modes_lt (n : nat) (op : lop) : bool :=
  forallb (fun tc => forallb (fun f : lfactor => N.ltb (fst f) (N.of_nat n)) (fst tc)) op.

Lemma table_lookup nmax n i : bk_table_ok nmax = true -> (1 <= n <= nmax)%nat -> (i < n)%nat -> bk_ok n i = true.
Proof.
  unfold bk_table_ok. intros H Hn Hi. rewrite forallb_forall in H.
  specialize (H n ltac:(apply in_seq; lia)). rewrite forallb_forall in H. apply H. apply in_seq. lia.
Qed.
Lemma modes_lt_ok nmax n op : bk_table_ok nmax = true -> (1 <= n <= nmax)%nat -> modes_lt n op = true -> op_ok n op = true.
Proof.
  intros Ht Hn Hm. unfold op_ok, word_ok, modes_lt in *. rewrite forallb_forall in *. intros tc Htc.
  specialize (Hm tc Htc). rewrite forallb_forall in *. intros f Hf. specialize (Hm f Hf).
  apply N.ltb_lt in Hm. apply (table_lookup nmax n); [assumption|assumption|lia].
Qed.

(* [F in operators and states, B in n] for every n_qubits <= 128, EVERY fermionic operator on modes < n and
   EVERY occupation state: the Bravyi-Kitaev image acts on the encoded state as the operator acts on the state *)
Theorem bk_sound_upto_128 n op v : (1 <= n <= 128)%nat -> modes_lt n op = true ->
  qden (bk_gen Cis0 op (Z.of_nat n)) (enc n v) ~ emap n (fden op v).
Proof. intros Hn Hm. apply bk0_sound. exact (modes_lt_ok 128 n op bk_table_128 Hn Hm). Qed.
Theorem bk_encoding_injective_upto_128 n v v' : (1 <= n <= 128)%nat ->
  (v < 2 ^ N.of_nat n)%N -> (v' < 2 ^ N.of_nat n)%N -> enc n v = enc n v' -> v = v'.
Proof. intros Hn. apply enc_injective. intros i Hi. exact (table_lookup 128 n i bk_table_128 Hn Hi). Qed.
(* non-vacuity: n = 5, a+_3 on |00000> gives the encoded |01000> = qubits 3 (F(3) = {0..3}) ... *)
Example bk_example : enc 5 8%N = 8%N /\ enc 5 1%N = 11%N.
Proof. split; vm_compute; reflexivity. Qed.
