(* The linear-encoding argument once more, generically in the storage scheme F (qubit k stores the parity of
   the modes in F k) and in the ladder images, instantiated for bravyi_kitaev_tree: for every n_qubits <= 40,
   every FermionOperator on modes < n and every occupation state, the (exactly accumulated) tree transform
   acts on the encoded state as the operator acts on the state. *)
From Coq Require Import ZArith NArith Arith List Bool Lia Ring.
From OFV Require Import Base.Cplx Base.Lin Sem.PauliSem Sem.FermiSem Model.SymbolicOp Model.QubitOp Model.LadderOp
  Model.BinaryPoly Model.JordanWigner Model.BravyiKitaev Thm.C01.QubitSimplify Thm.C01.SymHom Thm.C01.QubitHom Thm.C04.JWSound
  Thm.C05.Sets Thm.C05.BKLinear.
Import ListNotations.

Section Scheme.
Variable F : N -> N.
Definition encF (n : nat) (v : N) : N := genmask (fun k => parity (N.land v (F k))) n.
Definition colmaskF (i : N) (n : nat) : N := genmask (fun k => N.testbit (F k) i) n.
Fixpoint xorFF (l : list Z) : N := match l with [] => 0%N | k :: l' => N.lxor (F (zN k)) (xorFF l') end.
Definition emapF (n : nat) (l : lin N) : lin N := map (fun x => (fst x, encF n (snd x))) l.

Lemma encF_bit n v k : N.testbit (encF n v) k = (N.ltb k (N.of_nat n)) && parity (N.land v (F k)).
Proof. exact (gen_bit (fun k => parity (N.land v (F k))) n k). Qed.
Lemma colmaskF_bit i n k : N.testbit (colmaskF i n) k = (N.ltb k (N.of_nat n)) && N.testbit (F k) i.
Proof. exact (gen_bit (fun k => N.testbit (F k) i) n k). Qed.
Lemma encF_flip n v i : encF n (flip v i) = N.lxor (encF n v) (colmaskF i n).
Proof.
  apply N.bits_inj. intros k. rewrite N.lxor_spec, !encF_bit, colmaskF_bit. unfold flip.
  rewrite (N.land_comm (N.lxor v (2 ^ i))), land_lxor_r, parity_lxor, (N.land_comm (F k) v), parity_land_pow2.
  destruct (N.ltb k (N.of_nat n)); cbn [andb]; reflexivity.
Qed.
Lemma zpar_encF n v l : (forall k, In k l -> (0 <= k < Z.of_nat n)%Z) -> zpar (encF n v) l = parity (N.land v (xorFF l)).
Proof.
  induction l as [|k l IH]; intros H; cbn [zpar xorFF]; [rewrite N.land_0_r; reflexivity|].
  rewrite land_lxor_r, parity_lxor, <- IH by (intros; apply H; right; assumption).
  f_equal. unfold bit. rewrite encF_bit. specialize (H k (or_introl eq_refl)).
  destruct (N.ltb_spec (zN k) (N.of_nat n)); [reflexivity|unfold zN in *; lia].
Qed.
Lemma lbind_emapF n l (g : N -> lin N) : lbind (emapF n l) g = lbind l (fun x => g (encF n x)).
Proof. induction l as [|[c x] l IH]; [reflexivity|]. unfold emapF, lbind in *. cbn [map flat_map fst snd]. rewrite IH. reflexivity. Qed.
Lemma emapF_app n a b : emapF n (a ++ b) = emapF n a ++ emapF n b.
Proof. unfold emapF. apply map_app. Qed.
Lemma emapF_scale n c l : emapF n (lscale c l) = lscale c (emapF n l).
Proof. unfold emapF, lscale. rewrite !map_map. reflexivity. Qed.
Lemma coeff_emapF_bind n k l : coeff N.eqb k (emapF n l) = coeff N.eqb k (lbind l (fun x => [(C1, encF n x)])).
Proof.
  induction l as [|[c x] l IH]; [reflexivity|].
  change (emapF n ((c, x) :: l)) with ((c, encF n x) :: emapF n l).
  change (lbind ((c, x) :: l) (fun x => [(C1, encF n x)])) with (lscale c [(C1, encF n x)] ++ lbind l (fun x => [(C1, encF n x)])).
  rewrite coeff_app, coeff_scale. cbn [coeff fst snd]. rewrite IH. destruct (N.eqb k (encF n x)); ring.
Qed.

(* the side conditions on index sets U (update), P (parity), O (occupation), S (the Z-string of the Y term) *)
Definition sets_cond (n i : nat) (U P O S : list Z) : bool :=
  let zi := Z.of_nat i in let zn := Z.of_nat n in
  (i <? n)%nat
  && N.eqb (xmask (zi :: U)) (colmaskF (N.of_nat i) n)
  && N.eqb (xorFF P) (N.ones (N.of_nat i))
  && N.eqb (xorFF O) (N.pow 2 (N.of_nat i))
  && N.eqb (xmask S) (N.lxor (N.lxor (xmask P) (xmask O)) (N.pow 2 (N.of_nat i)))
  && forallb (fun k => (0 <=? k)%Z && (k <? zn)%Z) (P ++ O ++ S)
  && forallb (fun k => (0 <=? k)%Z && negb (k =? zi)%Z) (U ++ S)
  && negb (parity (N.land (xmask U) (xmask P))) && negb (parity (N.land (xmask U) (xmask S))).

Record facts (n i : nat) (U P O S : list Z) (v : N) : Prop := {
  f_lt : (i < n)%nat;
  f_target : N.lxor (encF n v) (xmask (Z.of_nat i :: U)) = encF n (flip v (N.of_nat i));
  f_parP : zpar (encF n v) P = par v i;
  f_parS : zpar (encF n v) S = xorb (xorb (par v i) (bit v (N.of_nat i))) (bit (encF n v) (N.of_nat i));
  f_notU : N.testbit (xmask U) (N.of_nat i) = false;
  f_UP : parity (N.land (xmask U) (xmask P)) = false;
  f_US : parity (N.land (xmask U) (xmask S)) = false }.

Lemma sets_facts n i U P O S v : sets_cond n i U P O S = true -> facts n i U P O S v.
Proof.
  unfold sets_cond. cbv zeta. intros H.
  apply andb_true_iff in H; destruct H as [H HUS]. apply andb_true_iff in H; destruct H as [H HUP].
  apply andb_true_iff in H; destruct H as [H Hnot]. apply andb_true_iff in H; destruct H as [H Hrange].
  apply andb_true_iff in H; destruct H as [H HS]. apply andb_true_iff in H; destruct H as [H HO].
  apply andb_true_iff in H; destruct H as [H HP]. apply andb_true_iff in H; destruct H as [H HU].
  apply N.eqb_eq in HS, HO, HP, HU. apply Nat.ltb_lt in H. apply negb_true_iff in HUS, HUP.
  pose proof (in_range_zN _ _ Hrange) as Hr.
  assert (HrP : forall k, In k P -> (0 <= k < Z.of_nat n)%Z) by (intros; apply Hr; apply in_or_app; left; assumption).
  assert (HrO : forall k, In k O -> (0 <= k < Z.of_nat n)%Z) by (intros; apply Hr; apply in_or_app; right; apply in_or_app; left; assumption).
  assert (EparP : zpar (encF n v) P = par v i) by (rewrite (zpar_encF n v P HrP), HP; apply parity_ones).
  assert (EparO : zpar (encF n v) O = bit v (N.of_nat i)) by (rewrite (zpar_encF n v O HrO), HO; apply parity_land_pow2).
  constructor; try assumption.
  - rewrite HU. symmetry. apply encF_flip.
  - rewrite zpar_mask, HS, !land_lxor_r, !parity_lxor, parity_land_pow2, <- !zpar_mask, EparP, EparO. reflexivity.
  - apply xmask_bit_notin. intros j Hj. rewrite forallb_forall in Hnot. specialize (Hnot j (in_or_app _ _ _ (or_introl Hj))).
    apply andb_true_iff in Hnot. destruct Hnot as [N1 N2]. apply Z.leb_le in N1. apply negb_true_iff, Z.eqb_neq in N2. unfold zN in *. lia.
Qed.
End Scheme.

Lemma zpar_lxor w m l : zpar (N.lxor w m) l = xorb (zpar w l) (parity (N.land m (xmask l))).
Proof. rewrite !zpar_mask, (N.land_comm (N.lxor w m)), land_lxor_r, parity_lxor, (N.land_comm (xmask l) w), (N.land_comm (xmask l) m). reflexivity. Qed.

(* ---------- generic lift from ladder images to words and operators ---------- *)
Section Transform.
Variable F : N -> N.
Variable n : nat.
Variable ladder : lfactor -> qop.
Variable ok : nat -> bool.
Hypothesis ladder_den : forall i act v, ok i = true ->
  qden (ladder (N.of_nat i, act)) (encF F n v) ~ emapF F n (fapply1 (N.of_nat i, act) v).

Definition gterm (t : lword) (c : C) : qop := fold_left (fun acc f => qmul acc (ladder f)) t (qmk [] c).
Definition gop (op : lop) : qop := fold_left (fun acc tc => iadd pfeqb Cis0 acc (gterm (fst tc) (snd tc))) op [].
Definition gword_ok (t : lword) : bool := forallb (fun f => ok (N.to_nat (fst f))) t.
Definition gop_ok (op : lop) : bool := forallb (fun tc => gword_ok (fst tc)) op.

Lemma gterm_fold t : gword_ok t = true -> forall acc v,
  qden (fold_left (fun acc f => qmul acc (ladder f)) t acc) (encF F n v) ~ lbind (fapply_word t v) (fun x => qden acc (encF F n x)).
Proof.
  induction t as [|f t IH]; intros Hok acc v.
  - simpl. intros k. rewrite app_nil_r, coeff_scale. ring.
  - cbn [gword_ok forallb] in Hok. apply andb_true_iff in Hok. destruct Hok as [Hf Ht].
    simpl fold_left. eapply leq_trans; [apply (IH Ht)|].
    simpl fapply_word. rewrite lbind_lbind. apply leq_bind_ext. intros y.
    eapply leq_trans; [apply qmul_hom|]. rewrite <- lbind_emapF.
    apply leq_bind; [exact N.eqb_spec| |intros; apply leq_refl].
    destruct f as [j act]. cbn [fst] in Hf.
    pose proof (ladder_den (N.to_nat j) act y Hf) as L. rewrite N2Nat.id in L. exact L.
Qed.
Lemma gterm_den t c v : gword_ok t = true -> qden (gterm t c) (encF F n v) ~ emapF F n (lscale c (fapply_word t v)).
Proof.
  intros Hok. unfold gterm. eapply leq_trans; [apply (gterm_fold t Hok)|]. intros k.
  rewrite (coeff_bind_ext N N.eqb k (fapply_word t v) (fun x => qden (qmk [] c) (encF F n x)) (fun x => lscale c [(C1, encF F n x)])).
  - rewrite emapF_scale, coeff_scale, (coeff_bind_scalef N N.eqb), coeff_emapF_bind. reflexivity.
  - intros x k'. rewrite (qden_qmk [] c (encF F n x) k'). reflexivity.
Qed.
Lemma gfold_den op : gop_ok op = true -> forall acc v,
  qden (fold_left (fun acc tc => iadd pfeqb Cis0 acc (gterm (fst tc) (snd tc))) op acc) (encF F n v)
  ~ qden acc (encF F n v) ++ emapF F n (fden op v).
Proof.
  induction op as [|[t c] op IH]; intros Hok acc v; cbn [fold_left fden flat_map fst snd].
  - rewrite app_nil_r. apply leq_refl.
  - cbn [gop_ok forallb fst] in Hok. apply andb_true_iff in Hok. destruct Hok as [Ht Hop].
    eapply leq_trans; [apply (IH Hop)|]. intros k. rewrite emapF_app, !coeff_app.
    pose proof (add_hom pfactor pfeqb pfeqb_spec Cis0 pact acc (gterm t c) (encF F n v) (iadd_exact_Cis0 _ _) k) as E.
    unfold qden at 1. rewrite E, coeff_app. fold (qden acc (encF F n v)). fold (qden (gterm t c) (encF F n v)).
    rewrite (gterm_den t c v Ht k). unfold fden. ring.
Qed.
Theorem gop_sound op v : gop_ok op = true -> qden (gop op) (encF F n v) ~ emapF F n (fden op v).
Proof. intros H. unfold gop. eapply leq_trans; [apply (gfold_den op H)|]. apply leq_refl. Qed.
End Transform.

(* ---------- bravyi_kitaev_tree ---------- *)
Definition Ft (n : nat) (j : N) : N :=
  genmask (fun m => N.eqb m j || zmem (Z.of_N j) (ft_update (Z.of_nat n) (Z.of_N m))) n.
Definition tree_ok (n i : nat) : bool :=
  let zi := Z.of_nat i in let zn := Z.of_nat n in
  let U := ft_update zn zi in let P := ft_parity zn zi in let R := ft_remainder zn zi in
  let O := zi :: fchildren (ftree zn) zi in
  let cw := (N.of_nat i, PX) :: pw PZ P ++ pw PX U in
  let dw := (N.of_nat i, PY) :: pw PZ R ++ pw PX U in
  sets_cond (Ft n) n i U P O R
  && iadd_exact pfactor pfeqb small_tol (qmk cw Chalf) (qmk dw Cmihalf)
  && iadd_exact pfactor pfeqb small_tol (qmk cw Chalf) (qmk dw Cihalf).

Theorem bkt_ladder_den n i act v : tree_ok n i = true ->
  qden (bkt_ladder (N.of_nat i, act) (Z.of_nat n)) (encF (Ft n) n v) ~ emapF (Ft n) n (fapply1 (N.of_nat i, act) v).
Proof.
  unfold tree_ok. cbv zeta. intros H.
  apply andb_true_iff in H; destruct H as [H Hex2]. apply andb_true_iff in H; destruct H as [H Hex1].
  set (zi := Z.of_nat i) in *. set (zn := Z.of_nat n) in *.
  set (U := ft_update zn zi) in *. set (P := ft_parity zn zi) in *. set (R := ft_remainder zn zi) in *.
  set (O := zi :: fchildren (ftree zn) zi) in *.
  destruct (sets_facts (Ft n) n i U P O R v H) as [Hlt Htgt HparP HparS HnotU HUP HUS].
  set (w := encF (Ft n) n v) in *.
  assert (Eb : bit (N.lxor w (xmask U)) (N.of_nat i) = bit w (N.of_nat i)).
  { unfold bit. rewrite N.lxor_spec, HnotU. destruct (N.testbit w (N.of_nat i)); reflexivity. }
  assert (Etgt : flip (N.lxor w (xmask U)) (N.of_nat i) = encF (Ft n) n (flip v (N.of_nat i))).
  { rewrite <- Htgt. unfold flip. cbn [xmask]. replace (zN (Z.of_nat i)) with (N.of_nat i) by (unfold zN; lia).
    rewrite N.lxor_assoc. f_equal. apply N.lxor_comm. }
  assert (Ec : apply_word ((N.of_nat i, PX) :: pw PZ P ++ pw PX U) w = (sgn (par v i), encF (Ft n) n (flip v (N.of_nat i)))).
  { rewrite apply_word_cons, apply_word_app, apply_pwX, apply_pwZ. unfold cscale, then1, apply1. cbn [fst snd].
    rewrite zpar_lxor, HUP, HparP, Etgt. f_equal. destruct (par v i); cbn [xorb sgn]; ceq. }
  assert (Ed : apply_word ((N.of_nat i, PY) :: pw PZ R ++ pw PX U) w =
               (Cmul Ci (sgn (xorb (par v i) (bit v (N.of_nat i)))), encF (Ft n) n (flip v (N.of_nat i)))).
  { rewrite apply_word_cons, apply_word_app, apply_pwX, apply_pwZ. unfold cscale, then1, apply1. cbn [fst snd].
    rewrite zpar_lxor, HUS, HparS, Eb, Etgt. f_equal.
    destruct (par v i), (bit v (N.of_nat i)), (bit w (N.of_nat i)); cbn [xorb sgn]; ceq. }
  unfold bkt_ladder. cbn [fst snd]. rewrite nat_N_Z. fold zi zn U P R.
  intros k. destruct act.
  - rewrite (qadd_hom _ _ w Hex1 k), coeff_app, (qden_qmk _ _ w k), (qden_qmk _ _ w k). rewrite Ec, Ed.
    unfold fapply1, emapF, cscale. cbn [fst snd]. rewrite Nat2N.id.
    destruct (bit v (N.of_nat i)), (par v i); cbn [Bool.eqb xorb sgn map coeff fst snd];
      destruct (N.eqb k (encF (Ft n) n (flip v (N.of_nat i)))); ceq.
  - rewrite (qadd_hom _ _ w Hex2 k), coeff_app, (qden_qmk _ _ w k), (qden_qmk _ _ w k). rewrite Ec, Ed.
    unfold fapply1, emapF, cscale. cbn [fst snd]. rewrite Nat2N.id.
    destruct (bit v (N.of_nat i)), (par v i); cbn [Bool.eqb xorb sgn map coeff fst snd];
      destruct (N.eqb k (encF (Ft n) n (flip v (N.of_nat i)))); ceq.
Qed.

Definition tree_table_ok (nmax : nat) : bool := forallb (fun n => forallb (fun i => tree_ok n i) (seq 0 n)) (seq 1 nmax).
Theorem tree_table_40 : tree_table_ok 40 = true.
Proof. vm_compute. reflexivity. Qed.

(* the exactly accumulated tree transform (the model's bkt uses the pruning += ; see the correspondence) *)
Definition bkt0 (op : lop) (n : Z) : qop :=
  fold_left (fun acc tc => iadd pfeqb Cis0 acc (bkt_term n (fst tc) (snd tc))) op [].

Lemma tree_lookup nmax n i : tree_table_ok nmax = true -> (1 <= n <= nmax)%nat -> (i < n)%nat -> tree_ok n i = true.
Proof.
  unfold tree_table_ok. intros H Hn Hi. rewrite forallb_forall in H.
  specialize (H n ltac:(apply in_seq; lia)). rewrite forallb_forall in H. apply H. apply in_seq. lia.
Qed.
Lemma bkt0_is_gop op n : bkt0 op (Z.of_nat n) = gop (fun f => bkt_ladder f (Z.of_nat n)) op.
Proof. reflexivity. Qed.
Lemma tree_modes_ok nmax n op : tree_table_ok nmax = true -> (1 <= n <= nmax)%nat -> modes_lt n op = true -> gop_ok (tree_ok n) op = true.
Proof.
  intros Ht Hn Hm. unfold gop_ok, gword_ok, modes_lt in *. rewrite forallb_forall in *. intros tc Htc.
  specialize (Hm tc Htc). rewrite forallb_forall in *. intros f Hf. specialize (Hm f Hf).
  apply N.ltb_lt in Hm. apply (tree_lookup nmax n); [assumption|assumption|lia].
Qed.
Theorem bkt_sound_upto_40 n op v : (1 <= n <= 40)%nat -> modes_lt n op = true ->
  qden (bkt0 op (Z.of_nat n)) (encF (Ft n) n v) ~ emapF (Ft n) n (fden op v).
Proof.
  intros Hn Hm. rewrite bkt0_is_gop.
  apply (gop_sound (Ft n) n (fun f => bkt_ladder f (Z.of_nat n)) (tree_ok n) (fun i act v0 H => bkt_ladder_den n i act v0 H) op v).
  exact (tree_modes_ok 40 n op tree_table_40 Hn Hm).
Qed.
Example bkt_example : encF (Ft 5) 5 1%N = 23%N.
Proof. vm_compute. reflexivity. Qed.
