(* [B] for every n_qubits <= 128 and every mode i < n_qubits the bit-trick index sets satisfy the
   hypotheses of the linear-encoding argument, with qubit j storing the parity of the modes
   F(j) = [j+1-lowbit(j+1), j]:
     U(i) + {i}            = { j < n | i in F(j) }        (qubits to flip when mode i flips)
     xor_{k in P(i)} F(k)  = { m | m < i }               (parity of the modes below i)
     xor_{k in Occ(i)} F(k) = { i }                        (occupation of mode i)
   Sets are compared as bit masks. *)
From Coq Require Import ZArith NArith List Bool.
From OFV Require Import Model.BravyiKitaev.
Import ListNotations.
Local Open Scope Z_scope.

Definition lowbit (x : Z) : Z := Z.land x (- x).
Definition Fmask (j : Z) : Z :=            (* modes j+1-lowbit(j+1) .. j as a mask *)
  let lb := lowbit (j + 1) in Z.shiftl (Z.ones lb) (j + 1 - lb).
Definition mask_of (l : list Z) : Z := fold_left (fun acc i => Z.lxor acc (Z.shiftl 1 i)) l 0.
Definition xorF (l : list Z) : Z := fold_left (fun acc k => Z.lxor acc (Fmask k)) l 0.
Definition col_mask (i n : Z) : Z :=       (* qubits j < n with i in F(j) *)
  mask_of (filter (fun j => Z.testbit (Fmask j) i) (map Z.of_nat (seq 0 (Z.to_nat n)))).
Definition nodupb (l : list Z) : bool := Nat.eqb (length (nodup Z.eq_dec l)) (length l).

Definition sets_ok (n : Z) (i : Z) : bool :=
  let U := update_set i n in let P := parity_set i in let O := occupation_set i in
  nodupb (i :: U) && nodupb P && nodupb O
  && (mask_of (i :: U) =? col_mask i n)
  && (xorF P =? Z.ones i)
  && (xorF O =? Z.shiftl 1 i)
  && forallb (fun k => k <? i) P && forallb (fun k => (i <? k) && (k <? n)) U && forallb (fun k => k <=? i) O.
Definition sets_ok_n (n : nat) : bool := forallb (fun i => sets_ok (Z.of_nat n) (Z.of_nat i)) (seq 0 n).

Theorem bk_sets_fenwick_upto_128 : forallb sets_ok_n (seq 1 128) = true.
Proof. vm_compute. reflexivity. Qed.
