(* C06: LinearQubitOperator (model) applied to a vector equals the action of the operator given by the Pauli semantics -
   whole operators, every number of qubits, every vector. *)
From Coq Require Import QArith Qcanon NArith List Bool Arith Lia Ring.
From OFV Require Import Base.Cplx Base.Lin Sem.PauliSem Model.SymbolicOp Model.QubitOp Model.LinearOp
  Thm.C01.SymHom Thm.C01.QubitHom Thm.C06.LinearOpSound.
Close Scope Qc_scope. Close Scope Q_scope.
Import ListNotations.

(* the vector as a formal sum of basis states (masks) *)
Fixpoint vlin (t : vtree) : lin N :=
  match t with
  | Leaf c => [(c, 0%N)]
  | Node l r => map (fun e => (fst e, (2 * snd e)%N)) (vlin l) ++ map (fun e => (fst e, (2 * snd e + 1)%N)) (vlin r)
  end.

Lemma coeff_map_even m l : coeff N.eqb (2 * m)%N (map (fun e : C * N => (fst e, (2 * snd e)%N)) l) = coeff N.eqb m l.
Proof.
  induction l as [|[c x] l IH]; [reflexivity|]. cbn [map coeff fst snd]. rewrite IH.
  destruct (N.eqb_spec m x) as [->|H]; [rewrite N.eqb_refl; reflexivity|].
  destruct (N.eqb_spec (2 * m) (2 * x)); [lia|reflexivity].
Qed.
Lemma coeff_map_odd m l : coeff N.eqb (2 * m + 1)%N (map (fun e : C * N => (fst e, (2 * snd e + 1)%N)) l) = coeff N.eqb m l.
Proof.
  induction l as [|[c x] l IH]; [reflexivity|]. cbn [map coeff fst snd]. rewrite IH.
  destruct (N.eqb_spec m x) as [->|H]; [rewrite N.eqb_refl; reflexivity|].
  destruct (N.eqb_spec (2 * m + 1) (2 * x + 1)); [lia|reflexivity].
Qed.
Lemma coeff_map_even_odd m l : coeff N.eqb (2 * m)%N (map (fun e : C * N => (fst e, (2 * snd e + 1)%N)) l) = C0.
Proof. induction l as [|[c x] l IH]; [reflexivity|]. cbn [map coeff fst snd]. rewrite IH. destruct (N.eqb_spec (2 * m) (2 * x + 1)); [lia|reflexivity]. Qed.
Lemma coeff_map_odd_even m l : coeff N.eqb (2 * m + 1)%N (map (fun e : C * N => (fst e, (2 * snd e)%N)) l) = C0.
Proof. induction l as [|[c x] l IH]; [reflexivity|]. cbn [map coeff fst snd]. rewrite IH. destruct (N.eqb_spec (2 * m + 1) (2 * x)); [lia|reflexivity]. Qed.

Lemma coeff_vlin n : forall t k, perfect n t -> length k = n -> coeff N.eqb (mask_of_path k) (vlin t) = tget k t.
Proof.
  induction n as [|n IH]; intros t k Ht Hk; destruct t as [c|l r]; try (destruct Ht; fail).
  - destruct k; [|discriminate]. cbn. ring.
  - destruct Ht as [Hl Hr]. destruct k as [|b k]; [discriminate|]. injection Hk as Hk.
    cbn [vlin mask_of_path tget]. rewrite coeff_app. destruct b; cbn [N.b2n].
    + replace (1 + 2 * mask_of_path k)%N with (2 * mask_of_path k + 1)%N by lia.
      rewrite coeff_map_odd_even, coeff_map_odd, (IH r k Hr Hk). ring.
    + replace (0 + 2 * mask_of_path k)%N with (2 * mask_of_path k)%N by lia.
      rewrite coeff_map_even, coeff_map_even_odd, (IH l k Hl Hk). ring.
Qed.
Lemma vlin_keys n : forall t, perfect n t -> Forall (fun e => exists k, length k = n /\ snd e = mask_of_path k) (vlin t).
Proof.
  induction n as [|n IH]; intros t Ht; destruct t as [c|l r]; try (destruct Ht; fail).
  - constructor; [exists []; split; reflexivity|constructor].
  - destruct Ht as [Hl Hr]. cbn [vlin]. apply Forall_app. split; apply Forall_map; cbn [snd].
    + eapply Forall_impl; [|apply (IH l Hl)]. cbn beta. intros e [k [L E]]. exists (false :: k). split; [simpl; lia|]. cbn [mask_of_path N.b2n]. rewrite E. lia.
    + eapply Forall_impl; [|apply (IH r Hr)]. cbn beta. intros e [k [L E]]. exists (true :: k). split; [simpl; lia|]. cbn [mask_of_path N.b2n]. rewrite E. lia.
Qed.
Lemma mask_inj : forall k k', length k = length k' -> mask_of_path k = mask_of_path k' -> k = k'.
Proof.
  induction k as [|b k IH]; intros [|b' k'] L E; try discriminate; [reflexivity|].
  cbn [mask_of_path] in E. injection L as L.
  assert (b = b' /\ mask_of_path k = mask_of_path k') as [-> E'] by (destruct b, b'; cbn [N.b2n] in E; split; try reflexivity; lia).
  f_equal. apply IH; assumption.
Qed.

(* the flips of a word do not depend on the state and are an involution *)
Definition flip1 (f : pfactor) (k : list bool) : list bool :=
  match snd f with PX | PY => flip_at (N.to_nat (fst f)) k | _ => k end.
Definition flipw (w : pword) (k : list bool) : list bool := fold_left (fun k f => flip1 f k) w k.
Lemma flip_at_comm : forall k p q, flip_at p (flip_at q k) = flip_at q (flip_at p k).
Proof. induction k as [|b k IH]; intros [|p] [|q]; cbn [flip_at]; try reflexivity. rewrite IH. reflexivity. Qed.
Lemma flip_at_invol : forall k p, flip_at p (flip_at p k) = k.
Proof. induction k as [|b k IH]; intros [|p]; cbn [flip_at]; try reflexivity; [rewrite negb_involutive; reflexivity|rewrite IH; reflexivity]. Qed.
Lemma flip1_comm f g k : flip1 f (flip1 g k) = flip1 g (flip1 f k).
Proof. unfold flip1. destruct (snd f), (snd g); try reflexivity; apply flip_at_comm. Qed.
Lemma flip1_invol f k : flip1 f (flip1 f k) = k.
Proof. unfold flip1. destruct (snd f); try reflexivity; apply flip_at_invol. Qed.
Lemma flipw_flip1 : forall w f k, flipw w (flip1 f k) = flip1 f (flipw w k).
Proof. unfold flipw. induction w as [|g w IH]; intros f k; [reflexivity|]. cbn [fold_left]. rewrite flip1_comm. apply IH. Qed.
Lemma flipw_invol : forall w k, flipw w (flipw w k) = k.
Proof.
  induction w as [|f w IH]; intros k; [reflexivity|]. unfold flipw at 2. cbn [fold_left]. fold (flipw w (flip1 f k)).
  unfold flipw at 1. cbn [fold_left]. fold (flipw w (flip1 f (flipw w (flip1 f k)))).
  rewrite <- flipw_flip1, flip1_invol. apply IH.
Qed.
Lemma flipw_length : forall w k, length (flipw w k) = length k.
Proof.
  unfold flipw. induction w as [|f w IH]; intros k; [reflexivity|]. cbn [fold_left]. rewrite IH.
  unfold flip1. destruct (snd f); try reflexivity; apply flip_at_length.
Qed.
Lemma papply_lr_snd : forall w c k, snd (papply_lr w (c, k)) = flipw w k.
Proof.
  unfold papply_lr, flipw. induction w as [|f w IH]; intros c k; [reflexivity|]. cbn [fold_left].
  unfold pstep at 2. cbn [fst snd]. unfold flip1.
  destruct (snd f); cbn [papply1]; apply IH.
Qed.
Lemma apply_word_mask n w k : increasing_from 0 n w -> length k = n ->
  apply_word w (mask_of_path k) = (fst (papply_lr w (C1, k)), mask_of_path (flipw w k)).
Proof.
  intros Hw Hk. rewrite apply_word_W, <- (apply_lr_W n w 0 _ Hw), (apply_lr_mask n w 0 C1 k Hw Hk), papply_lr_snd. reflexivity.
Qed.

Lemma sum_zero k (f : N -> lin N) : forall l, Forall (fun e => coeff N.eqb k (f (snd e)) = C0) l ->
  fold_right (fun e acc => Cadd (Cmul (fst e) (coeff N.eqb k (f (snd e)))) acc) C0 l = C0.
Proof. induction l as [|e l IH]; intros H; [reflexivity|]. inversion H; subst. cbn [fold_right]. rewrite IH by assumption. rewrite H2. ring. Qed.

(* one term: the amplitude number idx r of the output is the coefficient of the basis state r in  c * w (vector) *)
Theorem lqo_term_semantics n w c t r : perfect n t -> increasing_from 0 n w -> length r = n ->
  nth (idx r) (lqo_term w c t) C0 = coeff N.eqb (mask_of_path r) (lbind (vlin t) (fun s => lscale c (pact w s))).
Proof.
  intros Ht Hw Hr.
  set (k0 := flipw w r).
  assert (Lk0 : length k0 = n) by (unfold k0; rewrite flipw_length; exact Hr).
  assert (Fk0 : flipw w k0 = r) by (unfold k0; apply flipw_invol).
  (* left side through the column theorem at k0 *)
  destruct (lqo_term_correct n w c t k0 Ht Hw Lk0) as [k' [Lk' [Ek' Eout]]].
  rewrite (apply_word_mask n w k0 Hw Lk0) in Ek'. cbn [fst] in Ek'.
  assert (k' = r).
  { injection Ek' as Ek'. rewrite Fk0 in Ek'. apply mask_inj; [congruence|]. symmetry. exact Ek'. }
  subst k'. rewrite Eout, (nth_flatten n t k0 Ht Lk0), (apply_word_mask n w k0 Hw Lk0). cbn [fst].
  (* right side: only the basis state k0 contributes *)
  rewrite (coeff_bind_sum N N.eqb). symmetry.
  etransitivity; [apply (bind_sum_lremove N N.eqb N.eqb_spec (mask_of_path r) (mask_of_path k0) (vlin t) (fun s => lscale c (pact w s)))|].
  rewrite (coeff_vlin n t k0 Ht Lk0).
  rewrite (sum_zero (mask_of_path r) (fun s => lscale c (pact w s))).
  - unfold pact. rewrite (apply_word_mask n w k0 Hw Lk0), Fk0. cbn [lscale map fst snd coeff]. rewrite N.eqb_refl. ring.
  - unfold lremove. apply Forall_forall. intros e He. apply filter_In in He. destruct He as [He Hne].
    pose proof (vlin_keys n t Ht) as K. rewrite Forall_forall in K. destruct (K e He) as [k [Lk Ek]].
    rewrite Ek in *. unfold pact. rewrite (apply_word_mask n w k Hw Lk). cbn [lscale map fst snd coeff].
    destruct (N.eqb_spec (mask_of_path r) (mask_of_path (flipw w k))) as [E|E]; [|reflexivity].
    exfalso. apply mask_inj in E; [|rewrite flipw_length; congruence].
    assert (k = k0) by (unfold k0; rewrite E; symmetry; apply flipw_invol). subst k.
    rewrite N.eqb_refl in Hne. discriminate.
Qed.

Lemma coeff_qden_cons k v w c (op : qop) :
  coeff N.eqb k (lbind v (qden ((w, c) :: op))) =
  Cadd (coeff N.eqb k (lbind v (fun s => lscale c (pact w s)))) (coeff N.eqb k (lbind v (qden op))).
Proof.
  rewrite <- (coeff_bind_addf N N.eqb k v (fun s => lscale c (pact w s)) (qden op)).
  apply coeff_bind_ext. intros s. apply leq_refl.
Qed.

(* the whole operator: every amplitude of the returned vector is the corresponding coefficient of  op (vector)  in the Pauli semantics *)
Theorem lqo_semantics n op x r : canonical_op n op -> length r = n ->
  nth (idx r) (lqo n op x) C0 = coeff N.eqb (mask_of_path r) (lbind (vlin (tree_of n x)) (qden op)).
Proof.
  intros Hop Hr. rewrite (lqo_is_sum_of_terms n op x (idx r) Hop).
  set (t := tree_of n x). assert (Ht : perfect n t) by apply tree_of_perfect.
  set (v := vlin t). set (k := mask_of_path r).
  assert (G : forall acc, fold_left (fun a tc => Cadd a (nth (idx r) (lqo_term (fst tc) (snd tc) t) C0)) op acc
                          = Cadd acc (coeff N.eqb k (lbind v (qden op)))).
  { induction op as [|[w c] op IH]; intros acc.
    - cbn [fold_left]. unfold qden, aop. cbn [flat_map]. rewrite lbind_nilf. cbn [coeff]. ring.
    - pose proof (Forall_inv Hop) as H1. pose proof (Forall_inv_tail Hop) as H2. cbn [fst] in H1. cbn [fold_left fst snd]. rewrite (IH H2).
      rewrite (lqo_term_semantics n w c t r Ht H1 Hr). fold v. fold k.
      rewrite (coeff_qden_cons k v w c op). ring. }
  rewrite G. ring.
Qed.

(* the amplitudes of the tree built from a numpy vector of length 2^n are the entries of that vector *)
Lemma tree_of_amplitudes n x k : length x = Nat.pow 2 n -> length k = n -> tget k (tree_of n x) = nth (idx k) x C0.
Proof. intros Hx Hk. rewrite <- (nth_flatten n _ k (tree_of_perfect n x) Hk), (flatten_tree_of n x Hx). reflexivity. Qed.
