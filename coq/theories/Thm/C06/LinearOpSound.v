(* C06: the vector-splitting algorithm of LinearQubitOperator._matvec computes, for every term, every number of qubits and
   every vector, the action given by the Pauli semantics (big-endian amplitudes: qubit 0 is the most significant index bit). *)
From Coq Require Import QArith Qcanon NArith List Bool Arith Lia Ring.
From OFV Require Import Base.Cplx Base.Lin Sem.PauliSem Model.SymbolicOp Model.QubitOp Model.LinearOp.
Close Scope Qc_scope. Close Scope Q_scope.
Import ListNotations.

Fixpoint perfect (n : nat) (t : vtree) : Prop :=
  match n, t with
  | O, Leaf _ => True
  | S n', Node l r => perfect n' l /\ perfect n' r
  | _, _ => False
  end.

(* the Pauli acting on qubit d of the whole vector *)
Fixpoint apply_at (d : nat) (P : pauli) (t : vtree) {struct t} : vtree :=
  match t with
  | Leaf c => Leaf c
  | Node l r => match d with
                | O => let (a, b) := pair_op P l r in Node a b
                | S d' => Node (apply_at d' P l) (apply_at d' P r)
                end
  end.

Lemma pieces_leaf k c : pieces k (Leaf c) = [Leaf c].
Proof. destruct k; reflexivity. Qed.
Lemma pieces_add a : forall b t, pieces (a + b) t = flat_map (pieces b) (pieces a t).
Proof.
  induction a as [|a IH]; intros b t.
  - simpl. rewrite app_nil_r. reflexivity.
  - destruct t as [c|l r].
    + rewrite !pieces_leaf. simpl. rewrite pieces_leaf. reflexivity.
    + cbn [Nat.add pieces]. rewrite !IH, flat_map_app. reflexivity.
Qed.
Lemma flatten_pieces k : forall t, flat_map flatten (pieces k t) = flatten t.
Proof.
  induction k as [|k IH]; intros t; [simpl; apply app_nil_r|].
  destruct t as [c|l r]; [simpl; reflexivity|].
  cbn [pieces]. rewrite flat_map_app, !IH. reflexivity.
Qed.
Lemma tmap_perfect f n : forall t, perfect n t -> perfect n (tmap f t).
Proof. induction n as [|n IH]; intros t; destruct t as [c|l r]; simpl; try tauto. intros H; destruct H as [H1 H2]. split; apply IH; assumption. Qed.
Lemma apply_at_perfect P n : forall d t, perfect n t -> perfect n (apply_at d P t).
Proof.
  induction n as [|n IH]; intros d t Ht; destruct t as [c|l r]; try (exact Ht); try (destruct Ht; fail).
  destruct Ht as [H1 H2]. destruct d as [|d].
  - cbn [apply_at]. destruct P; cbn [pair_op perfect]; split; try assumption; apply tmap_perfect; assumption.
  - cbn [apply_at perfect]. split; apply IH; assumption.
Qed.
(* one step of the loop on the pieces at depth p *)
Lemma halves_pieces P : forall p n t, perfect n t -> p < n ->
  flat_map (halves_op P) (pieces p t) = pieces (S p) (apply_at p P t).
Proof.
  induction p as [|p IH]; intros n t Ht Hp.
  - destruct n as [|n]; [lia|]. destruct t as [c|l r]; [destruct Ht|].
    cbn [pieces flat_map halves_op apply_at]. destruct (pair_op P l r) as [a b]. cbn [pieces]. reflexivity.
  - destruct n as [|n]; [lia|]. destruct t as [c|l r]; [destruct Ht|]. destruct Ht as [Hl Hr].
    cbn [pieces apply_at]. rewrite flat_map_app, (IH n l Hl), (IH n r Hr) by lia. reflexivity.
Qed.

(* strictly increasing positions below n, starting at or after tf *)
Fixpoint increasing_from (tf : nat) (n : nat) (w : pword) : Prop :=
  match w with
  | [] => True
  | f :: w' => tf <= N.to_nat (fst f) /\ N.to_nat (fst f) < n /\ increasing_from (S (N.to_nat (fst f))) n w'
  end.
Definition tree_step (t : vtree) (f : pfactor) : vtree := apply_at (N.to_nat (fst f)) (snd f) t.

Lemma lqo_fold n : forall w tf t, perfect n t -> increasing_from tf n w -> tf <= n ->
  flat_map flatten (snd (fold_left lqo_step w (tf, pieces tf t))) = flatten (fold_left tree_step w t).
Proof.
  induction w as [|f w IH]; intros tf t Ht Hw Htf.
  - cbn [fold_left snd]. apply flatten_pieces.
  - cbn [increasing_from] in Hw. destruct Hw as [H1 [H2 H3]].
    cbn [fold_left]. unfold lqo_step at 2. set (p := N.to_nat (fst f)) in *.
    assert (E : (if Nat.ltb tf p then flat_map (pieces (p - tf)) (pieces tf t) else pieces tf t) = pieces p t).
    { destruct (Nat.ltb_spec tf p).
      - rewrite <- pieces_add. f_equal. lia.
      - f_equal. lia. }
    rewrite E, (halves_pieces (snd f) p n t Ht H2).
    apply (IH (S p) (apply_at p (snd f) t)); [apply apply_at_perfect; assumption|exact H3|lia].
Qed.

Theorem lqo_term_tree n w c t : perfect n t -> increasing_from 0 n w ->
  lqo_term w c t = map (Cmul c) (flatten (fold_left tree_step w t)).
Proof.
  intros Ht Hw. unfold lqo_term. f_equal.
  change [t] with (pieces 0 t). apply (lqo_fold n); [assumption|assumption|lia].
Qed.

(* ---- amplitudes by qubit values: pi = values of qubits 0, 1, ..., n-1 *)
Fixpoint tget (pi : list bool) (t : vtree) {struct t} : C :=
  match t with
  | Leaf c => c
  | Node l r => match pi with [] => C0 | b :: pi' => tget pi' (if b then r else l) end
  end.
Fixpoint flip_at (p : nat) (pi : list bool) : list bool :=
  match pi with
  | [] => []
  | b :: pi' => match p with O => negb b :: pi' | S p' => b :: flip_at p' pi' end
  end.
Lemma flip_at_length p : forall pi, length (flip_at p pi) = length pi.
Proof. induction p as [|p IH]; intros [|b pi]; simpl; try reflexivity. rewrite IH. reflexivity. Qed.

(* column form of one Pauli on basis states given by qubit values *)
Definition papply1 (p : nat) (P : pauli) (k : list bool) : C * list bool :=
  match P with
  | PI => (C1, k)
  | PX => (C1, flip_at p k)
  | PY => (Cmul Ci (sgn (nth p k false)), flip_at p k)
  | PZ => (sgn (nth p k false), k)
  end.

Lemma tget_tmap f n : forall t pi, perfect n t -> length pi = n -> tget pi (tmap f t) = f (tget pi t).
Proof.
  induction n as [|n IH]; intros t pi Ht Hpi; destruct t as [c|l r]; try (destruct Ht; fail); [reflexivity|].
  destruct Ht as [Hl Hr]. destruct pi as [|b pi]; [discriminate|]. injection Hpi as Hpi.
  cbn [tmap tget]. destruct b; apply IH; assumption.
Qed.

Lemma apply_at_column P n : forall p t k, perfect n t -> length k = n -> p < n ->
  tget (snd (papply1 p P k)) (apply_at p P t) = Cmul (fst (papply1 p P k)) (tget k t).
Proof.
  induction n as [|n IH]; intros p t k Ht Hk Hp; [lia|].
  destruct t as [c|l r]; [destruct Ht|]. destruct Ht as [Hl Hr].
  destruct k as [|b k]; [discriminate|]. injection Hk as Hk.
  destruct p as [|p].
  - cbn [apply_at]. destruct P; cbn [pair_op papply1 fst snd flip_at nth tget]; destruct b; cbn [negb tget sgn];
      rewrite ?(tget_tmap _ n) by assumption; try ring.
    + rewrite Cm1_opp1. ring.
    + rewrite Cm1_opp1. ring.
  - cbn [apply_at]. specialize (IH p (if b then r else l) k).
    assert (Hc : perfect n (if b then r else l)) by (destruct b; assumption).
    specialize (IH Hc Hk ltac:(lia)).
    destruct P; cbn [papply1 fst snd flip_at nth tget] in *; destruct b; exact IH.
Qed.

(* ---- basis states as bit masks (the common Pauli semantics): bit j of the mask = value of qubit j *)
Fixpoint mask_of_path (pi : list bool) : N :=
  match pi with [] => 0%N | b :: pi' => (N.b2n b + 2 * mask_of_path pi')%N end.

Lemma bit_mask_of_path : forall pi p, bit (mask_of_path pi) (N.of_nat p) = nth p pi false.
Proof.
  unfold bit. induction pi as [|b pi IH]; intros p.
  - simpl. destruct p; reflexivity.
  - cbn [mask_of_path]. rewrite N.add_comm. destruct p as [|p].
    + cbn [nth]. apply N.testbit_0_r.
    + rewrite Nat2N.inj_succ, N.testbit_succ_r. cbn [nth]. apply IH.
Qed.
Lemma flip_mask_of_path : forall pi p, p < length pi -> flip (mask_of_path pi) (N.of_nat p) = mask_of_path (flip_at p pi).
Proof.
  unfold flip. induction pi as [|b pi IH]; intros p Hp; [simpl in Hp; lia|].
  destruct p as [|p]; cbn [mask_of_path flip_at].
  - apply N.bits_inj. intros k. rewrite N.lxor_spec.
    change (2 ^ N.of_nat 0)%N with 1%N.
    rewrite !(N.add_comm (N.b2n _)).
    destruct (N.eq_dec k 0) as [->|Hk].
    + rewrite !N.testbit_0_r. change 1%N with (2 * 0 + N.b2n true)%N. rewrite N.testbit_0_r. destruct b; reflexivity.
    + destruct (N.succ_pred k Hk). rewrite <- (N.succ_pred k Hk), !N.testbit_succ_r.
      change 1%N with (2 * 0 + N.b2n true)%N. rewrite N.testbit_succ_r, N.bits_0, xorb_false_r. reflexivity.
  - simpl in Hp. rewrite <- (IH p) by lia.
    apply N.bits_inj. intros k. rewrite N.lxor_spec, !(N.add_comm (N.b2n _)).
    rewrite Nat2N.inj_succ, N.pow_succ_r'.
    destruct (N.eq_dec k 0) as [->|Hk].
    + rewrite !N.testbit_0_r. replace (2 * 2 ^ N.of_nat p)%N with (2 * 2 ^ N.of_nat p + N.b2n false)%N by (simpl; lia).
      rewrite N.testbit_0_r. apply xorb_false_r.
    + rewrite <- (N.succ_pred k Hk), !N.testbit_succ_r.
      replace (2 * 2 ^ N.of_nat p)%N with (2 * 2 ^ N.of_nat p + N.b2n false)%N by (simpl; lia).
      rewrite N.testbit_succ_r, N.lxor_spec. reflexivity.
Qed.

Lemma apply1_mask p P k : p < length k ->
  apply1 (N.of_nat p, P) (mask_of_path k) = (fst (papply1 p P k), mask_of_path (snd (papply1 p P k))).
Proof.
  intros Hp. unfold apply1. cbn [fst snd].
  destruct P; cbn [papply1 fst snd]; rewrite ?bit_mask_of_path, ?flip_mask_of_path by assumption; reflexivity.
Qed.

(* ---- words: the loop applies the leftmost factor first *)
Definition pstep (x : C * list bool) (f : pfactor) : C * list bool :=
  let (ph, k') := papply1 (N.to_nat (fst f)) (snd f) (snd x) in (Cmul ph (fst x), k').
Definition papply_lr (w : pword) (x : C * list bool) : C * list bool := fold_left pstep w x.

Lemma pstep_length x f : length (snd (pstep x f)) = length (snd x).
Proof. unfold pstep. destruct (snd f); cbn [papply1 snd]; rewrite ?flip_at_length; reflexivity. Qed.

Lemma papply_lr_scale : forall w c k,
  papply_lr w (c, k) = (Cmul (fst (papply_lr w (C1, k))) c, snd (papply_lr w (C1, k))).
Proof.
  unfold papply_lr. induction w as [|f w IH]; intros c k.
  - cbn [fold_left fst snd]. f_equal. ring.
  - cbn [fold_left]. unfold pstep at 2 4 6. cbn [fst snd].
    destruct (papply1 (N.to_nat (fst f)) (snd f) k) as [ph k'].
    rewrite (IH (Cmul ph c) k'), (IH (Cmul ph C1) k'). cbn [fst snd]. f_equal. ring.
Qed.
Lemma papply_lr_length : forall w x, length (snd (papply_lr w x)) = length (snd x).
Proof.
  unfold papply_lr. induction w as [|f w IH]; intros x; [reflexivity|].
  cbn [fold_left]. rewrite IH. apply pstep_length.
Qed.

Lemma tree_fold_column n : forall w tf t k, perfect n t -> increasing_from tf n w -> length k = n ->
  tget (snd (papply_lr w (C1, k))) (fold_left tree_step w t) = Cmul (fst (papply_lr w (C1, k))) (tget k t).
Proof.
  induction w as [|f w IH]; intros tf t k Ht Hw Hk.
  - cbn [papply_lr fold_left fst snd]. unfold papply_lr. cbn [fold_left fst snd]. ring.
  - cbn [increasing_from] in Hw. destruct Hw as [H1 [H2 H3]].
    pose proof (apply_at_column (snd f) n (N.to_nat (fst f)) t k Ht Hk H2) as Hc.
    unfold papply_lr. cbn [fold_left]. unfold pstep at 2 4. cbn [fst snd].
    destruct (papply1 (N.to_nat (fst f)) (snd f) k) as [ph k'] eqn:E. cbn [fst snd] in Hc.
    fold (papply_lr w (Cmul ph C1, k')). rewrite papply_lr_scale. cbn [fst snd].
    assert (Hk' : length k' = n).
    { pose proof (pstep_length (C1, k) f) as L. unfold pstep in L. cbn [fst snd] in L. rewrite E in L. cbn [snd] in L. congruence. }
    rewrite (IH (S (N.to_nat (fst f))) (tree_step t f) k' (apply_at_perfect _ _ _ _ Ht) H3 Hk').
    unfold tree_step at 1. rewrite Hc. ring.
Qed.

(* ---- the same on bit masks, and the order of the factors does not matter for increasing positions *)
Definition apply_lr (w : pword) (x : C * N) : C * N := fold_left (fun x f => then1 f x) w x.
Definition W (w : pword) (x : C * N) : C * N := fold_right then1 x w.
Lemma apply_word_W w s : apply_word w s = W w (C1, s).
Proof. induction w as [|f w IH]; [reflexivity|]. rewrite apply_word_cons, IH. reflexivity. Qed.

Lemma increasing_lower tf n w : increasing_from tf n w -> Forall (fun g => tf <= N.to_nat (fst g)) w.
Proof.
  revert tf. induction w as [|f w IH]; intros tf H; constructor; cbn [increasing_from] in H; destruct H as [H1 [H2 H3]]; [exact H1|].
  eapply Forall_impl; [|apply (IH _ H3)]. cbn beta. intros g Hg. lia.
Qed.
Lemma then1_W_comm f t x : Forall (fun g => fst f <> fst g) t -> then1 f (W t x) = W t (then1 f x).
Proof.
  induction t as [|g t IH]; intros H; [reflexivity|]. inversion H as [|? ? Hg Ht]; subst.
  cbn [W fold_right]. fold (W t x). fold (W t (then1 f x)). rewrite then1_comm by assumption. rewrite IH by assumption. reflexivity.
Qed.
Lemma apply_lr_W n : forall w tf x, increasing_from tf n w -> apply_lr w x = W w x.
Proof.
  induction w as [|f w IH]; intros tf x H; [reflexivity|].
  cbn [increasing_from] in H. destruct H as [H1 [H2 H3]].
  unfold apply_lr. cbn [fold_left]. fold (apply_lr w (then1 f x)). rewrite (IH _ _ H3).
  cbn [W fold_right]. fold (W w x). symmetry. apply then1_W_comm.
  eapply Forall_impl; [|apply (increasing_lower _ _ _ H3)]. cbn beta. intros g Hg E.
  rewrite <- E in Hg. lia.
Qed.

Lemma apply_lr_mask n : forall w tf c k, increasing_from tf n w -> length k = n ->
  apply_lr w (c, mask_of_path k) = (fst (papply_lr w (c, k)), mask_of_path (snd (papply_lr w (c, k)))).
Proof.
  induction w as [|f w IH]; intros tf c k H Hk; [reflexivity|].
  cbn [increasing_from] in H. destruct H as [H1 [H2 H3]].
  unfold apply_lr, papply_lr. cbn [fold_left]. fold (apply_lr w (then1 f (c, mask_of_path k))). fold (papply_lr w (pstep (c, k) f)).
  unfold then1, pstep. cbn [fst snd].
  assert (Ef : f = (N.of_nat (N.to_nat (fst f)), snd f)) by (destruct f; cbn [fst snd]; rewrite N2Nat.id; reflexivity).
  rewrite Ef at 1. rewrite apply1_mask by lia.
  destruct (papply1 (N.to_nat (fst f)) (snd f) k) as [ph k'] eqn:E. cbn [fst snd].
  apply (IH (S (N.to_nat (fst f)))); [exact H3|].
  pose proof (pstep_length (C1, k) f) as L. unfold pstep in L. cbn [fst snd] in L. rewrite E in L. cbn [snd] in L. congruence.
Qed.

(* ---- amplitudes in the flat vector: big-endian index (qubit 0 is the most significant bit) *)
Fixpoint idx (pi : list bool) : nat :=
  match pi with [] => 0 | b :: pi' => (if b then Nat.pow 2 (length pi') else 0) + idx pi' end.
Lemma flatten_length n : forall t, perfect n t -> length (flatten t) = Nat.pow 2 n.
Proof.
  induction n as [|n IH]; intros t Ht; destruct t as [c|l r]; try (destruct Ht; fail); [reflexivity|].
  destruct Ht as [Hl Hr]. cbn [flatten]. rewrite app_length, (IH l Hl), (IH r Hr). simpl. lia.
Qed.
Lemma idx_bound : forall pi, idx pi < Nat.pow 2 (length pi).
Proof. induction pi as [|b pi IH]; simpl; [lia|]. destruct b; lia. Qed.
Lemma nth_flatten n : forall t pi, perfect n t -> length pi = n -> nth (idx pi) (flatten t) C0 = tget pi t.
Proof.
  induction n as [|n IH]; intros t pi Ht Hpi; destruct t as [c|l r]; try (destruct Ht; fail).
  - destruct pi; [reflexivity|discriminate].
  - destruct Ht as [Hl Hr]. destruct pi as [|b pi]; [discriminate|]. injection Hpi as Hpi.
    cbn [idx flatten tget]. pose proof (idx_bound pi) as B. rewrite Hpi in B.
    destruct b.
    + rewrite app_nth2; rewrite (flatten_length n l Hl), Hpi; [|lia].
      replace (2 ^ n + idx pi - 2 ^ n) with (idx pi) by lia. apply IH; assumption.
    + rewrite app_nth1 by (rewrite (flatten_length n l Hl); lia). apply IH; assumption.
Qed.

Lemma nth_map_scale c l i : nth i (map (Cmul c) l) C0 = Cmul c (nth i l C0).
Proof. rewrite <- (map_nth (Cmul c) l C0). f_equal. ring. Qed.

(* LinearQubitOperator, one term: the column of every basis state.  For the basis state with qubit values k (amplitude number
   idx k), the Pauli word w sends the mask of k to (phase, mask'); the output amplitude at mask' is c * phase * input amplitude. *)
Theorem lqo_term_correct n w c t k : perfect n t -> increasing_from 0 n w -> length k = n ->
  exists k', length k' = n /\
    apply_word w (mask_of_path k) = (fst (apply_word w (mask_of_path k)), mask_of_path k') /\
    nth (idx k') (lqo_term w c t) C0 = Cmul c (Cmul (fst (apply_word w (mask_of_path k))) (nth (idx k) (flatten t) C0)).
Proof.
  intros Ht Hw Hk.
  exists (snd (papply_lr w (C1, k))).
  assert (Hl : length (snd (papply_lr w (C1, k))) = n) by (rewrite papply_lr_length; exact Hk).
  assert (Hm : apply_word w (mask_of_path k) = (fst (papply_lr w (C1, k)), mask_of_path (snd (papply_lr w (C1, k))))).
  { rewrite apply_word_W, <- (apply_lr_W n w 0 _ Hw). apply (apply_lr_mask n w 0); assumption. }
  split; [exact Hl|]. split; [rewrite Hm; reflexivity|].
  rewrite (lqo_term_tree n w c t Ht Hw), Hm. cbn [fst].
  assert (Hp : perfect n (fold_left tree_step w t)).
  { clear - Ht. revert t Ht. induction w as [|f w IH]; intros t Ht; [exact Ht|]. cbn [fold_left]. apply IH. apply apply_at_perfect. exact Ht. }
  rewrite nth_map_scale.
  rewrite (nth_flatten n _ _ Hp Hl), (nth_flatten n t k Ht Hk), (tree_fold_column n w 0 t k Ht Hw Hk). reflexivity.
Qed.

(* ---- the whole operator: retvec is the entrywise sum of the term vectors; numpy arrays of length 2^n are perfect trees *)
Lemma tree_of_perfect n : forall x, perfect n (tree_of n x).
Proof. induction n as [|n IH]; intros x; cbn [tree_of perfect]; [exact I|split; apply IH]. Qed.
Lemma flatten_tree_of n : forall x, length x = Nat.pow 2 n -> flatten (tree_of n x) = x.
Proof.
  induction n as [|n IH]; intros x Hx.
  - destruct x as [|a [|b x]]; try discriminate. reflexivity.
  - cbn [tree_of flatten]. rewrite IH, IH.
    + apply firstn_skipn.
    + rewrite skipn_length, Hx. simpl. lia.
    + rewrite firstn_length, Hx. simpl. lia.
Qed.
Lemma vadd_length : forall a b, length a = length b -> length (vadd a b) = length a.
Proof. induction a as [|x a IH]; intros [|y b] H; try discriminate; [reflexivity|]. simpl. f_equal. apply IH. simpl in H. lia. Qed.
Lemma vadd_nth : forall a b i, length a = length b -> nth i (vadd a b) C0 = Cadd (nth i a C0) (nth i b C0).
Proof.
  induction a as [|x a IH]; intros [|y b] i H; try discriminate.
  - destruct i; simpl; ring.
  - destruct i; simpl; [reflexivity|]. apply IH. simpl in H. lia.
Qed.
Definition canonical_op (n : nat) (op : qop) : Prop := Forall (fun tc => increasing_from 0 n (fst tc)) op.
Lemma lqo_term_length n w c t : perfect n t -> increasing_from 0 n w -> length (lqo_term w c t) = Nat.pow 2 n.
Proof.
  intros Ht Hw. rewrite (lqo_term_tree n w c t Ht Hw), map_length. apply flatten_length.
  clear - Ht. revert t Ht. induction w as [|f w IH]; intros t Ht; [exact Ht|]. cbn [fold_left]. apply IH. apply apply_at_perfect. exact Ht.
Qed.
Theorem lqo_is_sum_of_terms n op x i : canonical_op n op ->
  nth i (lqo n op x) C0 = fold_left (fun acc tc => Cadd acc (nth i (lqo_term (fst tc) (snd tc) (tree_of n x)) C0)) op C0.
Proof.
  intros Hop. unfold lqo.
  assert (G : forall acc, length acc = Nat.pow 2 n ->
    nth i (fold_left (fun acc tc => vadd acc (lqo_term (fst tc) (snd tc) (tree_of n x))) op acc) C0 =
    fold_left (fun a tc => Cadd a (nth i (lqo_term (fst tc) (snd tc) (tree_of n x)) C0)) op (nth i acc C0)).
  { induction op as [|tc op IH]; intros acc Hacc; [reflexivity|].
    inversion Hop as [|? ? H1 H2]; subst. cbn [fold_left].
    pose proof (lqo_term_length n (fst tc) (snd tc) (tree_of n x) (tree_of_perfect n x) H1) as L.
    assert (E : length acc = length (lqo_term (fst tc) (snd tc) (tree_of n x))) by (rewrite Hacc, L; reflexivity).
    rewrite (IH H2) by (rewrite vadd_length; [exact Hacc|exact E]).
    rewrite vadd_nth by exact E. reflexivity. }
  rewrite G by apply repeat_length.
  f_equal. clear. generalize (Nat.pow 2 n). intros m. revert i. induction m as [|m IH]; intros [|i]; simpl; auto.
Qed.

(* non-vacuity: X0 Y2 on three qubits, canonical, acts on a perfect tree; amplitude 5 = |101> goes to |000> with phase -i *)
Example lqo_example :
  increasing_from 0 3 [(0%N, PX); (2%N, PY)] /\
  lqo 3 [([(0%N, PX); (2%N, PY)], C1)] (map (fun k => if Nat.eqb k 5 then C1 else C0) (seq 0 8)) =
  map (fun k => if Nat.eqb k 0 then Copp Ci else C0) (seq 0 8).
Proof. split; [simpl; lia|vm_compute; reflexivity]. Qed.
