(* hermitian_conjugated on fermionic words/operators is the adjoint: its matrix in the occupation
   basis is the conjugate transpose, for every operator, all modes and all basis states. *)
From Coq Require Import QArith Qcanon NArith List Bool Ring Lia.
From OFV Require Import Base.Cplx Base.Lin Sem.PauliSem Sem.FermiSem Model.SymbolicOp Model.LadderOp
  Model.Conjugate Thm.C04.JWSound.
Close Scope Qc_scope. Close Scope Q_scope.
Import ListNotations.

Notation ncoeff := (@coeff N N.eqb).

Lemma Cconj_sgn b : Cconj (sgn b) = sgn b.
Proof. destruct b; ceq. Qed.
Lemma Cconj_0 : Cconj C0 = C0. Proof. ceq. Qed.

Lemma flip_inj_l s s' j : s' = flip s j <-> s = flip s' j.
Proof. split; intros ->; rewrite flip_flip; reflexivity. Qed.

(* a single ladder factor: <s'| f^dagger |s> = conj <s| f |s'>  (entries are real) *)
Lemma fapply1_adjoint f s s' : ncoeff s' (fapply1 (dag_factor f) s) = Cconj (ncoeff s (fapply1 f s')).
Proof.
  destruct f as [j x]. unfold fapply1, dag_factor. cbn [fst snd].
  destruct (N.eq_dec s' (flip s j)) as [->|NE].
  - rewrite bit_flip_same, par_flip_self, flip_flip.
    destruct x, (bit s j); cbn [negb Bool.eqb coeff]; rewrite ?N.eqb_refl, ?Cconj_0; try reflexivity;
      rewrite Cconj_add, Cconj_sgn, Cconj_0; reflexivity.
  - assert (NE' : s <> flip s' j) by (intros E; apply NE; apply flip_inj_l; assumption).
    destruct (Bool.eqb (negb x) (bit s j)), (Bool.eqb x (bit s' j)); cbn [coeff]; rewrite ?Cconj_0; try reflexivity.
    + destruct (N.eqb_spec s (flip s' j)); [contradiction|]. rewrite Cconj_0. reflexivity.
    + destruct (N.eqb_spec s' (flip s j)); [contradiction|reflexivity].
    + destruct (N.eqb_spec s' (flip s j)); [contradiction|].
      destruct (N.eqb_spec s (flip s' j)); [contradiction|]. rewrite Cconj_0. reflexivity.
Qed.

(* fapply1 f m has support only on flip m j *)
Lemma fapply1_support f m k : k <> flip m (fst f) -> ncoeff k (fapply1 f m) = C0.
Proof.
  intros H. unfold fapply1. destruct (Bool.eqb (snd f) (bit m (fst f))); [reflexivity|].
  cbn [coeff]. destruct (N.eqb_spec k (flip m (fst f))); [contradiction|reflexivity].
Qed.

Lemma bind_fapply1_right l f k :
  ncoeff k (lbind l (fapply1 f)) = Cmul (ncoeff (flip k (fst f)) l) (ncoeff k (fapply1 f (flip k (fst f)))).
Proof.
  induction l as [|[c m] l IH]; [cbn; ring|].
  change (lbind ((c, m) :: l) (fapply1 f)) with (lscale c (fapply1 f m) ++ lbind l (fapply1 f)).
  rewrite coeff_app, coeff_scale, IH. cbn [coeff].
  destruct (N.eqb_spec (flip k (fst f)) m) as [<-|NE]; [ring|].
  rewrite (fapply1_support f m k); [ring|]. intros E. apply NE. subst k. rewrite flip_flip. reflexivity.
Qed.

Lemma bind_fapply1_left g s (F : N -> lin N) k :
  ncoeff k (lbind (fapply1 g s) F) = Cmul (ncoeff (flip s (fst g)) (fapply1 g s)) (ncoeff k (F (flip s (fst g)))).
Proof.
  unfold fapply1. destruct (Bool.eqb (snd g) (bit s (fst g))); [cbn; ring|].
  cbn [lbind flat_map fst snd app coeff]. rewrite app_nil_r, coeff_scale, N.eqb_refl. ring.
Qed.

Lemma hc_word_cons f t : hc_word (f :: t) = hc_word t ++ [dag_factor f].
Proof. unfold hc_word. cbn [rev]. rewrite map_app. reflexivity. Qed.

Lemma Cconj_real_fapply1 f m k : Cconj (ncoeff k (fapply1 f m)) = ncoeff k (fapply1 f m).
Proof.
  unfold fapply1. destruct (Bool.eqb _ _); cbn [coeff]; [apply Cconj_0|].
  destruct (N.eqb k _); [|apply Cconj_0]. rewrite Cconj_add, Cconj_sgn, Cconj_0. reflexivity.
Qed.

Theorem hc_word_adjoint t : forall s s',
  ncoeff s' (fapply_word (hc_word t) s) = Cconj (ncoeff s (fapply_word t s')).
Proof.
  induction t as [|f t IH]; intros s s'.
  - cbn. destruct (N.eqb_spec s' s) as [->|NE].
    + rewrite N.eqb_refl. ceq.
    + destruct (N.eqb_spec s s'); [congruence|]. symmetry; apply Cconj_0.
  - rewrite hc_word_cons. rewrite (fapply_word_app (hc_word t) [dag_factor f] s s').
    assert (E1 : leq N.eqb (fapply_word [dag_factor f] s) (fapply1 (dag_factor f) s)).
    { intros k. cbn [fapply_word lbind flat_map fst snd]. rewrite app_nil_r, coeff_scale. ring. }
    rewrite (coeff_bind_leq N N.eqb N.eqb_spec s' _ _ (fapply_word (hc_word t)) E1).
    rewrite bind_fapply1_left. cbn [fst dag_factor].
    rewrite IH. cbn [fapply_word]. rewrite bind_fapply1_right.
    rewrite Cconj_mul. rewrite fapply1_adjoint. ring.
Qed.

Definition hc_map (op : lop) : lop := map (fun tc => (hc_word (fst tc), Cconj (snd tc))) op.

Theorem hc_map_adjoint op s s' : ncoeff s' (fden (hc_map op) s) = Cconj (ncoeff s (fden op s')).
Proof.
  induction op as [|[t c] op IH]; [cbn; symmetry; apply Cconj_0|].
  cbn [hc_map map fden flat_map fst snd]. rewrite !coeff_app, !coeff_scale, Cconj_add, Cconj_mul.
  fold (hc_map op). fold (fden (hc_map op) s). fold (fden op s'). rewrite IH, hc_word_adjoint. reflexivity.
Qed.

(* involution and anti-multiplicativity at the level of words *)
Lemma dag_dag f : dag_factor (dag_factor f) = f.
Proof. destruct f as [j x]; unfold dag_factor; cbn; rewrite negb_involutive; reflexivity. Qed.
Theorem hc_word_involutive t : hc_word (hc_word t) = t.
Proof.
  unfold hc_word. rewrite <- map_rev, rev_involutive, map_map.
  rewrite <- (map_id t) at 2. apply map_ext. apply dag_dag.
Qed.
Theorem hc_word_app a b : hc_word (a ++ b) = hc_word b ++ hc_word a.
Proof. unfold hc_word. rewrite rev_app_distr, map_app. reflexivity. Qed.
