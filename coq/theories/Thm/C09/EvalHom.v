(* Evaluation over GF(2) is a ring homomorphism for the specification model, and canonicalisation
   preserves the denoted Boolean function: for all polynomials and all assignments. *)
From Coq Require Import NArith Arith List Bool Lia.
From OFV Require Import Model.BinaryPoly.
Import ListNotations.

Lemma beval_app a p q : beval a (p ++ q) = xorb (beval a p) (beval a q).
Proof. induction p as [|m p IH]; simpl; [destruct (beval a q); reflexivity|]. rewrite IH. rewrite xorb_assoc. reflexivity. Qed.
Theorem beval_add a p q : beval a (badd p q) = xorb (beval a p) (beval a q).
Proof. apply beval_app. Qed.

Lemma meval_app a m m' : meval a (m ++ m') = meval a m && meval a m'.
Proof. unfold meval. apply forallb_app. Qed.
Lemma beval_map_app a m q : beval a (map (fun m' => m ++ m') q) = meval a m && beval a q.
Proof.
  induction q as [|m' q IH]; simpl; [rewrite andb_false_r; reflexivity|].
  rewrite IH, meval_app. destruct (meval a m), (meval a m'), (beval a q); reflexivity.
Qed.
Theorem beval_mul a p q : beval a (bmul p q) = beval a p && beval a q.
Proof.
  induction p as [|m p IH]; simpl; [reflexivity|].
  unfold bmul in *. simpl. rewrite beval_app, beval_map_app, IH.
  destruct (meval a m), (beval a p), (beval a q); reflexivity.
Qed.
Theorem beval_pow a p n : beval a (bpow p (S n)) = beval a p.
Proof.
  induction n as [|n IH].
  - change (bpow p 1) with (bmul [[]] p). rewrite beval_mul. simpl. destruct (beval a p); reflexivity.
  - change (bpow p (S (S n))) with (bmul (bpow p (S n)) p). rewrite beval_mul, IH. destruct (beval a p); reflexivity.
Qed.
Theorem beval_const a b : beval a (bconst b) = b.
Proof. destruct b; reflexivity. Qed.
Theorem beval_shift a p c : beval a (bshift p c) = beval (N.shiftr a (N.of_nat c)) p.
Proof.
  induction p as [|m p IH]; simpl; [reflexivity|]. rewrite IH. f_equal.
  unfold meval. clear IH. induction m as [|v m IHm]; simpl; [reflexivity|]. rewrite IHm. f_equal.
  unfold abit. rewrite N.shiftr_spec by lia. f_equal. lia.
Qed.

(* canonical forms denote the same function *)
Lemma meval_ins a x l : meval a (ins x l) = abit a x && meval a l.
Proof.
  induction l as [|y l IH]; simpl; [reflexivity|].
  destruct (x <? y) eqn:E1; [reflexivity|]. destruct (Nat.eqb_spec x y) as [->|NE].
  - simpl. destruct (abit a y); reflexivity.
  - simpl. rewrite IH. destruct (abit a x), (abit a y); reflexivity.
Qed.
Lemma meval_mcanon a m : meval a (mcanon m) = meval a m.
Proof. induction m as [|x m IH]; simpl; [reflexivity|]. rewrite meval_ins, IH. reflexivity. Qed.
Lemma mono_eqb_eq m m' : mono_eqb m m' = true -> m = m'.
Proof. revert m'; induction m as [|x m IH]; intros [|y m'] H; simpl in H; try discriminate; [reflexivity|].
  apply andb_true_iff in H. destruct H as [H1 H2]. apply Nat.eqb_eq in H1. subst. f_equal. auto. Qed.
Lemma beval_toggle a m l : beval a (toggle_m m l) = xorb (meval a m) (beval a l).
Proof.
  induction l as [|m' l IH]; simpl; [reflexivity|].
  destruct (mono_eqb m m') eqn:E.
  - apply mono_eqb_eq in E. subst. destruct (meval a m'), (beval a l); reflexivity.
  - simpl. rewrite IH. destruct (meval a m), (meval a m'), (beval a l); reflexivity.
Qed.
Theorem beval_bcanon a p : beval a (bcanon p) = beval a p.
Proof. induction p as [|m p IH]; simpl; [reflexivity|]. rewrite beval_toggle, meval_mcanon, IH. reflexivity. Qed.
