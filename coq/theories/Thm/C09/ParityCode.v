(* [F] parity_code and jordan_wigner_code for EVERY number of modes: decoding the encoding of any occupation
   vector below 2^n returns it (models: encoder rows as bit masks, linear decoders W_i + W_{i-1} resp. W_i). *)
From Coq Require Import NArith Arith List Bool Lia.
From OFV Require Import Sem.PauliSem Sem.FermiSem Model.BinaryPoly Thm.C05.BKLinear.
Import ListNotations.

Definition parity_rows (n : nat) : list N := map (fun i => N.ones (N.of_nat (S i))) (seq 0 n).
Definition parity_dec (n : nat) : list bpoly := map (fun i => match i with O => [[0]] | S j => [[i]; [j]] end) (seq 0 n).
Definition jw_rows (n : nat) : list N := map (fun i => N.pow 2 (N.of_nat i)) (seq 0 n).
Definition jw_dec (n : nat) : list bpoly := map (fun i => [[i]]) (seq 0 n).

(* bits of fold_right-built masks over combine (seq 0 len) l *)
Lemma build_bit {A} (g : A -> bool) (l : list A) (d : A) : forall a k,
  N.testbit (fold_right (fun jr acc => if g (snd jr) then N.lor acc (N.shiftl 1 (N.of_nat (fst jr))) else acc) 0%N (combine (seq a (length l)) l)) k
  = match (N.to_nat k - a) with j => (Nat.leb a (N.to_nat k)) && (Nat.ltb j (length l)) && g (nth j l d) end.
Proof.
  induction l as [|x l IH]; intros a k; cbn [length seq combine fold_right fst snd].
  - rewrite N.bits_0. destruct (Nat.leb a (N.to_nat k)); reflexivity.
  - assert (Hb : N.testbit (N.shiftl 1 (N.of_nat a)) k = Nat.eqb (N.to_nat k) a).
    { rewrite N.shiftl_1_l. destruct (Nat.eqb_spec (N.to_nat k) a) as [E|E].
      - replace k with (N.of_nat a) by lia. apply N.pow2_bits_true.
      - apply N.pow2_bits_false. lia. }
    destruct (g x) eqn:Eg.
    + rewrite N.lor_spec, IH, Hb.
      destruct (Nat.eqb_spec (N.to_nat k) a) as [E|E].
      * rewrite E, Nat.sub_diag, Nat.leb_refl. cbn [nth]. rewrite Eg. rewrite orb_true_r. reflexivity.
      * rewrite orb_false_r.
        destruct (Nat.leb_spec (S a) (N.to_nat k)), (Nat.leb_spec a (N.to_nat k)); try lia; cbn [andb]; try reflexivity.
        replace (N.to_nat k - a)%nat with (S (N.to_nat k - S a)) by lia. cbn [nth].
        destruct (Nat.ltb_spec (N.to_nat k - S a) (length l)), (Nat.ltb_spec (S (N.to_nat k - S a)) (S (length l))); try lia; reflexivity.
    + rewrite IH. destruct (Nat.eqb_spec (N.to_nat k) a) as [E|E].
      * rewrite E, Nat.sub_diag, Nat.leb_refl. cbn [nth]. rewrite Eg.
        destruct (Nat.leb_spec (S a) a); [lia|]. destruct (Nat.ltb 0 (S (length l))); reflexivity.
      * destruct (Nat.leb_spec (S a) (N.to_nat k)), (Nat.leb_spec a (N.to_nat k)); try lia; cbn [andb]; try reflexivity.
        replace (N.to_nat k - a)%nat with (S (N.to_nat k - S a)) by lia. cbn [nth].
        destruct (Nat.ltb_spec (N.to_nat k - S a) (length l)), (Nat.ltb_spec (S (N.to_nat k - S a)) (S (length l))); try lia; reflexivity.
Qed.
Lemma encode_bit rows v k : N.testbit (encode rows v) k = (Nat.ltb (N.to_nat k) (length rows)) && parity (N.land (nth (N.to_nat k) rows 0%N) v).
Proof. unfold encode. rewrite (build_bit (fun r => parity (N.land r v)) rows 0%N 0 k), Nat.sub_0_r. reflexivity. Qed.
Lemma decode_bit dec w k : N.testbit (decode dec w) k = (Nat.ltb (N.to_nat k) (length dec)) && beval w (nth (N.to_nat k) dec []).
Proof. unfold decode. rewrite (build_bit (fun p => beval w p) dec [] 0 k), Nat.sub_0_r. reflexivity. Qed.

Lemma nth_map_seq {A} (f : nat -> A) n i d : (i < n)%nat -> nth i (map f (seq 0 n)) d = f i.
Proof. intros H. rewrite (nth_indep _ d (f 0%nat)) by (rewrite map_length, seq_length; assumption). rewrite map_nth, seq_nth by assumption. reflexivity. Qed.
Lemma high_bits_zero n v k : (v < 2 ^ N.of_nat n)%N -> (N.of_nat n <= k)%N -> N.testbit v k = false.
Proof. intros Hv Hk. rewrite <- (N.mod_small v (2 ^ N.of_nat n)) by assumption. apply N.mod_pow2_bits_high. assumption. Qed.

Theorem parity_code_roundtrip n v : (v < 2 ^ N.of_nat n)%N -> decode (parity_dec n) (encode (parity_rows n) v) = v.
Proof.
  intros Hv. apply N.bits_inj. intros k. rewrite decode_bit. unfold parity_dec at 1. rewrite map_length, seq_length.
  destruct (Nat.ltb_spec (N.to_nat k) n) as [Hk|Hk]; [|symmetry; apply (high_bits_zero n); [assumption|lia]].
  cbn [andb]. set (i := N.to_nat k).
  assert (Hrow : forall j, (j < n)%nat -> N.testbit (encode (parity_rows n) v) (N.of_nat j) = par v (S j)).
  { intros j Hj. rewrite encode_bit. unfold parity_rows. rewrite map_length, seq_length, Nat2N.id.
    destruct (Nat.ltb_spec j n); [|lia]. cbn [andb].
    rewrite nth_map_seq by assumption.
    rewrite N.land_comm. apply parity_ones. }
  unfold parity_dec. rewrite nth_map_seq by assumption.
  replace k with (N.of_nat i) by (unfold i; lia).
  assert (Hi : (i < n)%nat) by (unfold i; exact Hk). clearbody i.
  destruct i as [|j].
  - cbn [beval fold_right meval forallb]. unfold abit. rewrite (Hrow 0%nat Hi). cbn [par]. unfold bit.
    destruct (N.testbit v (N.of_nat 0)); reflexivity.
  - cbn [beval fold_right meval forallb]. unfold abit. rewrite (Hrow (S j) Hi), (Hrow j ltac:(lia)). cbn [par]. unfold bit.
    destruct (N.testbit v (N.of_nat (S j))), (N.testbit v (N.of_nat j)), (par v j); reflexivity.
Qed.

Theorem jw_code_roundtrip n v : (v < 2 ^ N.of_nat n)%N -> decode (jw_dec n) (encode (jw_rows n) v) = v.
Proof.
  intros Hv. apply N.bits_inj. intros k. rewrite decode_bit. unfold jw_dec at 1. rewrite map_length, seq_length.
  destruct (Nat.ltb_spec (N.to_nat k) n) as [Hk|Hk]; [|symmetry; apply (high_bits_zero n); [assumption|lia]].
  cbn [andb]. unfold jw_dec. rewrite nth_map_seq by assumption. cbn [beval fold_right meval forallb]. unfold abit.
  rewrite N2Nat.id, encode_bit. unfold jw_rows. rewrite map_length, seq_length.
  destruct (Nat.ltb_spec (N.to_nat k) n); [|lia]. cbn [andb].
  rewrite nth_map_seq by assumption.
  rewrite N2Nat.id, N.land_comm, parity_land_pow2. destruct (N.testbit v k); reflexivity.
Qed.
(* correspondence helpers: the implementation's encoder rows / decoder polynomials are these models *)
Fixpoint nl_eqb (a b : list N) : bool := match a, b with [], [] => true | x :: a', y :: b' => N.eqb x y && nl_eqb a' b' | _, _ => false end.
Definition code_is_parity (n : nat) (rows : list N) (dec : list bpoly) : bool :=
  nl_eqb rows (parity_rows n) && forallb (fun pq => bequiv (fst pq) (snd pq)) (combine dec (parity_dec n)) && Nat.eqb (length dec) n.
Definition code_is_jw (n : nat) (rows : list N) (dec : list bpoly) : bool :=
  nl_eqb rows (jw_rows n) && forallb (fun pq => bequiv (fst pq) (snd pq)) (combine dec (jw_dec n)) && Nat.eqb (length dec) n.
