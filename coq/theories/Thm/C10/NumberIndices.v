(* [F] jw_number_indices for EVERY n_qubits and particle number: the transcription of
   [sum(2**i for i in occ) for occ in itertools.combinations(range(n), k)] lists, each exactly once,
   precisely the x < 2^n with k bits set. *)
From Coq Require Import NArith Arith List Bool Lia FinFun.
From OFV Require Import Model.BinaryPoly Check.Sectors.
Import ListNotations.

Fixpoint combos (l : list nat) (k : nat) : list (list nat) :=
  match k, l with
  | O, _ => [[]]
  | S _, [] => []
  | S k', x :: l' => map (cons x) (combos l' k') ++ combos l' k
  end.
Definition index_of (occ : list nat) : N := fold_right (fun i acc => (2 ^ N.of_nat i + acc)%N) 0%N occ.
Definition number_indices (n k : nat) : list N := map index_of (combos (seq 0 n) k).

Lemma popc_double y : popc (2 * y) = popc y.
Proof. destruct y; reflexivity. Qed.
Lemma popc_succ_double y : popc (2 * y + 1) = S (popc y).
Proof. destruct y; reflexivity. Qed.

Fixpoint nlist_eqb (a b : list N) : bool :=
  match a, b with [], [] => true | x :: a', y :: b' => N.eqb x y && nlist_eqb a' b' | _, _ => false end.

Local Open Scope N_scope.
(* the indices built from the modes a, a+1, ..., a+m-1 are 2^a * y with y < 2^m of weight k *)
Lemma combos_seq_spec m : forall a k x,
  In x (map index_of (combos (seq a m) k)) <-> exists y, x = 2 ^ N.of_nat a * y /\ y < 2 ^ N.of_nat m /\ popc y = k.
Proof.
  induction m as [|m IH]; intros a k x.
  - simpl seq. destruct k; simpl.
    + split.
      * intros [<-|[]]. exists 0. split; [lia|]. split; [lia|reflexivity].
      * intros [y [-> [Hy Hp]]]. left. assert (y = 0) by lia. subst. lia.
    + split; [intros []|]. intros [y [_ [Hy Hp]]]. assert (y = 0) by lia. subst. discriminate.
  - cbn [seq]. destruct k as [|k].
    + cbn [combos map index_of fold_right In].
      assert (Hq : forall q, popcount_pos q <> 0%nat) by (induction q; simpl; lia).
      split.
      * intros [<-|[]]. exists 0. split; [lia|]. split; [assert (2 ^ N.of_nat (S m) <> 0) by (apply N.pow_nonzero; lia); lia|reflexivity].
      * intros [y [-> [Hy Hp]]]. left. destruct y as [|q]; [lia|]. exfalso. apply (Hq q). exact Hp.
    + cbn [combos]. rewrite map_app, in_app_iff, map_map.
      assert (E2 : 2 ^ N.of_nat (S a) = 2 * 2 ^ N.of_nat a) by (rewrite Nat2N.inj_succ, N.pow_succ_r'; reflexivity).
      assert (E3 : 2 ^ N.of_nat (S m) = 2 * 2 ^ N.of_nat m) by (rewrite Nat2N.inj_succ, N.pow_succ_r'; reflexivity).
      split.
      * intros [H|H].
        -- apply in_map_iff in H. destruct H as [occ [<- Hocc]].
           assert (Hin : In (index_of occ) (map index_of (combos (seq (S a) m) k))) by (apply in_map; assumption).
           apply IH in Hin. destruct Hin as [y [Ey [Hy Hp]]].
           exists (2 * y + 1). cbn [index_of fold_right]. fold (index_of occ). rewrite Ey, E2, E3, popc_succ_double.
           repeat split; [lia|lia|congruence].
        -- apply IH in H. destruct H as [y [-> [Hy Hp]]]. exists (2 * y). rewrite E2, E3, popc_double. repeat split; [lia|lia|assumption].
      * intros [y [-> [Hy Hp]]]. rewrite E3 in Hy.
        destruct (N.even y) eqn:Ev.
        -- right. apply N.even_spec in Ev. destruct Ev as [y' ->]. rewrite popc_double in Hp.
           apply IH. exists y'. rewrite E2. repeat split; [lia|lia|assumption].
        -- left. assert (Ho : N.odd y = true) by (rewrite <- N.negb_even, Ev; reflexivity).
           apply N.odd_spec in Ho. destruct Ho as [y' ->]. rewrite popc_succ_double in Hp.
           assert (Hin : In (2 ^ N.of_nat (S a) * y') (map index_of (combos (seq (S a) m) k))).
           { apply IH. exists y'. repeat split; [lia|congruence]. }
           apply in_map_iff in Hin. destruct Hin as [occ [Eo Hocc]].
           apply in_map_iff. exists occ. split; [|assumption]. cbn [index_of fold_right]. fold (index_of occ). rewrite Eo, E2. lia.
Qed.

Lemma NoDup_app_intro' {A} (l1 l2 : list A) :
  NoDup l1 -> NoDup l2 -> (forall x, In x l1 -> ~ In x l2) -> NoDup (l1 ++ l2).
Proof.
  induction l1 as [|a l1 IH]; intros H1 H2 Hd; [exact H2|].
  simpl. inversion H1 as [|? ? Hn H1']; subst. constructor.
  - intros Hin. apply in_app_or in Hin. destruct Hin as [Hin|Hin]; [contradiction|]. apply (Hd a); [left; reflexivity|assumption].
  - apply IH; try assumption. intros x Hx. apply Hd. right. assumption.
Qed.
Lemma combos_seq_NoDup m : forall a k, NoDup (map index_of (combos (seq a m) k)).
Proof.
  induction m as [|m IH]; intros a k.
  - simpl seq. destruct k; simpl; [constructor; [intros []|constructor]|constructor].
  - cbn [seq]. destruct k as [|k]; [simpl; constructor; [intros []|constructor]|].
    cbn [combos]. rewrite map_app, map_map.
    assert (E2 : 2 ^ N.of_nat (S a) = 2 * 2 ^ N.of_nat a) by (rewrite Nat2N.inj_succ, N.pow_succ_r'; reflexivity).
    assert (Hpos : 2 ^ N.of_nat a <> 0) by (apply N.pow_nonzero; lia).
    apply NoDup_app_intro'.
    + change (map (fun occ => index_of (a :: occ)) (combos (seq (S a) m) k))
        with (map (fun occ => 2 ^ N.of_nat a + index_of occ) (combos (seq (S a) m) k)).
      rewrite <- (map_map index_of (fun x => 2 ^ N.of_nat a + x)).
      apply FinFun.Injective_map_NoDup; [intros x y H; lia|apply IH].
    + apply IH.
    + intros x H1 H2. apply in_map_iff in H1. destruct H1 as [occ [<- Hocc]].
      assert (Hin : In (index_of occ) (map index_of (combos (seq (S a) m) k))) by (apply in_map; assumption).
      apply combos_seq_spec in Hin. destruct Hin as [y [Ey _]].
      apply combos_seq_spec in H2. destruct H2 as [y' [Ey' _]].
      cbn [index_of fold_right] in Ey'. fold (index_of occ) in Ey'. rewrite Ey, E2 in Ey'.
      assert (2 ^ N.of_nat a * (1 + 2 * y) = 2 ^ N.of_nat a * (2 * y')) by lia.
      apply N.mul_cancel_l in H; [lia|assumption].
Qed.

Theorem number_indices_exact n k :
  NoDup (number_indices n k) /\
  forall x, In x (number_indices n k) <-> (x < 2 ^ N.of_nat n /\ popc x = k).
Proof.
  split; [apply combos_seq_NoDup|]. intros x. unfold number_indices. rewrite combos_seq_spec.
  simpl N.of_nat. rewrite N.pow_0_r. split.
  - intros [y [-> [Hy Hp]]]. rewrite N.mul_1_l. split; assumption.
  - intros [Hx Hp]. exists x. rewrite N.mul_1_l. repeat split; assumption.
Qed.
(* non-vacuity / the order of itertools.combinations *)
Example number_indices_4_2 : number_indices 4 2 = [3; 5; 9; 6; 10; 12].
Proof. reflexivity. Qed.
