(* In the Fock semantics the number operator of mode j is diagonal with eigenvalue = occupation of j,
   for all modes and all states: index lists selected by popcount are exactly eigenspaces of N. *)
From Coq Require Import NArith List Bool Ring.
From OFV Require Import Base.Cplx Base.Lin Sem.PauliSem Sem.FermiSem Model.LadderOp Thm.C04.JWSound.
Import ListNotations.

Theorem number_mode_diagonal j s :
  leq N.eqb (fapply_word [(j, true); (j, false)] s) (if bit s j then [(C1, s)] else []).
Proof.
  intros k. cbn [fapply_word]. unfold lbind at 2. cbn [flat_map fst snd]. rewrite app_nil_r.
  unfold fapply1. cbn [fst snd].
  destruct (bit s j) eqn:Eb; cbn [Bool.eqb lscale map lbind flat_map app]; [|reflexivity].
  rewrite app_nil_r. cbn [fst snd]. rewrite bit_flip_same, Eb.
  cbn [negb Bool.eqb lscale map]. rewrite flip_flip, par_flip_self. cbn [coeff fst snd].
  destruct (N.eqb k s); [|reflexivity].
  transitivity (Cmul (Cmul (sgn (par s (N.to_nat j))) (sgn (par s (N.to_nat j)))) C1); [ring|]. rewrite sgn_sq. ring.
Qed.

Definition number_op (n : nat) : lop := map (fun j => ([(N.of_nat j, true); (N.of_nat j, false)], C1)) (seq 0 n).
Fixpoint occ_count (s : N) (n : nat) : nat :=
  match n with O => O | S n' => (if bit s (N.of_nat n') then 1 else 0) + occ_count s n' end.
Fixpoint Cnat (n : nat) : C := match n with O => C0 | S n' => Cadd C1 (Cnat n') end.

(* N |s> = (number of occupied modes below n) |s> *)
Theorem number_op_eigen n s k :
  coeff N.eqb k (fden (number_op n) s) = Cmul (Cnat (occ_count s n)) (coeff N.eqb k [(C1, s)]).
Proof.
  unfold number_op. induction n as [|n IH].
  - cbn. ring.
  - rewrite seq_S, map_app. cbn [plus]. unfold fden in *. rewrite flat_map_app, coeff_app.
    match goal with |- Cadd ?a ?b = _ => replace a with (Cmul (Cnat (occ_count s n)) (coeff N.eqb k [(C1, s)])) by (symmetry; exact IH) end.
    cbn [map flat_map fst snd]. rewrite app_nil_r, coeff_scale, (number_mode_diagonal (N.of_nat n) s k).
    cbn [occ_count]. destruct (bit s (N.of_nat n)); cbn [plus Cnat coeff]; destruct (N.eqb k s); ring.
Qed.
