(* [B] structural properties of the Givens schedules for every size in the stated ranges (complete
   enumeration): every rotation acts on adjacent columns, rotations of one layer act on pairwise
   disjoint pairs, the number of layers respects the documented depth, and the zeroed entries are
   exactly the required ones, each once. *)
From Coq Require Import Arith List Bool.
From OFV Require Import Model.Givens.
Import ListNotations.

Theorem square_schedule_ok_32 :
  forallb (fun n => layers_ok (2 * (n - 1) - 1) (pairs_of_square n) && square_covers n) (seq 1 32) = true.
Proof. vm_compute. reflexivity. Qed.
Theorem rect_schedule_ok_20 :
  forallb (fun n => forallb (fun m => layers_ok (n - 1) (pairs_of_rect m n) && (Nat.eqb m n || rect_covers m n)) (seq 1 n)) (seq 1 20) = true.
Proof. vm_compute. reflexivity. Qed.
Theorem gauss_schedule_ok_32 :
  forallb (fun n => layers_ok (2 * n - 1) (pairs_of_gauss n)) (seq 1 32) = true.
Proof. vm_compute. reflexivity. Qed.
