(* [F] the Givens schedules for EVERY size: every rotation acts on adjacent columns (c-1, c) with
   c >= 1 (resp. (c, c+1)), the rotations of one layer act on pairwise disjoint column pairs (their
   columns advance in steps of 2), and the number of layers is the documented depth. *)
From Coq Require Import Arith List Bool Lia.
From OFV Require Import Model.Givens.
Import ListNotations.

(* columns of one layer: an arithmetic progression with step 2 *)
Inductive step2 : list nat -> Prop :=
| s2_nil : step2 []
| s2_one c : step2 [c]
| s2_cons c l : step2 (c + 2 :: l) -> step2 (c :: c + 2 :: l).
Lemma range_step2 fuel a b : step2 (range_step fuel a b 2).
Proof.
  revert a. induction fuel as [|f IH]; intros a; simpl; [constructor|].
  destruct (a <? b); [|constructor]. specialize (IH (a + 2)). destruct f; simpl in *; [constructor|].
  destruct (a + 2 <? b); [|constructor]. constructor. exact IH.
Qed.
Lemma range_step_ge fuel a b c : In c (range_step fuel a b 2) -> a <= c.
Proof.
  revert a. induction fuel as [|f IH]; intros a H; [contradiction|]. simpl in H.
  destruct (a <? b); [|contradiction]. destruct H as [<-|H]; [lia|]. apply IH in H. lia.
Qed.
Lemma step2_tail c l : step2 (c :: l) -> step2 l.
Proof. intros H. inversion H; subst; [constructor|assumption]. Qed.
Lemma step2_gt c l x : step2 (c :: l) -> In x l -> c + 2 <= x.
Proof.
  revert c. induction l as [|d l IH]; intros c H Hx; [contradiction|].
  inversion H; subst. destruct Hx as [<-|Hx]; [lia|]. specialize (IH (c + 2) H1 Hx). lia.
Qed.
Lemma step2_firstn k l : step2 l -> step2 (firstn k l).
Proof.
  revert k. induction l as [|c l IH]; intros k H; [rewrite firstn_nil; constructor|].
  destruct k; [constructor|]. simpl. destruct l as [|d l]; [rewrite firstn_nil; constructor|].
  inversion H; subst. destruct k; simpl; [constructor|]. constructor. apply (IH (S k)). assumption.
Qed.
Lemma map_snd_combine (a b : list nat) : map snd (combine a b) = firstn (length a) b.
Proof. revert b. induction a as [|x a IH]; intros [|y b]; simpl; try reflexivity. rewrite IH. reflexivity. Qed.

Lemma pairs_left_ok cols : step2 cols -> (forall c, In c cols -> 1 <= c) ->
  forallb adjacent (map (fun c => (c - 1, c)) cols) && disjoint_pairs (map (fun c => (c - 1, c)) cols) = true.
Proof.
  induction cols as [|c l IH]; intros H1 H2; [reflexivity|].
  assert (IH' := IH (step2_tail _ _ H1) ltac:(intros; apply H2; right; assumption)).
  apply andb_true_iff in IH'. destruct IH' as [A D]. pose proof (H2 c (or_introl eq_refl)) as Hc.
  simpl. apply andb_true_iff. split; apply andb_true_iff; split; try assumption.
  - unfold adjacent. simpl. apply Nat.eqb_eq. lia.
  - apply forallb_forall. intros q Hq. apply in_map_iff in Hq. destruct Hq as [x [<- Hx]].
    pose proof (step2_gt c l x H1 Hx). simpl. apply negb_true_iff. rewrite !orb_false_iff.
    repeat split; apply Nat.eqb_neq; lia.
Qed.
Lemma pairs_right_ok cols : step2 cols ->
  forallb adjacent (map (fun c => (c, c + 1)) cols) && disjoint_pairs (map (fun c => (c, c + 1)) cols) = true.
Proof.
  induction cols as [|c l IH]; intros H1; [reflexivity|].
  assert (IH' := IH (step2_tail _ _ H1)). apply andb_true_iff in IH'. destruct IH' as [A D].
  simpl. apply andb_true_iff. split; apply andb_true_iff; split; try assumption.
  - unfold adjacent. simpl. apply Nat.eqb_eq. lia.
  - apply forallb_forall. intros q Hq. apply in_map_iff in Hq. destruct Hq as [x [<- Hx]].
    pose proof (step2_gt c l x H1 Hx). simpl. apply negb_true_iff. rewrite !orb_false_iff.
    repeat split; apply Nat.eqb_neq; lia.
Qed.

Lemma layer_pairs_left (rows cols : list nat) :
  map (fun rc : nat * nat => (snd rc - 1, snd rc)) (combine rows cols) = map (fun c => (c - 1, c)) (firstn (length rows) cols).
Proof. rewrite <- map_snd_combine, map_map. reflexivity. Qed.
Lemma layer_pairs_right (rows cols : list nat) :
  map (fun rc : nat * nat => (snd rc, snd rc + 1)) (combine rows cols) = map (fun c => (c, c + 1)) (firstn (length rows) cols).
Proof. rewrite <- map_snd_combine, map_map. reflexivity. Qed.
Lemma In_firstn {A} k (l : list A) x : In x (firstn k l) -> In x l.
Proof. revert k. induction l as [|a l IH]; intros [|k] H; simpl in *; try contradiction. destruct H; [left|right]; eauto. Qed.

Theorem square_layers_ok n : 1 <= n -> layers_ok (2 * (n - 1) - 1) (pairs_of_square n) = true.
Proof.
  intros Hn. unfold layers_ok, pairs_of_square, square_schedule. apply andb_true_iff. split.
  - apply forallb_forall. intros l Hl. rewrite map_map in Hl. apply in_map_iff in Hl. destruct Hl as [k [<- Hk]]. apply in_seq in Hk.
    unfold square_layer, zipn. rewrite layer_pairs_left. apply pairs_left_ok.
    + apply step2_firstn, range_step2.
    + intros c Hc. apply In_firstn in Hc. apply range_step_ge in Hc. destruct (Nat.ltb_spec k (n - 1)); lia.
  - rewrite !map_length, seq_length. apply Nat.leb_le. lia.
Qed.
Theorem rect_layers_ok m n : 1 <= m -> m <= n -> layers_ok (n - 1) (pairs_of_rect m n) = true.
Proof.
  intros Hm Hmn. unfold layers_ok, pairs_of_rect, rect_schedule. destruct (Nat.eqb_spec m n) as [E|E]; [reflexivity|].
  apply andb_true_iff. split.
  - apply forallb_forall. intros l Hl. rewrite map_map in Hl. apply in_map_iff in Hl. destruct Hl as [k [<- Hk]]. apply in_seq in Hk.
    unfold rect_layer, zipn.
    destruct (Nat.ltb_spec k (Nat.min m (n - m) - 1)) as [E1|E1];
      [|destruct (Nat.ltb_spec (n - 1 - Nat.min m (n - m)) k) as [E2|E2]; [|destruct (Nat.eqb_spec (Nat.min m (n - m)) m) as [E3|E3]]];
    rewrite layer_pairs_left; apply pairs_left_ok; try (apply step2_firstn, range_step2);
    intros c Hc; apply In_firstn in Hc; apply range_step_ge in Hc; lia.
  - rewrite !map_length, seq_length. apply Nat.leb_le. lia.
Qed.
Theorem gauss_layers_ok n : layers_ok (2 * n - 1) (pairs_of_gauss n) = true.
Proof.
  unfold layers_ok, pairs_of_gauss, gauss_schedule. apply andb_true_iff. split.
  - apply forallb_forall. intros l Hl. rewrite map_map in Hl. apply in_map_iff in Hl. destruct Hl as [k [<- Hk]].
    unfold gauss_layer, zipn. rewrite layer_pairs_right. apply pairs_right_ok. apply step2_firstn, range_step2.
  - rewrite !map_length, seq_length. apply Nat.leb_le. lia.
Qed.
