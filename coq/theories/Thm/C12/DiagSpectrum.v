(* [F] the many-body spectrum of a diagonal quadratic form: for EVERY list of orbital energies eps and
   every constant c, the operator  sum_k eps_k a+_k a_k + c  maps every Fock state |s> to
   (c + sum of eps_k over the modes occupied in s) |s>: the spectrum is the set of subset sums. *)
From Coq Require Import ZArith NArith List Bool Ring.
From OFV Require Import Base.Cplx Base.Lin Sem.PauliSem Sem.FermiSem Model.LadderOp Thm.C10.NumberOp.
Import ListNotations.

Definition diag_ham (eps : list C) (c : C) : lop :=
  ([], c) :: map (fun jk => ([(N.of_nat (fst jk), true); (N.of_nat (fst jk), false)], snd jk)) (combine (seq 0 (length eps)) eps).
Fixpoint subset_sum (eps : list C) (s : N) (j : nat) : C :=
  match eps with
  | [] => C0
  | e :: eps' => Cadd (if bit s (N.of_nat j) then e else C0) (subset_sum eps' s (S j))
  end.

Lemma diag_terms_from eps s k j0 :
  coeff N.eqb k (flat_map (fun tc : lword * C => lscale (snd tc) (fapply_word (fst tc) s))
     (map (fun jk => ([(N.of_nat (fst jk), true); (N.of_nat (fst jk), false)], snd jk)) (combine (seq j0 (length eps)) eps)))
  = Cmul (subset_sum eps s j0) (coeff N.eqb k [(C1, s)]).
Proof.
  revert j0. induction eps as [|e eps IH]; intros j0.
  - cbn. ring.
  - cbn [length seq combine map flat_map fst snd subset_sum]. rewrite coeff_app, coeff_scale, IH.
    rewrite (number_mode_diagonal (N.of_nat j0) s k).
    destruct (bit s (N.of_nat j0)); cbn [coeff fst snd]; destruct (N.eqb k s); ring.
Qed.

Theorem diag_ham_eigen eps c s k :
  coeff N.eqb k (fden (diag_ham eps c) s) = Cmul (Cadd c (subset_sum eps s 0)) (coeff N.eqb k [(C1, s)]).
Proof.
  unfold diag_ham, fden. cbn [flat_map fst snd]. rewrite coeff_app, coeff_scale, diag_terms_from.
  cbn [fapply_word coeff fst snd]. destruct (N.eqb k s); ring.
Qed.
(* non-vacuity: energies (3, -1), state 2 = mode 1 occupied: the occupied energies sum to -1 *)
Example diag_ham_example : subset_sum [CofZ 3%Z; CofZ (Z.opp 1%Z)] 2%N 0%nat = CofZ (Z.opp 1%Z).
Proof. ceq. Qed.
