(* [B] for every lattice x, y <= 12, periodic or open, the transcribed neighbour enumeration yields
   exactly the edges of the grid / torus graph, each once (length-2 periodic dimensions included). *)
From Coq Require Import Arith List Bool.
From OFV Require Import Model.Hubbard.
Import ListNotations.
Definition bonds_ok (x y : nat) : bool :=
  same_edges (bonds x y true) (spec_edges x y true) && same_edges (bonds x y false) (spec_edges x y false).
Theorem hubbard_bonds_exact_12 : forallb (fun x => forallb (fun y => bonds_ok x y) (seq 1 12)) (seq 1 12) = true.
Proof. vm_compute. reflexivity. Qed.
