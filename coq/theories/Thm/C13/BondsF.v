(* [F] for EVERY lattice size x, y >= 1 and both boundary conditions, the transcribed neighbour
   enumeration of hubbard.py (_right_neighbor, _bottom_neighbor and the length-2 de-duplication rule)
   produces literally the edge list of the grid / torus graph on coordinates. *)
From Coq Require Import Arith List Bool Lia.
From OFV Require Import Model.Hubbard.
Import ListNotations.

Lemma flat_map_ext_in {A B} (f g : A -> list B) l : (forall a, In a l -> f a = g a) -> flat_map f l = flat_map g l.
Proof.
  induction l as [|a l IH]; intros H; [reflexivity|]. simpl. rewrite (H a (or_introl eq_refl)).
  rewrite IH; [reflexivity|]. intros b Hb. apply H. right. assumption.
Qed.
Lemma flat_map_seq_shift {B} (f : nat -> list B) a n : flat_map f (seq a n) = flat_map (fun i => f (i + a)) (seq 0 n).
Proof.
  revert f a. induction n as [|n IH]; intros f a; [reflexivity|]. simpl. rewrite (IH f (S a)).
  f_equal. rewrite (IH (fun i => f (i + a)) 1). apply flat_map_ext_in. intros i _. f_equal. lia.
Qed.
Lemma flat_map_grid {B} (f : nat -> list B) x y :
  flat_map f (seq 0 (x * y)) = flat_map (fun cy => flat_map (fun cx => f (sid x cx cy)) (seq 0 x)) (seq 0 y).
Proof.
  induction y as [|y IH].
  - rewrite Nat.mul_0_r. reflexivity.
  - replace (x * S y) with (x * y + x) by lia. rewrite seq_app, flat_map_app, IH.
    rewrite seq_S, flat_map_app. f_equal. simpl. rewrite app_nil_r.
    rewrite flat_map_seq_shift. apply flat_map_ext_in. intros cx _. unfold sid. f_equal; lia.
Qed.

Ltac bool_cases :=
  repeat match goal with
  | |- context [?a =? ?b] => destruct (Nat.eqb_spec a b)
  | |- context [?a <? ?b] => destruct (Nat.ltb_spec a b)
  | |- context [?a <=? ?b] => destruct (Nat.leb_spec a b)
  end.

Lemma site_bonds_spec x y per cx cy : cx < x -> cy < y ->
  site_bonds (sid x cx cy) x y per =
     (if S cx <? x then [(sid x cx cy, sid x (S cx) cy)]
      else if per && (2 <? x) then [(sid x cx cy, sid x 0 cy)] else [])
     ++
     (if S cy <? y then [(sid x cx cy, sid x cx (S cy))]
      else if per && (2 <? y) then [(sid x cx cy, sid x cx 0)] else []).
Proof.
  intros Hx Hy. unfold site_bonds. f_equal.
  - (* right neighbour *)
    unfold right_neighbor, sid.
    assert (A : ((cx + x * cy + 1) mod x =? 0) = (S cx =? x)).
    { replace (cx + x * cy + 1) with (cx + 1 + cy * x) by lia. rewrite Nat.mod_add by lia.
      destruct (Nat.eqb_spec (S cx) x) as [E|E].
      - replace (cx + 1) with x by lia. rewrite Nat.mod_same by lia. reflexivity.
      - rewrite Nat.mod_small by lia. apply Nat.eqb_neq. lia. }
    assert (B : ((x =? 2) && per && ((cx + x * cy) mod 2 =? 1)) = ((x =? 2) && per && (cx =? 1))).
    { destruct (Nat.eqb_spec x 2) as [E|E]; [|reflexivity]. subst x.
      replace (cx + 2 * cy) with (cx + cy * 2) by lia. rewrite Nat.mod_add by lia. rewrite Nat.mod_small by lia. reflexivity. }
    rewrite A, B. clear A B.
    bool_cases; destruct per; simpl; try lia; try reflexivity; try (f_equal; f_equal; lia).
  - (* bottom neighbour *)
    unfold bottom_neighbor, sid.
    assert (A : (x * y <? cx + x * cy + x + 1) = (y <=? S cy)).
    { destruct (Nat.leb_spec y (S cy)) as [E|E]; [apply Nat.ltb_lt|apply Nat.ltb_ge].
      - assert (y = S cy) by lia. subst y. rewrite Nat.mul_succ_r. lia.
      - assert (Hle : x * S (S cy) <= x * y) by (apply Nat.mul_le_mono_l; lia). rewrite !Nat.mul_succ_r in Hle. lia. }
    assert (B : ((y =? 2) && per && (x <=? cx + x * cy)) = ((y =? 2) && per && (cy =? 1))).
    { destruct (Nat.eqb_spec y 2) as [E|E]; [|reflexivity]. subst y. f_equal.
      assert (cy = 0 \/ cy = 1) as [->| ->] by lia.
      - replace (cx + x * 0) with cx by lia. simpl. apply Nat.leb_gt. lia.
      - simpl. apply Nat.leb_le. lia. }
    rewrite A, B. clear A B.
    assert (Hsub : y = S cy -> cx + x * cy + x - x * y = cx) by (intros ->; rewrite Nat.mul_succ_r; lia).
    bool_cases; destruct per; simpl; try lia; try reflexivity; try (f_equal; f_equal; lia).
Qed.

Theorem bonds_are_lattice_edges x y per : 1 <= x -> 1 <= y -> bonds x y per = spec_edges x y per.
Proof.
  intros Hx Hy. unfold bonds, spec_edges. rewrite flat_map_grid.
  apply flat_map_ext_in. intros cy Hcy. apply flat_map_ext_in. intros cx Hcx.
  apply in_seq in Hcy, Hcx. apply site_bonds_spec; lia.
Qed.
