(* [F] the lattice edge list itself: for EVERY x, y >= 1 it has no repeated edge, contains no edge in
   both orientations and no self loop - "each bond counted once", also for periodic length 2. *)
From Coq Require Import Arith List Bool Lia.
From OFV Require Import Model.Hubbard Thm.C13.BondsF.
Import ListNotations.

Lemma sid_inj x cx cy cx' cy' : cx < x -> cx' < x -> sid x cx cy = sid x cx' cy' -> cx = cx' /\ cy = cy'.
Proof.
  unfold sid. intros H H' E.
  assert (E1 : (cx + x * cy) mod x = (cx' + x * cy') mod x) by (rewrite E; reflexivity).
  replace (cx + x * cy) with (cx + cy * x) in E1 by lia. replace (cx' + x * cy') with (cx' + cy' * x) in E1 by lia.
  rewrite !Nat.mod_add in E1 by lia. rewrite !Nat.mod_small in E1 by lia. subst cx'. split; [reflexivity|].
  assert (E2 : x * cy = x * cy') by lia. apply Nat.mul_cancel_l in E2; lia.
Qed.

Definition edge_rel (x y : nat) (per : bool) (a b : nat) : Prop :=
  exists cx cy, cx < x /\ cy < y /\ a = sid x cx cy /\
    ((S cx < x /\ b = sid x (S cx) cy) \/ (S cx = x /\ per = true /\ 2 < x /\ b = sid x 0 cy) \/
     (S cy < y /\ b = sid x cx (S cy)) \/ (S cy = y /\ per = true /\ 2 < y /\ b = sid x cx 0)).

Definition cell (x y : nat) (per : bool) (cy cx : nat) : list (nat * nat) :=
     (if S cx <? x then [(sid x cx cy, sid x (S cx) cy)]
      else if per && (2 <? x) then [(sid x cx cy, sid x 0 cy)] else [])
     ++
     (if S cy <? y then [(sid x cx cy, sid x cx (S cy))]
      else if per && (2 <? y) then [(sid x cx cy, sid x cx 0)] else []).
Lemma spec_edges_cells x y per : spec_edges x y per = flat_map (fun cy => flat_map (cell x y per cy) (seq 0 x)) (seq 0 y).
Proof. reflexivity. Qed.

Lemma cell_In x y per cy cx a b : cx < x -> cy < y -> In (a, b) (cell x y per cy cx) ->
  a = sid x cx cy /\
    ((S cx < x /\ b = sid x (S cx) cy) \/ (S cx = x /\ per = true /\ 2 < x /\ b = sid x 0 cy) \/
     (S cy < y /\ b = sid x cx (S cy)) \/ (S cy = y /\ per = true /\ 2 < y /\ b = sid x cx 0)).
Proof.
  intros Hx Hy Hin. unfold cell in Hin. apply in_app_or in Hin. destruct Hin as [Hin|Hin].
  - destruct (Nat.ltb_spec (S cx) x).
    + destruct Hin as [E|[]]. inversion E. split; [reflexivity|]. left. split; [assumption|reflexivity].
    + destruct per; simpl in Hin; [|contradiction]. destruct (Nat.ltb_spec 2 x); [|contradiction].
      destruct Hin as [E|[]]. inversion E. split; [reflexivity|]. right. left. repeat split; lia.
  - destruct (Nat.ltb_spec (S cy) y).
    + destruct Hin as [E|[]]. inversion E. split; [reflexivity|]. right. right. left. split; [assumption|reflexivity].
    + destruct per; simpl in Hin; [|contradiction]. destruct (Nat.ltb_spec 2 y); [|contradiction].
      destruct Hin as [E|[]]. inversion E. split; [reflexivity|]. right. right. right. repeat split; lia.
Qed.

Lemma spec_edges_In x y per a b : In (a, b) (spec_edges x y per) -> edge_rel x y per a b.
Proof.
  rewrite spec_edges_cells. intros H. apply in_flat_map in H. destruct H as [cy [Hcy H]].
  apply in_flat_map in H. destruct H as [cx [Hcx H]]. apply in_seq in Hcy, Hcx.
  exists cx, cy. destruct (cell_In x y per cy cx a b) as [E D]; try lia; [assumption|]. repeat split; try lia; assumption.
Qed.

(* an edge never occurs in both orientations; in particular there are no self loops *)
Theorem spec_edges_asym x y per a b : In (a, b) (spec_edges x y per) -> ~ In (b, a) (spec_edges x y per).
Proof.
  intros H1 H2. apply spec_edges_In in H1, H2.
  destruct H1 as [cx [cy [Hx [Hy [Ea D1]]]]]. destruct H2 as [cx' [cy' [Hx' [Hy' [Eb D2]]]]].
  destruct D1 as [[L1 E1]|[[L1 [_ [G1 E1]]]|[[L1 E1]|[L1 [_ [G1 E1]]]]]];
  destruct D2 as [[L2 E2]|[[L2 [_ [G2 E2]]]|[[L2 E2]|[L2 [_ [G2 E2]]]]]];
  rewrite Eb in E1; rewrite Ea in E2;
  (apply sid_inj in E1; [|lia|lia]); (apply sid_inj in E2; [|lia|lia]); lia.
Qed.
Corollary spec_edges_no_loop x y per a : ~ In (a, a) (spec_edges x y per).
Proof. intros H. exact (spec_edges_asym x y per a a H H). Qed.

Lemma NoDup_flat_map {A B} (f : A -> list B) l :
  NoDup l -> (forall a, In a l -> NoDup (f a)) ->
  (forall a a' b, In a l -> In a' l -> In b (f a) -> In b (f a') -> a = a') -> NoDup (flat_map f l).
Proof.
  induction l as [|a l IH]; intros Hl Hf Hd; [constructor|]. simpl.
  inversion Hl as [|? ? Hn Hl']; subst.
  assert (IH' : NoDup (flat_map f l)).
  { apply IH; [assumption|intros; apply Hf; right; assumption|]. intros a1 a2 b H1 H2. apply Hd; right; assumption. }
  clear IH. assert (Hfa := Hf a (or_introl eq_refl)).
  assert (Hdis : forall b, In b (f a) -> ~ In b (flat_map f l)).
  { intros b Hb Hin. apply in_flat_map in Hin. destruct Hin as [a' [Ha' Hb']].
    assert (a = a') by (apply (Hd a a' b); [left; reflexivity|right; assumption|assumption|assumption]). subst. contradiction. }
  revert Hfa Hdis. generalize (f a) as l1. induction l1 as [|b l1 IH1]; intros Hfa Hdis; [exact IH'|].
  simpl. inversion Hfa; subst. constructor.
  - intros Hin. apply in_app_or in Hin. destruct Hin as [Hin|Hin]; [contradiction|]. apply (Hdis b); [left; reflexivity|assumption].
  - apply IH1; [assumption|]. intros b' Hb'. apply Hdis. right. assumption.
Qed.

Theorem spec_edges_NoDup x y per : NoDup (spec_edges x y per).
Proof.
  rewrite spec_edges_cells. apply NoDup_flat_map; [apply seq_NoDup| |].
  - intros cy Hcy. apply in_seq in Hcy. apply NoDup_flat_map; [apply seq_NoDup| |].
    + intros cx Hcx. apply in_seq in Hcx. unfold cell.
      assert (N1 : forall e : nat * nat, NoDup [e]) by (intros; constructor; [intros []|constructor]).
      destruct (Nat.ltb_spec (S cx) x); destruct (Nat.ltb_spec (S cy) y); destruct per; simpl;
      destruct (Nat.ltb_spec 2 x); destruct (Nat.ltb_spec 2 y); simpl;
      match goal with
      | |- NoDup [] => constructor
      | |- NoDup [_] => apply N1
      | |- NoDup [_; _] => constructor; [|apply N1]; intros [E|[]];
            assert (E' := f_equal snd E); simpl in E'; (apply sid_inj in E'; [|lia|lia]); lia
      end.
    + intros cx cx' [a b] Hcx Hcx' H1 H2. apply in_seq in Hcx, Hcx'.
      apply cell_In in H1; [|lia|lia]. apply cell_In in H2; [|lia|lia].
      destruct H1 as [E1 _], H2 as [E2 _]. rewrite E1 in E2. apply sid_inj in E2; lia.
  - intros cy cy' [a b] Hcy Hcy' H1 H2. apply in_seq in Hcy, Hcy'.
    apply in_flat_map in H1, H2. destruct H1 as [cx [Hcx H1]], H2 as [cx' [Hcx' H2]]. apply in_seq in Hcx, Hcx'.
    apply cell_In in H1; [|lia|lia]. apply cell_In in H2; [|lia|lia].
    destruct H1 as [E1 _], H2 as [E2 _]. rewrite E1 in E2. apply sid_inj in E2; lia.
Qed.

Theorem each_bond_once x y per : 1 <= x -> 1 <= y ->
  NoDup (bonds x y per) /\ (forall a b, In (a, b) (bonds x y per) -> ~ In (b, a) (bonds x y per)).
Proof.
  intros Hx Hy. rewrite (bonds_are_lattice_edges x y per Hx Hy).
  split; [apply spec_edges_NoDup|apply spec_edges_asym].
Qed.
(* non-vacuity: the 2 x 3 periodic lattice has 2*3/2 + 2*3 = 9 bonds *)
Example bonds_2x3 : length (bonds 2 3 true) = 9.
Proof. reflexivity. Qed.
