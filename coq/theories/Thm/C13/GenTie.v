(* Obligations re-proved on every run against functions regenerated (by harness/vf/gen.py) from the
   current source of hamiltonians/hubbard.py: for ALL non-negative arguments the translated
   _right_neighbor / _bottom_neighbor (Python integers as Z) equal the hand model on nat that the bond
   theorems are about. *)
From Coq Require Import ZArith Arith List Bool Lia ZifyBool ZifyNat.
From OFV Require Import Model.Hubbard Gen.HubbardNeighbors.
Ltac Zify.zify_post_hook ::= Z.div_mod_to_equations.

Theorem gen_right_neighbor_is_model : forall s x y per, (1 <= x)%nat ->
  gen_right_neighbor (Z.of_nat s) (Z.of_nat x) (Z.of_nat y) per = option_map Z.of_nat (right_neighbor s x y per).
Proof.
  intros s x y per Hx. unfold gen_right_neighbor, right_neighbor.
  destruct (Z.eqb_spec (Z.of_nat x) 1); destruct (Nat.eqb_spec x 1); try lia; [reflexivity|].
  replace (Z.of_nat s + 1)%Z with (Z.of_nat (s + 1)) by lia. rewrite <- Nat2Z.inj_mod.
  destruct (Nat.eqb_spec ((s + 1) mod x) 0) as [E|E].
  - rewrite E. simpl. assert (x <= s + 1)%nat by (destruct (le_lt_dec x (s + 1)); [assumption|rewrite Nat.mod_small in E by lia; lia]).
    destruct per; simpl; [f_equal; lia|reflexivity].
  - destruct (Z.eqb_spec (Z.of_nat ((s + 1) mod x)) 0); [lia|]. simpl. f_equal; lia.
Qed.
Theorem gen_bottom_neighbor_is_model : forall s x y per, (1 <= y)%nat ->
  gen_bottom_neighbor (Z.of_nat s) (Z.of_nat x) (Z.of_nat y) per = option_map Z.of_nat (bottom_neighbor s x y per).
Proof.
  intros s x y per Hy. unfold gen_bottom_neighbor, bottom_neighbor.
  destruct (Z.eqb_spec (Z.of_nat y) 1); destruct (Nat.eqb_spec y 1); try lia; [reflexivity|].
  destruct (Z.ltb_spec (Z.of_nat x * Z.of_nat y) (Z.of_nat s + Z.of_nat x + 1)); destruct (Nat.ltb_spec (x * y) (s + x + 1)); try lia;
  destruct per; simpl; try reflexivity; f_equal; lia.
Qed.
