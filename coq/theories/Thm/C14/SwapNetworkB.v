(* [B] for every number of modes n <= 40 and both offsets: the swap network applies its callback to
   every unordered pair of modes exactly once, always on adjacent positions, and leaves the modes in
   reversed order (complete enumeration of n). *)
From Coq Require Import Arith List Bool.
From OFV Require Import Model.SwapNetwork.
Import ListNotations.
Theorem swap_network_ok_40 : forallb (fun n => swap_network_ok n false && swap_network_ok n true) (seq 0 41) = true.
Proof. vm_compute. reflexivity. Qed.
