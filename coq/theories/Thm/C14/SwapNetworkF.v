(* [F] the swap network for EVERY number of modes n and both offsets: the final order is the reversal,
   every callback acts on adjacent positions, and every unordered pair of modes meets exactly once.
   Proof: closed form.  Put the positions on a cycle of length 2n (0..n-1 forwards, then n-1..0
   backwards); every mode advances one step per layer on that cycle. *)
From Coq Require Import Arith List Bool Lia ZArith ZifyBool ZifyNat.
From OFV Require Import Model.SwapNetwork.
Import ListNotations.
Ltac Zify.zify_post_hook ::= Z.div_mod_to_equations.

(* ---------- list level: one layer ---------- *)
Lemma swap_at_S a l i : swap_at (a :: l) (S i) = a :: swap_at l i.
Proof. destruct l; reflexivity. Qed.
Lemma swap_at_length l i : length (swap_at l i) = length l.
Proof.
  revert i. induction l as [|a l IH]; intros i; [destruct i; reflexivity|].
  destruct i; [destruct l; reflexivity|]. rewrite swap_at_S. simpl. rewrite IH. reflexivity.
Qed.
Lemma nth_swap_at l i p : S i < length l ->
  nth p (swap_at l i) 0 = nth (if p =? i then S i else if p =? S i then i else p) l 0.
Proof.
  revert i p. induction l as [|a l IH]; intros i p H; [simpl in H; lia|].
  destruct i.
  - destruct l as [|b l]; [simpl in H; lia|]. destruct p as [|[|p]]; reflexivity.
  - simpl in H. destruct p as [|p].
    + rewrite swap_at_S. reflexivity.
    + rewrite swap_at_S. cbn [nth]. rewrite IH by lia.
      change (S p =? S i) with (p =? i). change (S p =? S (S i)) with (p =? S i).
      destruct (p =? i); [reflexivity|]. destruct (p =? S i); reflexivity.
Qed.

(* position permutation of a layer starting at lo *)
Definition tau (n lo p : nat) : nat :=
  if p <? lo then p
  else if (p - lo) mod 2 =? 0 then (if S p <? n then S p else p) else p - 1.

Lemma active_ge fuel lo n j : In j (active_positions fuel lo n) -> lo <= j /\ S j < n /\ (j - lo) mod 2 = 0.
Proof.
  revert lo. induction fuel as [|f IH]; intros lo H; [contradiction|].
  simpl in H. destruct (lo <? n - 1) eqn:E; [|contradiction]. destruct H as [<-|H].
  - apply Nat.ltb_lt in E. replace (lo - lo) with 0 by lia. repeat split; try lia; reflexivity.
  - apply IH in H. destruct H as [H1 [H2 H3]]. split; [lia|]. split; [lia|].
    replace (j - lo) with (j - (lo + 2) + 1 * 2) by lia. rewrite Nat.mod_add by lia. assumption.
Qed.

Definition ev_of (l : list nat) (j : nat) : nat * nat * nat := (nth j l 0, nth (S j) l 0, j).

Lemma layer_fold fuel : forall lo cur ev n, length cur = n -> n <= lo + 2 * fuel + 1 ->
  let res := fold_left layer_step (active_positions fuel lo n) (cur, ev) in
  length (fst res) = n /\ (forall p, p < n -> nth p (fst res) 0 = nth (tau n lo p) cur 0) /\
  snd res = ev ++ map (ev_of cur) (active_positions fuel lo n).
Proof.
  induction fuel as [|f IH]; intros lo cur ev n Hlen Hfuel; cbn zeta.
  - simpl. split; [assumption|]. split; [|rewrite app_nil_r; reflexivity].
    intros p Hp. unfold tau. destruct (Nat.ltb_spec p lo); [reflexivity|].
    assert (p = lo) by lia. subst p. replace (lo - lo) with 0 by lia. simpl.
    destruct (Nat.ltb_spec (S lo) n); [lia|reflexivity].
  - cbn [active_positions]. destruct (Nat.ltb_spec lo (n - 1)) as [E|E].
    + cbn [fold_left]. change (layer_step (cur, ev) lo) with (swap_at cur lo, ev ++ [(nth lo cur 0, nth (S lo) cur 0, lo)]).
      specialize (IH (lo + 2) (swap_at cur lo) (ev ++ [(nth lo cur 0, nth (S lo) cur 0, lo)]) n).
      cbn zeta in IH. destruct IH as [H1 [H2 H3]]; [rewrite swap_at_length; assumption|lia|].
      split; [assumption|]. split.
      * intros p Hp. rewrite (H2 p Hp). rewrite nth_swap_at by lia. f_equal.
        unfold tau.
        destruct (Nat.ltb_spec p (lo + 2)); destruct (Nat.ltb_spec p lo).
        -- destruct (Nat.eqb_spec p lo); [lia|]. destruct (Nat.eqb_spec p (S lo)); [lia|reflexivity].
        -- assert (p = lo \/ p = S lo) as [-> | ->] by lia.
           ++ rewrite Nat.eqb_refl. replace (lo - lo) with 0 by lia. simpl. destruct (Nat.ltb_spec (S lo) n); [reflexivity|lia].
           ++ destruct (Nat.eqb_spec (S lo) lo); [lia|]. rewrite Nat.eqb_refl. replace (S lo - lo) with 1 by lia. simpl. lia.
        -- lia.
        -- replace ((p - lo) mod 2) with ((p - (lo + 2)) mod 2)
             by (replace (p - lo) with (p - (lo + 2) + 1 * 2) by lia; rewrite Nat.mod_add by lia; reflexivity).
           destruct ((p - (lo + 2)) mod 2 =? 0) eqn:Em.
           ++ assert ((p - (lo + 2)) mod 2 = 0) by (apply Nat.eqb_eq; assumption).
              destruct (Nat.ltb_spec (S p) n).
              ** destruct (Nat.eqb_spec (S p) lo); [lia|]. destruct (Nat.eqb_spec (S p) (S lo)); [lia|reflexivity].
              ** destruct (Nat.eqb_spec p lo); [lia|]. destruct (Nat.eqb_spec p (S lo)); [lia|reflexivity].
           ++ assert ((p - (lo + 2)) mod 2 <> 0) by (apply Nat.eqb_neq; assumption).
              assert (p <> lo + 2) by (intros ->; replace (lo + 2 - (lo + 2)) with 0 in * by lia; simpl in *; lia).
              destruct (Nat.eqb_spec (p - 1) lo); [lia|]. destruct (Nat.eqb_spec (p - 1) (S lo)); [lia|reflexivity].
      * rewrite H3. rewrite <- app_assoc. f_equal. simpl. f_equal.
        apply map_ext_in. intros j Hj. apply active_ge in Hj. unfold ev_of.
        rewrite !nth_swap_at by lia.
        destruct (Nat.eqb_spec j lo); [lia|]. destruct (Nat.eqb_spec j (S lo)); [lia|].
        destruct (Nat.eqb_spec (S j) lo); [lia|]. destruct (Nat.eqb_spec (S j) (S lo)); [lia|]. reflexivity.
    + simpl. split; [assumption|]. split; [|rewrite app_nil_r; reflexivity].
      intros p Hp. unfold tau. destruct (Nat.ltb_spec p lo); [reflexivity|].
      assert (p = lo) by lia. subst p. replace (lo - lo) with 0 by lia. simpl.
      destruct (Nat.ltb_spec (S lo) n); [lia|reflexivity].
Qed.

(* ---------- closed form ---------- *)
Ltac brk :=
  repeat match goal with
  | |- context [?a <? ?b] => destruct (Nat.ltb_spec a b)
  | |- context [?a =? ?b] => destruct (Nat.eqb_spec a b)
  end.

Section Net.
Variable n : nat.
Variable offn : nat.
Hypothesis offn_le : offn <= 1.

Definition lo (t : nat) : nat := (t + offn) mod 2.
Definition wrap (z : nat) : nat := if z <? 2 * n then z else z - 2 * n.
Definition foldc (c : nat) : nat := if c <? n then c else 2 * n - 1 - c.
(* cycle coordinate of the mode sitting on position p when the layer parity is l *)
Definition cpl (l p : nat) : nat := if (p + l) mod 2 =? 0 then p else 2 * n - 1 - p.
Definition mode_of (t c : nat) : nat := foldc (wrap (c + 2 * n - t)).
Definition occ (t p : nat) : nat := mode_of t (cpl (lo t) p).

Lemma lo_le t : lo t <= 1.
Proof. unfold lo. lia. Qed.
Lemma lo_S t : lo (S t) = 1 - lo t.
Proof. unfold lo. lia. Qed.

Lemma tau_lt l p : p < n -> tau n l p < n.
Proof. intros H. unfold tau. brk; lia. Qed.

Lemma cpl_step l p : l <= 1 -> p < n -> cpl l (tau n l p) = wrap (cpl (1 - l) p + 2 * n - 1).
Proof.
  intros Hl Hp. assert (l = 0 \/ l = 1) as [-> | ->] by lia; unfold cpl, tau, wrap; simpl (1 - _).
  - brk; lia.
  - brk; lia.
Qed.
Lemma mode_of_step t c : t < n -> c < 2 * n -> mode_of t (wrap (c + 2 * n - 1)) = mode_of (S t) c.
Proof. intros Ht Hc. unfold mode_of, wrap, foldc. brk; lia. Qed.
Lemma cpl_lt l p : p < n -> cpl l p < 2 * n.
Proof. intros. unfold cpl. brk; lia. Qed.

Lemma occ_step t p : t < n -> p < n -> occ t (tau n (lo t) p) = occ (S t) p.
Proof.
  intros Ht Hp. unfold occ. rewrite cpl_step by (try apply lo_le; assumption).
  rewrite lo_S. apply mode_of_step; [assumption|]. apply cpl_lt. assumption.
Qed.
Lemma occ_0 p : p < n -> occ 0 p = p.
Proof. intros Hp. unfold occ, mode_of, cpl, wrap, foldc, lo. brk; lia. Qed.
Lemma occ_n p : p < n -> occ n p = n - 1 - p.
Proof. intros Hp. unfold occ, mode_of, cpl, wrap, foldc, lo. brk; lia. Qed.

(* ---------- the whole network ---------- *)
Definition order_at (t : nat) : list nat := map (occ t) (seq 0 n).
Definition layer_events (t : nat) : list (nat * nat * nat) :=
  map (fun j => (occ t j, occ t (S j), j)) (active_positions n (lo t) n).

Lemma nth_order_at t p : p < n -> nth p (order_at t) 0 = occ t p.
Proof.
  intros Hp. unfold order_at. rewrite (nth_indep _ 0 (occ t 0)) by (rewrite map_length, seq_length; assumption).
  rewrite map_nth, seq_nth by assumption. reflexivity.
Qed.
Lemma list_ext_nth (l l' : list nat) : length l = length l' -> (forall p, p < length l -> nth p l 0 = nth p l' 0) -> l = l'.
Proof. intros H1 H2. apply (nth_ext l l' 0 0 H1 H2). Qed.

Lemma one_layer t ev : t < n ->
  fold_left layer_step (active_positions n (lo t) n) (order_at t, ev) = (order_at (S t), ev ++ layer_events t).
Proof.
  intros Ht.
  destruct (layer_fold n (lo t) (order_at t) ev n) as [H1 [H2 H3]];
    [unfold order_at; rewrite map_length, seq_length; reflexivity|lia|].
  destruct (fold_left layer_step (active_positions n (lo t) n) (order_at t, ev)) as [res ev'] eqn:E.
  cbn [fst snd] in H1, H2, H3. f_equal.
  - apply list_ext_nth; [unfold order_at; rewrite H1, map_length, seq_length; reflexivity|].
    intros p Hp. rewrite H1 in Hp. rewrite (H2 p Hp). rewrite nth_order_at by (apply tau_lt; assumption).
    rewrite nth_order_at by assumption. apply occ_step; assumption.
  - rewrite H3. f_equal. unfold layer_events. apply map_ext_in. intros j Hj. apply active_ge in Hj.
    unfold ev_of. rewrite !nth_order_at by lia. reflexivity.
Qed.

(* ---------- every pair meets exactly once ---------- *)
Definition c0 (m : nat) : nat := if (m + offn) mod 2 =? 0 then m else 2 * n - 1 - m.
Definition cyc (t m : nat) : nat := wrap (c0 m + t).
Definition mab (a b : nat) (e : nat * nat * nat) : bool :=
  let '(p, q, _) := e in ((p =? a) && (q =? b)) || ((p =? b) && (q =? a)).

Lemma occ_is t p m : t <= n -> p < n -> m < n -> (occ t p = m <-> cpl (lo t) p = cyc t m).
Proof.
  intros Ht Hp Hm. unfold occ, mode_of, cyc, c0, cpl, wrap, foldc, lo.
  destruct (Nat.eqb_spec ((p + (t + offn) mod 2) mod 2) 0); destruct (Nat.eqb_spec ((m + offn) mod 2) 0);
  repeat match goal with |- context [?a <? ?b] => destruct (Nat.ltb_spec a b) end; lia.
Qed.
Lemma cpl_active t j : (j - lo t) mod 2 = 0 -> lo t <= j -> S j < n ->
  cpl (lo t) j = j /\ cpl (lo t) (S j) = 2 * n - 2 - j.
Proof. intros H1 H2 H3. pose proof (lo_le t). unfold cpl. brk; lia. Qed.

Definition match_at (t a b j : nat) : Prop :=
  (cyc t a = j /\ cyc t b = 2 * n - 2 - j) \/ (cyc t b = j /\ cyc t a = 2 * n - 2 - j).

Lemma mab_spec a b x y j : mab a b (x, y, j) = true <-> (x = a /\ y = b) \/ (x = b /\ y = a).
Proof.
  unfold mab. rewrite orb_true_iff, !andb_true_iff, !Nat.eqb_eq. reflexivity.
Qed.
Lemma event_match t a b j : t < n -> a < n -> b < n -> In j (active_positions n (lo t) n) ->
  (mab a b (occ t j, occ t (S j), j) = true <-> match_at t a b j).
Proof.
  intros Ht Ha Hb Hj. apply active_ge in Hj. destruct Hj as [H1 [H2 H3]].
  destruct (cpl_active t j H3 H1 H2) as [C1 C2].
  pose proof (occ_is t j a (Nat.lt_le_incl _ _ Ht) ltac:(lia) Ha) as Ia.
  pose proof (occ_is t j b (Nat.lt_le_incl _ _ Ht) ltac:(lia) Hb) as Ib.
  pose proof (occ_is t (S j) a (Nat.lt_le_incl _ _ Ht) ltac:(lia) Ha) as Ja.
  pose proof (occ_is t (S j) b (Nat.lt_le_incl _ _ Ht) ltac:(lia) Hb) as Jb.
  rewrite C1 in Ia, Ib. rewrite C2 in Ja, Jb.
  rewrite mab_spec. unfold match_at.
  split; intros [[X Y]|[X Y]].
  - left. split; [symmetry; apply Ia; exact X|symmetry; apply Jb; exact Y].
  - right. split; [symmetry; apply Ib; exact X|symmetry; apply Ja; exact Y].
  - left. split; [apply Ia; symmetry; exact X|apply Jb; symmetry; exact Y].
  - right. split; [apply Ib; symmetry; exact X|apply Ja; symmetry; exact Y].
Qed.

Lemma active_in fuel lo0 j : n <= lo0 + 2 * fuel + 1 -> lo0 <= j -> S j < n -> (j - lo0) mod 2 = 0 ->
  In j (active_positions fuel lo0 n).
Proof.
  revert lo0. induction fuel as [|f IH]; intros lo0 Hf H1 H2 H3; [lia|].
  simpl. destruct (Nat.ltb_spec lo0 (n - 1)); [|lia].
  destruct (Nat.eq_dec lo0 j) as [->|Hne]; [left; reflexivity|right].
  assert (j <> S lo0) by (intros ->; replace (S lo0 - lo0) with 1 in H3 by lia; simpl in H3; lia).
  apply IH; lia.
Qed.
Lemma active_NoDup fuel lo0 : NoDup (active_positions fuel lo0 n).
Proof.
  revert lo0. induction fuel as [|f IH]; intros lo0; [constructor|].
  simpl. destruct (lo0 <? n - 1); [|constructor]. constructor; [|apply IH].
  intros H. apply active_ge in H. lia.
Qed.

Lemma filter_map_length {A B} (f : B -> bool) (g : A -> B) l : length (filter f (map g l)) = length (filter (fun x => f (g x)) l).
Proof. induction l as [|a l IH]; [reflexivity|]. simpl. destruct (f (g a)); simpl; rewrite IH; reflexivity. Qed.
Lemma count_zero {A} (h : A -> bool) l : (forall y, In y l -> h y = false) -> length (filter h l) = 0.
Proof.
  induction l as [|a l IH]; intros Hh; [reflexivity|]. simpl. rewrite (Hh a (or_introl eq_refl)).
  apply IH. intros y Hy. apply Hh. right. assumption.
Qed.

Lemma count_one {A} (h : A -> bool) l x : NoDup l -> In x l -> (forall y, In y l -> (h y = true <-> y = x)) -> length (filter h l) = 1.
Proof.
  induction l as [|a l IH]; intros Hn Hin Hh; [contradiction|].
  inversion Hn as [|? ? Hna Hn']; subst. simpl. destruct Hin as [->|Hin].
  - rewrite (proj2 (Hh x (or_introl eq_refl)) eq_refl). simpl. f_equal.
    apply count_zero. intros y Hy. destruct (h y) eqn:Ey; [|reflexivity].
    exfalso. apply Hna. apply (Hh y (or_intror Hy)) in Ey. subst. assumption.
  - destruct (h a) eqn:Ea.
    + exfalso. apply (Hh a (or_introl eq_refl)) in Ea. subst. contradiction.
    + apply IH; try assumption. intros y Hy. apply Hh. right. assumption.
Qed.

Lemma cyc_facts t m : t <= n -> m < n -> cyc t m < 2 * n /\ (cyc t m + lo t) mod 2 = 0.
Proof. intros Ht Hm. unfold cyc, c0, wrap, lo. brk; lia. Qed.
Lemma cyc_inj t a b : t <= n -> a < n -> b < n -> cyc t a = cyc t b -> a = b.
Proof. intros Ht Ha Hb. unfold cyc, c0, wrap. brk; lia. Qed.

Lemma layer_count t a b : t < n -> a < n -> b < n -> a <> b ->
  length (filter (mab a b) (layer_events t)) = if cyc t a + cyc t b =? 2 * n - 2 then 1 else 0.
Proof.
  intros Ht Ha Hb Hab. unfold layer_events. rewrite filter_map_length.
  destruct (cyc_facts t a (Nat.lt_le_incl _ _ Ht) Ha) as [La Pa].
  destruct (cyc_facts t b (Nat.lt_le_incl _ _ Ht) Hb) as [Lb Pb].
  assert (Hne : cyc t a <> cyc t b) by (intros E; apply Hab; exact (cyc_inj t a b (Nat.lt_le_incl _ _ Ht) Ha Hb E)).
  pose proof (lo_le t) as Hlo.
  destruct (Nat.eqb_spec (cyc t a + cyc t b) (2 * n - 2)) as [E|E].
  - apply (count_one _ _ (Nat.min (cyc t a) (cyc t b))); [apply active_NoDup| |].
    + apply active_in; lia.
    + intros j Hj. rewrite (event_match t a b j Ht Ha Hb Hj). unfold match_at. apply active_ge in Hj. lia.
  - apply count_zero. intros j Hj. destruct (mab a b (occ t j, occ t (S j), j)) eqn:Em; [|reflexivity].
    apply (event_match t a b j Ht Ha Hb Hj) in Em. unfold match_at in Em. apply active_ge in Hj. lia.
Qed.

Definition tstar (a b : nat) : nat :=
  let s := c0 a + c0 b in if s <=? 2 * n - 2 then (2 * n - 2 - s) / 2 else (4 * n - 2 - s) / 2.
Lemma meet_unique a b t : t < n -> a < n -> b < n -> a <> b ->
  ((cyc t a + cyc t b =? 2 * n - 2) = true <-> t = tstar a b).
Proof.
  intros Ht Ha Hb Hab. unfold tstar, cyc, c0, wrap.
  destruct (Nat.eqb_spec ((a + offn) mod 2) 0); destruct (Nat.eqb_spec ((b + offn) mod 2) 0);
  repeat match goal with |- context [?x <? ?y] => destruct (Nat.ltb_spec x y) end;
  match goal with |- context [?x <=? ?y] => destruct (Nat.leb_spec x y) end;
  match goal with |- context [?x =? ?y] => destruct (Nat.eqb_spec x y) end; split; intros; try discriminate; try reflexivity; lia.
Qed.
Lemma tstar_lt a b : a < n -> b < n -> a <> b -> tstar a b < n.
Proof.
  intros Ha Hb Hab. unfold tstar, c0.
  destruct (Nat.eqb_spec ((a + offn) mod 2) 0); destruct (Nat.eqb_spec ((b + offn) mod 2) 0);
  match goal with |- context [?x <=? ?y] => destruct (Nat.leb_spec x y) end; lia.
Qed.

Lemma filter_flat_map_length {A B} (f : B -> bool) (g : A -> list B) l :
  length (filter f (flat_map g l)) = list_sum (map (fun x => length (filter f (g x))) l).
Proof.
  induction l as [|a l IH]; [reflexivity|]. simpl. rewrite filter_app, app_length, IH. reflexivity.
Qed.
Lemma list_sum_indicator {A} (h : A -> bool) l : list_sum (map (fun x => if h x then 1 else 0) l) = length (filter h l).
Proof. induction l as [|a l IH]; [reflexivity|]. simpl. destruct (h a); simpl; rewrite IH; reflexivity. Qed.

Lemma pair_once a b : a < n -> b < n -> a <> b ->
  length (filter (mab a b) (flat_map layer_events (seq 0 n))) = 1.
Proof.
  intros Ha Hb Hab. rewrite filter_flat_map_length.
  rewrite (map_ext_in _ (fun t => if cyc t a + cyc t b =? 2 * n - 2 then 1 else 0)).
  - rewrite list_sum_indicator. apply (count_one _ _ (tstar a b)); [apply seq_NoDup| |].
    + apply in_seq. pose proof (tstar_lt a b Ha Hb Hab). lia.
    + intros t Ht. apply in_seq in Ht. apply meet_unique; try assumption. lia.
  - intros t Ht. apply in_seq in Ht. apply layer_count; try assumption. lia.
Qed.
End Net.

Definition offn_of (offset : bool) : nat := if offset then 1 else 0.

Lemma layers n offset k : k <= n ->
  fold_left (run_layer n offset) (seq 0 k) (seq 0 n, []) =
  (order_at n (offn_of offset) k, flat_map (layer_events n (offn_of offset)) (seq 0 k)).
Proof.
  induction k as [|k IH]; intros Hk.
  - simpl. f_equal. unfold order_at. symmetry. rewrite <- (map_id (seq 0 n)) at 2. apply map_ext_in.
    intros p Hp. apply in_seq in Hp. apply occ_0; [destruct offset; simpl; lia|lia].
  - rewrite seq_S, fold_left_app, IH by lia. simpl. unfold run_layer.
    change ((k + (if offset then 1 else 0)) mod 2) with (lo (offn_of offset) k).
    rewrite one_layer by (try (destruct offset; simpl; lia); lia).
    rewrite flat_map_app. simpl. rewrite app_nil_r. reflexivity.
Qed.

Theorem swap_network_closed_form n offset :
  swap_network n offset = (rev (seq 0 n), flat_map (layer_events n (offn_of offset)) (seq 0 n)).
Proof.
  unfold swap_network. rewrite layers by lia. f_equal.
  apply list_ext_nth; [unfold order_at; rewrite rev_length, map_length; reflexivity|].
  intros p Hp. unfold order_at in Hp. rewrite map_length, seq_length in Hp.
  rewrite nth_order_at by assumption. rewrite occ_n by (try (destruct offset; simpl; lia); assumption).
  rewrite rev_nth by (rewrite seq_length; assumption). rewrite seq_length. rewrite seq_nth by lia. lia.
Qed.

Lemma pair_count_mab a b ev : pair_count a b ev = length (filter (mab a b) ev).
Proof. reflexivity. Qed.

Theorem swap_network_correct n offset :
  let '(final, ev) := swap_network n offset in
  final = rev (seq 0 n) /\
  (forall p q i, In (p, q, i) ev -> S i < n) /\
  (forall a b, a < n -> b < n -> a <> b -> pair_count a b ev = 1).
Proof.
  rewrite swap_network_closed_form. split; [reflexivity|]. split.
  - intros p q i H. apply in_flat_map in H. destruct H as [t [_ H]]. unfold layer_events in H.
    apply in_map_iff in H. destruct H as [j [E Hj]]. inversion E; subst. apply active_ge in Hj. lia.
  - intros a b Ha Hb Hab. rewrite pair_count_mab. apply pair_once; try assumption. destruct offset; simpl; lia.
Qed.
(* non-vacuity *)
Example swap_network_5 : fst (swap_network 5 false) = [4; 3; 2; 1; 0] /\ length (snd (swap_network 5 false)) = 10.
Proof. split; reflexivity. Qed.
