(* The Suzuki recursion of simulate_trotter._perform_trotter_step: for formula order k+1 the step of
   time t is split into two sub-steps of time s, one of time t - 4 s and two more of time s, with
   s = split(level) * t, recursively.  For EVERY choice of the split factors (in particular the
   irrational 1/(4 - 4^{1/(2k-1)}) of the code) the leaf times sum to t and there are 5^k leaves. *)
From Coq Require Import QArith Qcanon Arith List Lia.
Close Scope Qc_scope. Close Scope Q_scope.
Import ListNotations.

Fixpoint leaves (k : nat) (split : nat -> Qc) (t : Qc) : list Qc :=
  match k with
  | O => [t]
  | S k' => let s := Qcmult (split k) t in
            leaves k' split s ++ leaves k' split s ++ leaves k' split (Qcminus t (Qcplus (Qcplus s s) (Qcplus s s)))
            ++ leaves k' split s ++ leaves k' split s
  end.
Definition qsum (l : list Qc) : Qc := fold_right Qcplus (Q2Qc 0) l.
Lemma qsum_app a b : qsum (a ++ b) = Qcplus (qsum a) (qsum b).
Proof. induction a as [|x a IH]; simpl; [ring|]. rewrite IH. ring. Qed.

Theorem suzuki_times_sum k split : forall t, qsum (leaves k split t) = t.
Proof.
  induction k as [|k IH]; intros t; simpl.
  - ring.
  - rewrite !qsum_app, !IH. ring.
Qed.
Theorem suzuki_leaf_count k split t : length (leaves k split t) = 5 ^ k.
Proof.
  revert t; induction k as [|k IH]; intros t; [reflexivity|].
  simpl leaves. rewrite !app_length, !IH. simpl. lia.
Qed.
