(* The algebraic identity behind the split factor 1 / (4 - 4^(1/(2k-1))) of simulate_trotter._perform_trotter_step,
   over the real numbers: if c^(2k-1) = 4 and s = 1/(4 - c), then the five sub-steps of relative lengths
   s, s, 1 - 4s, s, s satisfy  4 s^(2k-1) + (1 - 4s)^(2k-1) = 0, which is the condition that cancels the error
   term of order 2k-1 of the symmetric lower-order formula (Suzuki's recursion).
   This file is the only one that uses the axiomatised reals of the standard library. *)
From Coq Require Import Reals Lra Lia.
Local Open Scope R_scope.

Lemma pow_opp_odd x m : (- x) ^ (2 * m + 1) = - (x ^ (2 * m + 1)).
Proof.
  induction m as [|m IH].
  - simpl. lra.
  - replace (2 * S m + 1)%nat with (S (S (2 * m + 1))) by lia.
    rewrite <- !tech_pow_Rmult, IH. ring.
Qed.

Theorem suzuki_split_cancels (m : nat) (c s : R) :
  c ^ (2 * m + 1) = 4 -> (4 - c) * s = 1 -> 4 * s ^ (2 * m + 1) + (1 - 4 * s) ^ (2 * m + 1) = 0.
Proof.
  intros Hc Hs.
  assert (E : 1 - 4 * s = - (c * s)) by lra.
  rewrite E, pow_opp_odd, Rpow_mult_distr, Hc. ring.
Qed.
(* the sub-step lengths always sum to the step (any split) - the real-number version of suzuki_times_sum *)
Lemma suzuki_split_sum (s : R) : s + s + (1 - 4 * s) + s + s = 1.
Proof. ring. Qed.
