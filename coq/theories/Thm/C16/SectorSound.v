(* C16: what the verdict of the checker `agrees_on_sector` means.  If (H' - H) P = 0 for the projector P = prod_i (1 + s_i)/2
   then H' and H act identically on EVERY vector stabilised by all s_i (any number of qubits, any superposition). *)
From Coq Require Import QArith Qcanon NArith List Bool Ring.
From OFV Require Import Base.Cplx Base.Lin Sem.PauliSem Model.SymbolicOp Model.QubitOp Model.LadderOp Model.JordanWigner Thm.C01.SymHom Thm.C01.QubitHom
  Check.DictEquiv Check.OpEquiv Check.Commutator Check.Reductions.
Close Scope Qc_scope. Close Scope Q_scope.
Import ListNotations.

Notation "a ~ b" := (leq N.eqb a b) (at level 70).

(* action of an operator on a vector (formal sum of basis states) *)
Definition qact (op : qop) (v : lin N) : lin N := lbind v (qden op).
Definition in_sector (stabs : list qop) (v : lin N) : Prop := Forall (fun s => qact s v ~ v) stabs.

Lemma qact_ext op v w : v ~ w -> qact op v ~ qact op w.
Proof. intros H. apply leq_bind; [exact N.eqb_spec|exact H|intros; apply leq_refl]. Qed.
Lemma qact_mul a b v : qact (qmul a b) v ~ qact a (qact b v).
Proof.
  unfold qact. rewrite lbind_lbind. apply leq_bind_ext. intros x. apply qmul_hom.
Qed.
Lemma qact_add0 a b v : qact (qadd0 a b) v ~ qact a v ++ qact b v.
Proof.
  unfold qact. intros k. rewrite coeff_app, <- (coeff_bind_addf N N.eqb).
  apply coeff_bind_ext. intros x. apply qadd0_den.
Qed.
Lemma qact_sub0 a b v : qact (qsub0 a b) v ~ qact a v ++ lscale Cm1 (qact b v).
Proof.
  unfold qact. intros k. rewrite coeff_app, coeff_scale, <- (coeff_bind_scalef N N.eqb), <- (coeff_bind_addf N N.eqb).
  apply coeff_bind_ext. intros x. apply qsub0_den.
Qed.
Lemma qact_scale a c v : qact (iscale a c) v ~ lscale c (qact a v).
Proof.
  unfold qact. intros k. rewrite coeff_scale, <- (coeff_bind_scalef N N.eqb).
  apply coeff_bind_ext. intros x. apply qscale_hom.
Qed.

Lemma qden_ident s : qden ident s ~ [(C1, s)].
Proof. intros k. unfold ident, qden, aop. cbn [flat_map fst snd]. rewrite app_nil_r, coeff_scale. unfold pact. cbn [apply_word coeff]. ring. Qed.
Lemma qact_ident v : qact ident v ~ v.
Proof.
  unfold qact. intros k. transitivity (coeff N.eqb k (lbind v (fun x => [(C1, x)]))); [|apply (coeff_bind_ret N N.eqb)].
  apply coeff_bind_ext. intros x. apply qden_ident.
Qed.

(* one factor (1 + s)/2 fixes every vector stabilised by s *)
Lemma half_plus_fixes s v : qact s v ~ v -> qact (iscale (qadd0 ident s) Chalf) v ~ v.
Proof.
  intros Hs. eapply leq_trans; [apply qact_scale|].
  intros k. rewrite coeff_scale, (qact_add0 ident s v k), coeff_app, (qact_ident v k), (Hs k).
  assert (E : Cadd Chalf Chalf = C1) by ceq.
  transitivity (Cmul (Cadd Chalf Chalf) (coeff N.eqb k v)); [ring|rewrite E; ring].
Qed.

Lemma projector_fold_fixes stabs : forall acc v, in_sector stabs v ->
  qact (fold_left (fun acc s => qmul acc (iscale (qadd0 ident s) Chalf)) stabs acc) v ~ qact acc v.
Proof.
  induction stabs as [|s stabs IH]; intros acc v Hv; cbn [fold_left]; [apply leq_refl|].
  inversion Hv as [|? ? Hs Hrest]; subst.
  eapply leq_trans; [apply IH; exact Hrest|].
  eapply leq_trans; [apply qact_mul|].
  apply qact_ext. apply half_plus_fixes. exact Hs.
Qed.

Theorem projector_fixes_sector stabs v : in_sector stabs v -> qact (sector_projector stabs) v ~ v.
Proof.
  intros Hv. unfold sector_projector. eapply leq_trans; [apply projector_fold_fixes; exact Hv|apply qact_ident].
Qed.

(* the checker's verdict: H' and H agree on every vector of the sector *)
Theorem agrees_on_sector_sound H H' stabs :
  agrees_on_sector H H' stabs = true -> forall v, in_sector stabs v -> qact H' v ~ qact H v.
Proof.
  unfold agrees_on_sector. intros Hc v Hv.
  pose proof (pauli_equiv_sound _ _ Hc) as Hz.
  assert (Z : qact (qmul (qsub0 H' H) (sector_projector stabs)) v ~ []).
  { unfold qact. intros k. rewrite (coeff_bind_ext N N.eqb k v _ (fun _ => [])).
    - rewrite lbind_nilf. reflexivity.
    - intros x. eapply leq_trans; [apply Hz|]. apply leq_refl. }
  assert (D : qact (qsub0 H' H) v ~ []).
  { eapply leq_trans; [|exact Z]. apply leq_sym.
    eapply leq_trans; [apply qact_mul|]. apply qact_ext. apply projector_fixes_sector. exact Hv. }
  intros k. pose proof (D k) as Dk. rewrite (qact_sub0 H' H v k), coeff_app, coeff_scale in Dk. cbn [coeff] in Dk.
  transitivity (Cadd (Cadd (coeff N.eqb k (qact H' v)) (Cmul Cm1 (coeff N.eqb k (qact H v)))) (coeff N.eqb k (qact H v))).
  - rewrite Cm1_opp1. ring.
  - rewrite Dk. ring.
Qed.

(* non-vacuity: the two-qubit operator X0 X1 + Z0 Z1 agrees with the constant 2 on the sector stabilised by X0 X1 and Z0 Z1
   (the Bell state), which is a non-empty sector *)
Example sector_example :
  let XX := [([(0%N, PX); (1%N, PX)], C1)] in let ZZ := [([(0%N, PZ); (1%N, PZ)], C1)] in
  agrees_on_sector (qadd0 XX ZZ) [([], Cadd C1 C1)] [XX; ZZ] = true /\ in_sector [XX; ZZ] [(C1, 0%N); (C1, 3%N)].
Proof.
  split; [vm_compute; reflexivity|].
  unfold in_sector. constructor; [apply (lin_eqb_sound N N.eqb N.eqb_spec); vm_compute; reflexivity|].
  constructor; [apply (lin_eqb_sound N N.eqb N.eqb_spec); vm_compute; reflexivity|constructor].
Qed.
