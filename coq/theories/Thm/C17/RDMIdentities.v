(* [B] the operator identities behind utils/rdm_mapping_functions.py, for ALL index tuples over 4
   modes (every coincidence pattern of four indices occurs), decided by the verified equivalence
   checker fermi_equiv (sound: equal action on every Fock state):
     tqdm[s,r,q,p] = tpdm[p,q,r,s] - term1 - term2 - term3      (map_two_pdm_to_two_hole_dm and inverse)
     phdm[p,r,q,s] = opdm[p,s] delta_qr - tpdm[p,q,r,s]         (map_two_pdm_to_particle_hole_dm and inverse)
     oqdm[p,q]     = delta_pq - opdm[q,p]                       (one-particle / one-hole maps)
     sum_r tpdm[p,r,r,q] = opdm[p,q] (N - 1),  sum_r tqdm[p,r,r,q] = oqdm[p,q] (n - N - 1),
     sum_r phdm[p,r,r,q] = opdm[p,q] (n - N + 1)                (contractions, as operator identities with N-hat) *)
From Coq Require Import NArith ZArith List Bool.
From OFV Require Import Base.Cplx Model.SymbolicOp Model.LadderOp Check.OpEquiv.
Import ListNotations.

Definition cr (p : nat) : lfactor := (N.of_nat p, true).
Definition an (p : nat) : lfactor := (N.of_nat p, false).
Definition dl (a b : nat) : C := if Nat.eqb a b then C1 else C0.
Definition idx4 (n : nat) : list (nat * nat * nat * nat) :=
  flat_map (fun p => flat_map (fun q => flat_map (fun r => map (fun s => (p, q, r, s)) (seq 0 n)) (seq 0 n)) (seq 0 n)) (seq 0 n).
Definition idx2 (n : nat) : list (nat * nat) := flat_map (fun p => map (fun q => (p, q)) (seq 0 n)) (seq 0 n).

(* the right-hand sides as term lists over normal-ordered RDM words: a+_p a+_q a_r a_s -> tpdm[p,q,r,s],
   a+_p a_q -> opdm[p,q], the empty word -> <psi|psi> = 1 *)
Definition two_hole_rhs (p q r s : nat) : lop :=
    [([cr p; cr q; an r; an s], C1);
     ([cr p; an s], Copp (dl q r)); ([cr q; an r], Copp (dl p s));
     ([cr q; an s], dl p r); ([cr p; an r], dl q s);
     ([], Copp (Csub (Cmul (dl q s) (dl p r)) (Cmul (dl p s) (dl q r))))].
Definition particle_hole_rhs (p q r s : nat) : lop := [([cr p; an s], dl q r); ([cr p; cr q; an r; an s], Cm1)].
Definition one_hole_rhs (p q : nat) : lop := [([], dl p q); ([cr q; an p], Cm1)].
(* <a_s a_r a+_q a+_p> in terms of the particle RDMs *)
Definition two_hole_ok (x : nat * nat * nat * nat) : bool :=
  let '(p, q, r, s) := x in fermi_equiv [([an s; an r; cr q; cr p], C1)] (two_hole_rhs p q r s).
Definition particle_hole_ok (x : nat * nat * nat * nat) : bool :=
  let '(p, q, r, s) := x in fermi_equiv [([cr p; an r; cr q; an s], C1)] (particle_hole_rhs p q r s).
Definition one_hole_ok (x : nat * nat) : bool :=
  let '(p, q) := x in fermi_equiv [([an p; cr q], C1)] (one_hole_rhs p q).

(* evaluation of such a right-hand side on ARBITRARY tensors (not only RDMs of states): this is the value the
   mapping functions must return entry by entry *)
Definition t2 (D : list (list C)) (p q : nat) : C := nth q (nth p D []) C0.
Definition t4 (D : list (list (list (list C)))) (p q r s : nat) : C := nth s (nth r (nth q (nth p D []) []) []) C0.
Definition rdm_term_value (D1 : list (list C)) (D2 : list (list (list (list C)))) (w : lword) : C :=
  match w with
  | [] => C1
  | [(p, true); (q, false)] => t2 D1 (N.to_nat p) (N.to_nat q)
  | [(p, true); (q, true); (r, false); (s, false)] => t4 D2 (N.to_nat p) (N.to_nat q) (N.to_nat r) (N.to_nat s)
  | _ => C0
  end.
Definition rdm_eval (D1 : list (list C)) (D2 : list (list (list (list C)))) (rhs : lop) : C :=
  fold_right (fun tc acc => Cadd (Cmul (snd tc) (rdm_term_value D1 D2 (fst tc))) acc) C0 rhs.
(* the implementation's outputs on integer-valued tensors equal the proved right-hand sides, entry by entry *)
Definition two_hole_map_ok (n : nat) D1 D2 (out : list (list (list (list C)))) : bool :=
  forallb (fun x => let '(p, q, r, s) := x in Ceqb (t4 out s r q p) (rdm_eval D1 D2 (two_hole_rhs p q r s))) (idx4 n).
Definition particle_hole_map_ok (n : nat) D1 D2 (out : list (list (list (list C)))) : bool :=
  forallb (fun x => let '(p, q, r, s) := x in Ceqb (t4 out p r q s) (rdm_eval D1 D2 (particle_hole_rhs p q r s))) (idx4 n).
Definition one_hole_map_ok (n : nat) D1 (out : list (list C)) : bool :=
  forallb (fun x => let '(p, q) := x in Ceqb (t2 out p q) (rdm_eval D1 [] (one_hole_rhs p q))) (idx2 n).

(* contractions, n modes: N-hat = sum_r a+_r a_r *)
Definition contr_particle_ok (n : nat) (x : nat * nat) : bool :=
  let '(p, q) := x in
  fermi_equiv (map (fun r => ([cr p; cr r; an r; an q], C1)) (seq 0 n))
              (map (fun r => ([cr p; an q; cr r; an r], C1)) (seq 0 n) ++ [([cr p; an q], Cm1)]).
Definition contr_hole_ok (n : nat) (x : nat * nat) : bool :=
  let '(p, q) := x in
  (* sum_r a_p a_r a+_r a+_q = a_p a+_q (n - N-hat - 1) *)
  fermi_equiv (map (fun r => ([an p; an r; cr r; cr q], C1)) (seq 0 n))
              ([([an p; cr q], CofZ (Z.of_nat n - 1))] ++ map (fun r => ([an p; cr q; cr r; an r], Cm1)) (seq 0 n)).
Definition contr_ph_ok (n : nat) (x : nat * nat) : bool :=
  let '(p, q) := x in
  (* sum_r a+_p a_r a+_r a_q = a+_p a_q (n - N-hat + 1) *)
  fermi_equiv (map (fun r => ([cr p; an r; cr r; an q], C1)) (seq 0 n))
              ([([cr p; an q], CofZ (Z.of_nat n + 1))] ++ map (fun r => ([cr p; an q; cr r; an r], Cm1)) (seq 0 n)).

Theorem rdm_two_hole_identity_4 : forallb two_hole_ok (idx4 4) = true.
Proof. vm_compute. reflexivity. Qed.
Theorem rdm_particle_hole_identity_4 : forallb particle_hole_ok (idx4 4) = true.
Proof. vm_compute. reflexivity. Qed.
Theorem rdm_one_hole_identity_4 : forallb one_hole_ok (idx2 4) = true.
Proof. vm_compute. reflexivity. Qed.
Theorem rdm_contractions_4 :
  forallb (fun n => forallb (fun x => contr_particle_ok n x && contr_hole_ok n x && contr_ph_ok n x) (idx2 n)) (seq 1 4) = true.
Proof. vm_compute. reflexivity. Qed.
