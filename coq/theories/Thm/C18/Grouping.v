(* group_into_tensor_product_basis_sets: for EVERY order in which the current bases are tried (every
   seed of the shuffle) and every list of terms whose Pauli words act on each qubit at most once, the
   groups form a partition of the terms and every term is contained in the basis named by its key.
   Invariant: keys are pairwise conflicting (hence distinct, so no dictionary entry is overwritten). *)
From Coq Require Import NArith List Bool Lia Permutation.
From OFV Require Import Base.Cplx Sem.PauliSem Model.SymbolicOp Model.QubitOp Model.Grouping
  Thm.C01.SymHom Thm.C01.QubitHom.
Import ListNotations.

Definition uniq (b : pword) : Prop := NoDup (map fst b).
Definition conflict (a b : pword) : Prop :=
  exists f g, In f a /\ In g b /\ fst f = fst g /\ snd f <> snd g.
Definition sub (t b : pword) : Prop := forall f, In f t -> In f b.
Definition members (gs : list group) : list (pword * C) := concat (map snd gs).
Definition keys (gs : list group) : list gkey := map fst gs.

Lemma factor_in_In f b : factor_in f b = true <-> In f b.
Proof.
  unfold factor_in. rewrite existsb_exists. split.
  - intros [g [Hg E]]. destruct (pfeqb_spec f g); [subst; assumption|discriminate].
  - intros H. exists f. split; [assumption|]. destruct (pfeqb_spec f f); congruence.
Qed.
Lemma qubit_in_In q b : qubit_in q b = true <-> exists g, In g b /\ fst g = q.
Proof.
  unfold qubit_in. rewrite existsb_exists. split; intros [g [Hg E]]; exists g; split; try assumption.
  - apply N.eqb_eq; assumption.
  - apply N.eqb_eq; assumption.
Qed.
Lemma keqb_eq a b : keqb a b = true <-> a = b.
Proof. unfold keqb. destruct (teqb_spec pfactor pfeqb pfeqb_spec a b); split; congruence. Qed.

Lemma compatible_false_conflict t b : compatible t b = false -> conflict t b.
Proof.
  unfold compatible. intros H.
  assert (E : exists f, In f t /\ (negb (qubit_in (fst f) b) || factor_in f b) = false).
  { induction t as [|f t IH]; simpl in H; [discriminate|].
    destruct (negb (qubit_in (fst f) b) || factor_in f b) eqn:Ef.
    - destruct (IH H) as [g [Hg Eg]]. exists g. split; [right; assumption|assumption].
    - exists f. split; [left; reflexivity|assumption]. }
  destruct E as [f [Hf E]]. apply orb_false_iff in E. destruct E as [E1 E2].
  apply negb_false_iff in E1. apply qubit_in_In in E1. destruct E1 as [g [Hg Eq]].
  exists f, g. repeat split; try assumption; try congruence.
  intros Es. assert (f = g) by (destruct f, g; simpl in *; congruence). subst g.
  apply factor_in_In in Hg. congruence.
Qed.
Lemma compatible_refl t : compatible t t = true.
Proof. unfold compatible. apply forallb_forall. intros f Hf. apply factor_in_In in Hf. rewrite Hf. apply orb_true_r. Qed.
Lemma compatible_true t b f : compatible t b = true -> In f t -> ~ In f b -> ~ In (fst f) (map fst b).
Proof.
  unfold compatible. rewrite forallb_forall. intros H Hf Hn Hq.
  specialize (H f Hf). apply orb_true_iff in H. destruct H as [H|H].
  - apply negb_true_iff in H. apply in_map_iff in Hq. destruct Hq as [g [E Hg]].
    assert (qubit_in (fst f) b = true) by (apply qubit_in_In; exists g; split; assumption). congruence.
  - apply factor_in_In in H. contradiction.
Qed.

Lemma uniq_inj b f g : uniq b -> In f b -> In g b -> fst f = fst g -> f = g.
Proof.
  unfold uniq. induction b as [|x b IH]; intros Hu Hf Hg E; [contradiction|].
  simpl in Hu. inversion Hu as [|? ? Hnot Hu']; subst.
  destruct Hf as [->|Hf], Hg as [->|Hg]; try reflexivity.
  - exfalso. apply Hnot. rewrite E. apply in_map. assumption.
  - exfalso. apply Hnot. rewrite <- E. apply in_map. assumption.
  - apply IH; assumption.
Qed.
Lemma conflict_irrefl b : uniq b -> ~ conflict b b.
Proof. intros Hu [f [g [Hf [Hg [E N]]]]]. apply N. rewrite (uniq_inj b f g Hu Hf Hg E). reflexivity. Qed.
Lemma conflict_sym a b : conflict a b -> conflict b a.
Proof. intros [f [g [Hf [Hg [E N]]]]]. exists g, f. repeat split; try assumption; congruence. Qed.
Lemma conflict_mono a a' b : sub a a' -> conflict a b -> conflict a' b.
Proof. intros Hs [f [g [Hf [Hg [E N]]]]]. exists f, g. repeat split; try assumption. apply Hs; assumption. Qed.

Lemma pinsert_perm f l : Permutation (pinsert f l) (f :: l).
Proof.
  induction l as [|g l IH]; simpl; [reflexivity|].
  destruct (N.ltb (fst g) (fst f)); [|reflexivity].
  rewrite IH. apply perm_swap.
Qed.
Lemma psort_perm l : Permutation (psort l) l.
Proof. induction l as [|f l IH]; simpl; [reflexivity|]. rewrite pinsert_perm. constructor. assumption. Qed.

Lemma split_key (gs : list group) b : In b (keys gs) ->
  exists pre ms post, gs = pre ++ (b, ms) :: post /\ gremove gs b = pre ++ post /\ glookup gs b = ms.
Proof.
  induction gs as [|[k m] gs IH]; intros H; [contradiction|].
  simpl. destruct (keqb b k) eqn:E.
  - apply keqb_eq in E. subst k. exists [], m, gs. repeat split.
  - destruct H as [H|H]; [simpl in H; subst; rewrite (proj2 (keqb_eq b b) eq_refl) in E; discriminate|].
    destruct (IH H) as [pre [ms [post [E1 [E2 E3]]]]]. exists ((k, m) :: pre), ms, post.
    simpl. split; [f_equal; exact E1|split; [f_equal; exact E2|exact E3]].
Qed.
Lemma gput_absent (gs : list group) b ms : ~ In b (keys gs) -> gput gs b ms = gs ++ [(b, ms)].
Proof.
  induction gs as [|[k m] gs IH]; intros H; [reflexivity|].
  simpl. destruct (keqb b k) eqn:E.
  - apply keqb_eq in E. subst. exfalso. apply H. left. reflexivity.
  - rewrite IH; [reflexivity|]. intros Hin. apply H. right. assumption.
Qed.

Record Inv (gs : list group) : Prop := {
  inv_nodup : NoDup (keys gs);
  inv_conflict : forall k1 k2, In k1 (keys gs) -> In k2 (keys gs) -> k1 <> k2 -> conflict k1 k2;
  inv_groups : forall k ms, In (k, ms) gs -> uniq k /\ forall tc, In tc ms -> sub (fst tc) k }.

Lemma NoDup_app_intro {A} (l1 l2 : list A) :
  NoDup l1 -> NoDup l2 -> (forall x, In x l1 -> ~ In x l2) -> NoDup (l1 ++ l2).
Proof.
  induction l1 as [|a l1 IH]; intros H1 H2 Hd; [exact H2|].
  simpl. inversion H1 as [|? ? Hn H1']; subst. constructor.
  - intros Hin. apply in_app_or in Hin. destruct Hin as [Hin|Hin]; [contradiction|]. apply (Hd a); [left; reflexivity|assumption].
  - apply IH; try assumption. intros x Hx. apply Hd. right. assumption.
Qed.
Lemma NoDup_map_filter {A B} (f : A -> B) (p : A -> bool) l : NoDup (map f l) -> NoDup (map f (filter p l)).
Proof.
  induction l as [|a l IH]; intros H; [constructor|]. simpl in H. inversion H as [|? ? Hn H']; subst.
  simpl. destruct (p a); [|apply IH; assumption]. simpl. constructor; [|apply IH; assumption].
  intros Hin. apply Hn. apply in_map_iff in Hin. destruct Hin as [x [E Hx]]. apply filter_In in Hx.
  apply in_map_iff. exists x. split; [assumption|apply Hx].
Qed.
Lemma NoDup_remove_mid {A} (l1 l2 : list A) a : NoDup (l1 ++ a :: l2) -> NoDup (l1 ++ l2) /\ ~ In a (l1 ++ l2).
Proof. apply NoDup_remove. Qed.

Lemma keys_app a b : keys (a ++ b) = keys a ++ keys b.
Proof. unfold keys. apply map_app. Qed.
Lemma members_app a b : members (a ++ b) = members a ++ members b.
Proof. unfold members. rewrite map_app, concat_app. reflexivity. Qed.

Lemma Inv_nil : Inv [].
Proof. split; [constructor|intros ? ? []|intros ? ? []]. Qed.

Lemma Inv_remove pre g post : Inv (pre ++ g :: post) -> Inv (pre ++ post).
Proof.
  intros [H1 H2 H3]. rewrite keys_app in H1, H2. simpl in H1, H2. split.
  - rewrite keys_app. apply (NoDup_remove_mid _ _ _ H1).
  - rewrite keys_app. intros k1 k2 Hk1 Hk2. apply H2; apply in_or_app.
    + apply in_app_or in Hk1. destruct Hk1; [left|right; right]; assumption.
    + apply in_app_or in Hk2. destruct Hk2; [left|right; right]; assumption.
  - intros k ms Hin. apply H3. apply in_or_app. apply in_app_or in Hin. destruct Hin; [left|right; right]; assumption.
Qed.

Lemma Inv_snoc gs k ms : Inv gs -> uniq k -> (forall k0, In k0 (keys gs) -> conflict k k0) ->
  (forall tc, In tc ms -> sub (fst tc) k) -> Inv (gs ++ [(k, ms)]).
Proof.
  intros [H1 H2 H3] Hu Hc Hm.
  assert (Hn : ~ In k (keys gs)) by (intros Hin; exact (conflict_irrefl k Hu (Hc k Hin))).
  split.
  - rewrite keys_app. apply NoDup_app_intro; [assumption|simpl; constructor; [intros []|constructor]|].
    intros x Hx [E|[]]. simpl in E. subst x. contradiction.
  - rewrite keys_app. intros k1 k2 Hk1 Hk2 Hne.
    apply in_app_or in Hk1. apply in_app_or in Hk2.
    destruct Hk1 as [Hk1|[E1|[]]], Hk2 as [Hk2|[E2|[]]]; simpl in *; subst.
    + apply H2; assumption.
    + apply conflict_sym. apply Hc. assumption.
    + apply Hc. assumption.
    + congruence.
  - intros k' ms' Hin. apply in_app_or in Hin. destruct Hin as [Hin|[E|[]]].
    + apply H3. assumption.
    + inversion E; subst. split; assumption.
Qed.

Section Step.
Variable choose : list gkey -> list gkey.
Hypothesis choose_same : forall l x, In x (choose l) <-> In x l.

Lemma step_spec gs tc : Inv gs -> uniq (fst tc) ->
  Inv (gstep choose gs tc) /\ Permutation (members (gstep choose gs tc)) (members gs ++ [tc]).
Proof.
  intros HI Hu. destruct tc as [t c]. simpl in Hu. unfold gstep. cbn [fst snd].
  destruct (find (compatible t) (choose (map fst gs))) as [b|] eqn:Ef.
  - (* extend the group of a compatible basis b *)
    apply find_some in Ef. destruct Ef as [Hb Hc]. apply (proj1 (choose_same _ _)) in Hb. fold (keys gs) in Hb.
    destruct (split_key gs b Hb) as [pre [ms [post [E1 [E2 E3]]]]]. rewrite E2, E3.
    set (adds := filter (fun f => negb (factor_in f b)) t).
    set (b' := psort (b ++ adds)).
    destruct (inv_groups gs HI b ms) as [Hub Hms]; [rewrite E1; apply in_or_app; right; left; reflexivity|].
    assert (Hsubb : sub b b').
    { intros f Hf. unfold b'. apply (Permutation_in f (Permutation_sym (psort_perm _))). apply in_or_app. left. assumption. }
    assert (Hsubt : sub t b').
    { intros f Hf. unfold b'. apply (Permutation_in f (Permutation_sym (psort_perm _))). apply in_or_app.
      destruct (factor_in f b) eqn:Efb; [left; apply factor_in_In; assumption|].
      right. unfold adds. apply filter_In. split; [assumption|]. rewrite Efb. reflexivity. }
    assert (Hub' : uniq b').
    { unfold uniq, b'. apply (Permutation_NoDup (Permutation_map fst (Permutation_sym (psort_perm _)))).
      rewrite map_app. apply NoDup_app_intro; [exact Hub|apply NoDup_map_filter; exact Hu|].
      intros q Hq1 Hq2. apply in_map_iff in Hq2. destruct Hq2 as [f [Eq Hf]]. unfold adds in Hf. apply filter_In in Hf.
      destruct Hf as [Hft Hfb]. apply negb_true_iff in Hfb.
      apply (compatible_true t b f Hc Hft); [|rewrite Eq; assumption].
      intros Hin. apply factor_in_In in Hin. congruence. }
    assert (HI' : Inv (pre ++ post)) by (pose proof HI as X; rewrite E1 in X; exact (Inv_remove _ _ _ X)).
    assert (Hconf : forall k0, In k0 (keys (pre ++ post)) -> conflict b' k0).
    { intros k0 Hk0. apply (conflict_mono b b' k0 Hsubb). apply (inv_conflict gs HI).
      - assumption.
      - rewrite E1, keys_app. rewrite keys_app in Hk0. apply in_or_app. apply in_app_or in Hk0. destruct Hk0; [left|right; right]; assumption.
      - intros ->. destruct (NoDup_remove_mid (keys pre) (keys post) k0) as [_ Hn].
        + pose proof (inv_nodup gs HI) as Hnd. rewrite E1, keys_app in Hnd. exact Hnd.
        + apply Hn. rewrite <- keys_app. assumption. }
    assert (Hn : ~ In b' (keys (pre ++ post))) by (intros Hin; exact (conflict_irrefl b' Hub' (Hconf b' Hin))).
    rewrite (gput_absent _ _ _ Hn). split.
    + apply Inv_snoc; try assumption. intros tc Htc. apply in_app_or in Htc. destruct Htc as [Htc|[<-|[]]].
      * intros f Hf. apply Hsubb. apply (Hms tc Htc). assumption.
      * exact Hsubt.
    + rewrite E1. rewrite !members_app. unfold members at 3 5. simpl. rewrite !app_nil_r.
      rewrite <- !app_assoc. apply Permutation_app_head.
      rewrite (app_assoc ms). rewrite (app_assoc (members post)). apply Permutation_app_tail. apply Permutation_app_comm.
  - (* no compatible basis: the term becomes a new basis *)
    assert (Hall : forall k0, In k0 (keys gs) -> conflict t k0).
    { intros k0 Hk0. apply compatible_false_conflict. apply (find_none _ _ Ef). apply choose_same. assumption. }
    assert (Hn : ~ In t (keys gs)) by (intros Hin; exact (conflict_irrefl t Hu (Hall t Hin))).
    rewrite (gput_absent _ _ _ Hn). split.
    + apply Inv_snoc; try assumption. intros tc [<-|[]]. simpl. intros f Hf. assumption.
    + rewrite members_app. unfold members at 2. simpl. reflexivity.
Qed.

End Step.

Theorem grouping_spec (choose : nat -> list gkey -> list gkey) terms :
  (forall i l x, In x (choose i l) <-> In x l) ->
  Forall (fun tc => uniq (fst tc)) terms ->
  Inv (grouping choose terms) /\ Permutation (members (grouping choose terms)) terms.
Proof.
  unfold grouping. intros Hch H.
  assert (G : forall i gs, Inv gs -> Inv (grouping_from choose i terms gs) /\ Permutation (members (grouping_from choose i terms gs)) (members gs ++ terms)).
  { induction H as [|tc l Htc Hl IH]; intros i gs HI; simpl.
    - rewrite app_nil_r. split; [assumption|reflexivity].
    - destruct (step_spec (choose i) (Hch i) gs tc HI Htc) as [HI' HP]. destruct (IH (S i) _ HI') as [HI'' HP'].
      split; [assumption|]. rewrite HP'. rewrite (Permutation_app_tail l HP). rewrite <- app_assoc. reflexivity. }
  destruct (G 0 [] Inv_nil) as [G1 G2]. split; assumption.
Qed.

(* the statement of the property, without the auxiliary invariant *)
Theorem grouping_is_partition (choose : nat -> list gkey -> list gkey) terms :
  (forall i l x, In x (choose i l) <-> In x l) ->
  Forall (fun tc => uniq (fst tc)) terms ->
  let gs := grouping choose terms in
  Permutation (members gs) terms /\ NoDup (keys gs) /\ (forall k ms, In (k, ms) gs -> uniq k /\ forall tc, In tc ms -> sub (fst tc) k).
Proof.
  intros Hch H gs. destruct (grouping_spec choose terms Hch H) as [[H1 H2 H3] HP].
  split; [exact HP|split; [exact H1|exact H3]].
Qed.

(* non-vacuity: X0 X1, Z0, X1 Y2 with the identity shuffle gives two groups *)
Example grouping_example :
  let terms := [([(0%N, PX); (1%N, PX)], C1); ([(0%N, PZ)], C1); ([(1%N, PX); (2%N, PY)], C1)] in
  Forall (fun tc : pword * C => uniq (fst tc)) terms /\ keys (grouping (fun _ l => l) terms) = [[(0%N, PZ)]; [(0%N, PX); (1%N, PX); (2%N, PY)]].
Proof.
  split; [|vm_compute; reflexivity].
  repeat constructor; unfold uniq; simpl; repeat constructor; simpl; intuition discriminate.
Qed.
