(* [F] pair_between (start_offset = 0) for EVERY pair of fragment lengths: the cyclic-shift schedule pairs
   every element of the first fragment with every element of the second exactly once, and inside one
   pairing no element is used twice.  Index-level model: positions into frag1 / frag2. *)
From Coq Require Import Arith List Bool Lia.
Import ListNotations.

Definition pb_pairs (a b k : nat) : list (nat * nat) :=
  if b <? a then map (fun i => ((i + k) mod a, i)) (seq 0 b)
  else map (fun i => (i, (i + k) mod b)) (seq 0 a).
Definition pb_all (a b : nat) : list (list (nat * nat)) := map (pb_pairs a b) (seq 0 (Nat.max a b)).
Definition peqb (x y : nat * nat) : bool := (fst x =? fst y) && (snd x =? snd y).
(* correspondence: the index pairs of the implementation's pairings (leftover singles dropped) *)
Fixpoint plist_eqb (x y : list (nat * nat)) : bool :=
  match x, y with [], [] => true | p :: x', q :: y' => peqb p q && plist_eqb x' y' | _, _ => false end.
Fixpoint pll_eqb (x y : list (list (nat * nat))) : bool :=
  match x, y with [], [] => true | p :: x', q :: y' => plist_eqb p q && pll_eqb x' y' | _, _ => false end.
Definition pb_model_ok (a b : nat) (impl : list (list (nat * nat))) : bool := pll_eqb (pb_all a b) impl.

Lemma count_zero {A} (h : A -> bool) l : (forall y, In y l -> h y = false) -> length (filter h l) = 0.
Proof.
  induction l as [|a l IH]; intros Hh; [reflexivity|]. simpl. rewrite (Hh a (or_introl eq_refl)).
  apply IH. intros y Hy. apply Hh. right. assumption.
Qed.
Lemma count_one {A} (h : A -> bool) l x : NoDup l -> In x l -> (forall y, In y l -> (h y = true <-> y = x)) -> length (filter h l) = 1.
Proof.
  induction l as [|a l IH]; intros Hn Hin Hh; [contradiction|].
  inversion Hn as [|? ? Hna Hn']; subst. simpl. destruct Hin as [->|Hin].
  - rewrite (proj2 (Hh x (or_introl eq_refl)) eq_refl). simpl. f_equal.
    apply count_zero. intros y Hy. destruct (h y) eqn:Ey; [|reflexivity].
    exfalso. apply Hna. apply (Hh y (or_intror Hy)) in Ey. subst. assumption.
  - destruct (h a) eqn:Ea.
    + exfalso. apply (Hh a (or_introl eq_refl)) in Ea. subst. contradiction.
    + apply IH; try assumption. intros y Hy. apply Hh. right. assumption.
Qed.
Lemma filter_map_length {A B} (f : B -> bool) (g : A -> B) l : length (filter f (map g l)) = length (filter (fun x => f (g x)) l).
Proof. induction l as [|a l IH]; [reflexivity|]. simpl. destruct (f (g a)); simpl; rewrite IH; reflexivity. Qed.
Lemma filter_concat_length {A} (f : A -> bool) (ls : list (list A)) :
  length (filter f (concat ls)) = list_sum (map (fun l => length (filter f l)) ls).
Proof. induction ls as [|l ls IH]; [reflexivity|]. simpl. rewrite filter_app, app_length, IH. reflexivity. Qed.
Lemma list_sum_indicator {A} (h : A -> bool) l : list_sum (map (fun x => if h x then 1 else 0) l) = length (filter h l).
Proof. induction l as [|a l IH]; [reflexivity|]. simpl. destruct (h a); simpl; rewrite IH; reflexivity. Qed.

(* in the k-th pairing the cross pair (i, j) occurs once if j - i = k (mod the longer length), else not at all *)
Lemma count_in_pairing a b k i j : i < a -> j < b ->
  length (filter (peqb (i, j)) (pb_pairs a b k)) =
  if (if b <? a then (j + k) mod a =? i else (i + k) mod b =? j) then 1 else 0.
Proof.
  intros Hi Hj. unfold pb_pairs. destruct (Nat.ltb_spec b a) as [Hba|Hab]; rewrite filter_map_length.
  - destruct (Nat.eqb_spec ((j + k) mod a) i) as [E|E].
    + apply (count_one _ _ j); [apply seq_NoDup|apply in_seq; lia|].
      intros y Hy. unfold peqb. cbn [fst snd]. rewrite andb_true_iff, !Nat.eqb_eq. split; [intros [_ H]; congruence|intros ->; split; congruence].
    + apply count_zero. intros y Hy. unfold peqb. cbn [fst snd]. destruct (Nat.eqb_spec j y) as [<-|]; [|apply andb_false_r].
      rewrite andb_true_r. apply Nat.eqb_neq. congruence.
  - destruct (Nat.eqb_spec ((i + k) mod b) j) as [E|E].
    + apply (count_one _ _ i); [apply seq_NoDup|apply in_seq; lia|].
      intros y Hy. unfold peqb. cbn [fst snd]. rewrite andb_true_iff, !Nat.eqb_eq. split; [intros [H _]; congruence|intros ->; split; congruence].
    + apply count_zero. intros y Hy. unfold peqb. cbn [fst snd]. destruct (Nat.eqb_spec i y) as [<-|]; [|reflexivity].
      cbn [andb]. apply Nat.eqb_neq. congruence.
Qed.

Lemma shift_unique m x y : 0 < m -> x < m -> y < m -> forall k, k < m -> ((x + k) mod m = y <-> k = (y + m - x) mod m).
Proof.
  intros Hm Hx Hy k Hk. split.
  - intros <-. destruct (le_lt_dec m (x + k)) as [H|H].
    + assert (E : (x + k) mod m = x + k - m).
      { replace (x + k) with ((x + k - m) + 1 * m) at 1 by lia. rewrite Nat.mod_add by lia. apply Nat.mod_small. lia. }
      rewrite E. replace (x + k - m + m - x) with k by lia. symmetry. apply Nat.mod_small. assumption.
    + rewrite (Nat.mod_small (x + k)) by assumption. replace (x + k + m - x) with (k + 1 * m) by lia. rewrite Nat.mod_add by lia. symmetry. apply Nat.mod_small. assumption.
  - intros ->. destruct (le_lt_dec x y) as [H|H].
    + replace (y + m - x) with ((y - x) + 1 * m) by lia. rewrite Nat.mod_add by lia. rewrite (Nat.mod_small (y - x)) by lia.
      replace (x + (y - x)) with y by lia. apply Nat.mod_small. assumption.
    + rewrite (Nat.mod_small (y + m - x)) by lia. replace (x + (y + m - x)) with (y + 1 * m) by lia. rewrite Nat.mod_add by lia. apply Nat.mod_small. assumption.
Qed.

Theorem pair_between_each_pair_once a b i j : 1 <= a -> 1 <= b -> i < a -> j < b ->
  length (filter (peqb (i, j)) (concat (pb_all a b))) = 1.
Proof.
  intros Ha Hb Hi Hj. unfold pb_all. rewrite filter_concat_length, map_map.
  rewrite (map_ext _ (fun k => if (if b <? a then (j + k) mod a =? i else (i + k) mod b =? j) then 1 else 0))
    by (intros k; apply count_in_pairing; assumption).
  rewrite list_sum_indicator.
  destruct (Nat.ltb_spec b a) as [Hba|Hab].
  - replace (Nat.max a b) with a by lia.
    apply (count_one _ _ ((i + a - j) mod a)); [apply seq_NoDup|apply in_seq; split; [lia|apply Nat.mod_upper_bound; lia]|].
    intros k Hk. apply in_seq in Hk. rewrite Nat.eqb_eq. apply shift_unique; lia.
  - replace (Nat.max a b) with b by lia.
    apply (count_one _ _ ((j + b - i) mod b)); [apply seq_NoDup|apply in_seq; split; [lia|apply Nat.mod_upper_bound; lia]|].
    intros k Hk. apply in_seq in Hk. rewrite Nat.eqb_eq. apply shift_unique; lia.
Qed.

(* inside one pairing every position of either fragment is used at most once *)
Lemma NoDup_map_inj {A B} (f : A -> B) l : NoDup l -> (forall x y, In x l -> In y l -> f x = f y -> x = y) -> NoDup (map f l).
Proof.
  induction l as [|a l IH]; intros Hn Hinj; [constructor|]. inversion Hn as [|? ? Hna Hn']; subst. simpl. constructor.
  - intros Hin. apply in_map_iff in Hin. destruct Hin as [y [E Hy]]. apply Hna.
    rewrite (Hinj a y (or_introl eq_refl) (or_intror Hy) (eq_sym E)). assumption.
  - apply IH; [assumption|]. intros x y Hx Hy. apply Hinj; right; assumption.
Qed.
Lemma shift_inj m k x y : 0 < m -> x < m -> y < m -> (x + k) mod m = (y + k) mod m -> x = y.
Proof.
  intros Hm Hx Hy E. rewrite <- (Nat.add_mod_idemp_r x k m), <- (Nat.add_mod_idemp_r y k m) in E by lia.
  pose proof (Nat.mod_upper_bound k m ltac:(lia)) as Hk.
  rewrite (Nat.add_comm x), (Nat.add_comm y) in E.
  set (z := (k mod m + y) mod m) in *. assert (Hz : z < m) by (apply Nat.mod_upper_bound; lia).
  pose proof (proj1 (shift_unique m (k mod m) z Hm Hk Hz x Hx) E) as E1.
  pose proof (proj1 (shift_unique m (k mod m) z Hm Hk Hz y Hy) eq_refl) as E2. congruence.
Qed.
Theorem pair_between_pairing_disjoint a b k : 1 <= a -> 1 <= b -> NoDup (map fst (pb_pairs a b k)) /\ NoDup (map snd (pb_pairs a b k)).
Proof.
  intros Ha Hb. unfold pb_pairs. destruct (Nat.ltb_spec b a) as [Hba|Hab]; rewrite !map_map; cbn [fst snd]; split.
  - apply NoDup_map_inj; [apply seq_NoDup|]. intros x y Hx Hy E. apply in_seq in Hx, Hy. apply (shift_inj a k); lia || assumption.
  - rewrite map_id. apply seq_NoDup.
  - rewrite map_id. apply seq_NoDup.
  - apply NoDup_map_inj; [apply seq_NoDup|]. intros x y Hx Hy E. apply in_seq in Hx, Hy. apply (shift_inj b k); lia || assumption.
Qed.
(* non-vacuity: fragments of lengths 2 and 3 give 3 pairings *)
Example pb_2_3 : pb_all 2 3 = [[(0, 0); (1, 1)]; [(0, 1); (1, 2)]; [(0, 2); (1, 0)]].
Proof. reflexivity. Qed.
