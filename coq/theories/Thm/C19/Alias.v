(* [B] the model of _preprocess_for_efficient_roulette_selection returns an exact alias table for
   every weight list of length n <= 5 whose sum is n * t with t <= 5 (complete enumeration), and
   never runs its donor pointer past the end on such input. *)
From Coq Require Import ZArith List Bool.
From OFV Require Import Model.LCU.
Import ListNotations.
Local Open Scope Z_scope.

(* all lists of n non-negative integers with the given sum *)
Fixpoint compositions (n : nat) (total : nat) : list (list Z) :=
  match n with
  | O => if Nat.eqb total 0 then [[]] else []
  | S n' => flat_map (fun k => map (cons (Z.of_nat k)) (compositions n' (total - k))) (seq 0 (S total))
  end.
Definition roulette_ok (w : list Z) : bool :=
  match roulette w with Some (alt, keep) => alias_ok w alt keep | None => false end.
Definition all_ok (n t : nat) : bool := forallb roulette_ok (compositions n (n * t)).

Theorem alias_tables_exact_5_5 :
  forallb (fun n => forallb (fun t => all_ok n t) (seq 0 6)) (seq 1 5) = true.
Proof. vm_compute. reflexivity. Qed.
