(* [F] the two-pass alias-table construction (_preprocess_for_efficient_roulette_selection) is exact for
   EVERY list of non-negative integer weights whose sum is n * t: it never runs its donor pointer past
   the end, and the returned (alternates, keep_weights) reproduce the weights exactly. *)
From Coq Require Import ZArith List Bool Lia Arith.
From OFV Require Import Model.LCU.
Import ListNotations.
Local Open Scope Z_scope.

(* ---------- lists ---------- *)
Lemma zset_length l i v : length (zset l i v) = length l.
Proof. revert i. induction l as [|x l IH]; intros [|i]; simpl; auto. Qed.
Lemma znth_zset l i j v : (i < length l)%nat -> znth (zset l i v) j = if Nat.eqb j i then v else znth l j.
Proof.
  unfold znth. revert i j. induction l as [|x l IH]; intros i j H; [simpl in H; lia|].
  destruct i, j; simpl; try reflexivity. apply IH. simpl in H. lia.
Qed.

Fixpoint zsum (f : nat -> Z) (n : nat) : Z := match n with O => 0 | S k => zsum f k + f k end.
Lemma fold_add_acc l a : fold_left Z.add l a = a + fold_left Z.add l 0.
Proof. revert a. induction l as [|x l IH]; intros a; simpl; [lia|]. rewrite (IH (a + x)), (IH x). lia. Qed.
Lemma fold_sum_seq f n : fold_left Z.add (map f (seq 0 n)) 0 = zsum f n.
Proof.
  induction n as [|n IH]; [reflexivity|]. rewrite seq_S, map_app, fold_left_app, IH. simpl. reflexivity.
Qed.
Lemma zsum_ext f g n : (forall j, (j < n)%nat -> f j = g j) -> zsum f n = zsum g n.
Proof. induction n as [|n IH]; intros H; [reflexivity|]. simpl. rewrite IH by (intros; apply H; lia). rewrite H by lia. reflexivity. Qed.
Lemma fold_sum_list l : fold_left Z.add l 0 = zsum (znth l) (length l).
Proof.
  induction l as [|x l IH] using rev_ind; [reflexivity|].
  rewrite fold_left_app, app_length, Nat.add_comm. simpl. rewrite IH.
  assert (E1 : znth (l ++ [x]) (length l) = x) by (unfold znth; rewrite app_nth2 by lia; rewrite Nat.sub_diag; reflexivity).
  rewrite E1. f_equal. apply zsum_ext. intros j Hj. unfold znth. rewrite app_nth1 by lia. reflexivity.
Qed.
Lemma zsum_update f g n k : (k < n)%nat -> (forall j, (j < n)%nat -> j <> k -> g j = f j) -> zsum g n = zsum f n - f k + g k.
Proof.
  induction n as [|n IH]; intros Hk H; [lia|]. simpl. destruct (Nat.eq_dec k n) as [->|Hne].
  - rewrite (zsum_ext g f n) by (intros; apply H; lia). lia.
  - rewrite IH by (try lia; intros; apply H; lia). rewrite (H n) by lia. lia.
Qed.
Lemma zsum_le f n t : (forall j, (j < n)%nat -> f j <= t) -> zsum f n <= Z.of_nat n * t.
Proof. induction n as [|n IH]; intros H; [simpl; lia|]. simpl zsum. specialize (IH ltac:(intros; apply H; lia)). specialize (H n ltac:(lia)). lia. Qed.
Lemma zsum_ge f n t : (forall j, (j < n)%nat -> t <= f j) -> Z.of_nat n * t <= zsum f n.
Proof. induction n as [|n IH]; intros H; [simpl; lia|]. simpl zsum. specialize (IH ltac:(intros; apply H; lia)). specialize (H n ltac:(lia)). lia. Qed.
Lemma exists_above f n t : {j | (j < n)%nat /\ t < f j} + {forall j, (j < n)%nat -> f j <= t}.
Proof.
  induction n as [|n [[j [Hj Hf]]|IH]].
  - right. intros; lia.
  - left. exists j. split; [lia|assumption].
  - destruct (Z_lt_dec t (f n)) as [H|H].
    + left. exists n. split; [lia|assumption].
    + right. intros j Hj. destruct (Nat.eq_dec j n) as [->|]; [lia|apply IH; lia].
Qed.
Lemma pigeon f n t k : zsum f n = Z.of_nat n * t -> (k < n)%nat -> f k < t -> exists j, (j < n)%nat /\ t < f j.
Proof.
  intros Hs Hk Hf. destruct (exists_above f n t) as [[j H]|H]; [exists j; exact H|exfalso].
  set (g := fun j => if Nat.eqb j k then t else f j).
  assert (G : zsum g n = zsum f n - f k + g k) by (apply zsum_update; [assumption|intros j _ Hne; unfold g; destruct (Nat.eqb_spec j k); [contradiction|reflexivity]]).
  assert (L : zsum g n <= Z.of_nat n * t).
  { apply zsum_le. intros j Hj. unfold g. destruct (Nat.eqb j k); [lia|apply H; assumption]. }
  unfold g in G at 2. rewrite Nat.eqb_refl in G. lia.
Qed.
Lemma all_equal f n t : zsum f n = Z.of_nat n * t -> (forall j, (j < n)%nat -> t <= f j) -> forall j, (j < n)%nat -> f j = t.
Proof.
  intros Hs Hge j Hj. destruct (Z.eq_dec (f j) t) as [E|E]; [assumption|exfalso].
  set (g := fun i => if Nat.eqb i j then t else f i).
  assert (G : zsum g n = zsum f n - f j + g j) by (apply zsum_update; [assumption|intros i _ Hne; unfold g; destruct (Nat.eqb_spec i j); [contradiction|reflexivity]]).
  assert (L : Z.of_nat n * t <= zsum g n).
  { apply zsum_ge. intros i Hi. unfold g. destruct (Nat.eqb i j); [lia|apply Hge; assumption]. }
  unfold g in G at 2. rewrite Nat.eqb_refl in G. specialize (Hge j Hj). lia.
Qed.

(* ---------- the donor search ---------- *)
Lemma advance_spec fuel w t d j : (length w - d < fuel)%nat -> (d <= j < length w)%nat -> t < znth w j ->
  exists d', advance fuel w t d = Some d' /\ (d <= d' < length w)%nat /\ t < znth w d' /\
             forall i, (d <= i < d')%nat -> znth w i <= t.
Proof.
  revert d. induction fuel as [|f IH]; intros d Hf Hj Hw; [lia|].
  simpl. destruct (Nat.leb_spec (length w) d) as [H|H]; [lia|].
  destruct (Z.leb_spec (znth w d) t) as [Hle|Hgt].
  - assert (d <> j) by (intros ->; lia).
    destruct (IH (S d)) as [d' [E [R [G A]]]]; try lia; try assumption.
    exists d'. split; [assumption|]. split; [lia|]. split; [assumption|].
    intros i Hi. destruct (Nat.eq_dec i d) as [->|]; [assumption|apply A; lia].
  - exists d. split; [reflexivity|]. split; [lia|]. split; [assumption|]. intros i Hi. lia.
Qed.

(* ---------- the invariant ---------- *)
Section Alias.
Variable orig : list Z.
Variable n : nat.
Variable t : Z.
Hypothesis t_nonneg : 0 <= t.

Definition contrib (alt keep : list Z) (i : nat) : Z :=
  zsum (fun j => if znth alt j =? Z.of_nat i then t - znth keep j else 0) n.

Record Core (st : rstate) : Prop := {
  c_err : rerr st = false;
  c_lw : length (rw st) = n; c_la : length (ralt st) = n; c_lk : length (rkeep st) = n;
  c_nonneg : forall i, (i < n)%nat -> 0 <= znth (rw st) i;
  c_sum : zsum (znth (rw st)) n = Z.of_nat n * t;
  c_don : forall j, (j < rdonor st)%nat -> (j < n)%nat -> znth (rw st) j <= t;
  c_unf : forall i, (i < n)%nat -> (znth (ralt st) i = Z.of_nat i /\ znth (rkeep st) i = 0) \/ znth (rw st) i = t;
  c_keep : forall i, (i < n)%nat -> 0 <= znth (rkeep st) i <= t;
  c_alt : forall i, (i < n)%nat -> 0 <= znth (ralt st) i < Z.of_nat n;
  c_dist : forall i, (i < n)%nat -> znth orig i = znth (rkeep st) i + contrib (ralt st) (rkeep st) i + znth (rw st) i - t }.

(* what a step does: either nothing, or slot k is topped up from a donor d *)
Inductive step_kind (st st' : rstate) (k : nat) : Prop :=
| sk_same : t <= znth (rw st) k -> st' = st -> step_kind st st' k
| sk_fix (d : nat) : znth (rw st) k < t -> (rdonor st <= d)%nat -> (d < n)%nat -> d <> k -> t < znth (rw st) d ->
    rdonor st' = d ->
    (forall j, (j < n)%nat -> znth (rw st') j = if Nat.eqb j k then t else if Nat.eqb j d then znth (rw st) d - (t - znth (rw st) k) else znth (rw st) j) ->
    step_kind st st' k.

Lemma step_core st k : Core st -> (k < n)%nat -> Core (rstep t st k) /\ step_kind st (rstep t st k) k.
Proof.
  intros C Hk. unfold rstep. rewrite (c_err st C).
  destruct (Z.leb_spec t (znth (rw st) k)) as [Hge|Hlt].
  - split; [assumption|]. apply sk_same; [assumption|reflexivity].
  - destruct (pigeon (znth (rw st)) n t k (c_sum st C) Hk Hlt) as [j [Hj Hgt]].
    assert (Hjd : (rdonor st <= j)%nat).
    { destruct (le_lt_dec (rdonor st) j) as [|Hlt']; [assumption|]. pose proof (c_don st C j Hlt' Hj). lia. }
    destruct (advance_spec (S (length (rw st))) (rw st) t (rdonor st) j) as [d [E [Rd [Gd Ad]]]];
      [lia|rewrite (c_lw st C); lia|assumption|].
    rewrite E. rewrite (c_lw st C) in Rd.
    assert (Hdk : d <> k) by (intros ->; lia).
    set (a := znth (rw st) k) in *. set (wd := znth (rw st) d) in *.
    assert (Hw1k : znth (zset (rw st) d (wd - (t - a))) k = a).
    { rewrite znth_zset by (rewrite (c_lw st C); lia). destruct (Nat.eqb_spec k d); [congruence|reflexivity]. }
    rewrite Hw1k.
    assert (Hrw : forall j0, (j0 < n)%nat ->
       znth (zset (zset (rw st) d (wd - (t - a))) k t) j0 = if Nat.eqb j0 k then t else if Nat.eqb j0 d then wd - (t - a) else znth (rw st) j0).
    { intros j0 Hj0. rewrite znth_zset by (rewrite zset_length, (c_lw st C); lia).
      destruct (Nat.eqb j0 k); [reflexivity|]. rewrite znth_zset by (rewrite (c_lw st C); lia). reflexivity. }
    assert (Ha0 : 0 <= a) by (apply (c_nonneg st C); assumption).
    split.
    + constructor; cbn [rerr rw ralt rkeep rdonor].
      * reflexivity.
      * rewrite !zset_length. apply (c_lw st C).
      * rewrite zset_length. apply (c_la st C).
      * rewrite zset_length. apply (c_lk st C).
      * intros i Hi. rewrite Hrw by assumption. destruct (Nat.eqb i k); [lia|]. destruct (Nat.eqb_spec i d); [subst; lia|apply (c_nonneg st C); assumption].
      * rewrite (zsum_ext _ (fun j0 => if Nat.eqb j0 k then t else if Nat.eqb j0 d then wd - (t - a) else znth (rw st) j0)) by exact Hrw.
        set (g1 := fun j0 => if Nat.eqb j0 d then wd - (t - a) else znth (rw st) j0).
        rewrite (zsum_update g1 _ n k Hk) by (intros j0 _ Hne; destruct (Nat.eqb_spec j0 k); [contradiction|reflexivity]).
        rewrite (zsum_update (znth (rw st)) g1 n d (proj2 Rd)) by (intros j0 _ Hne; unfold g1; destruct (Nat.eqb_spec j0 d); [contradiction|reflexivity]).
        rewrite (c_sum st C). unfold g1. rewrite Nat.eqb_refl. destruct (Nat.eqb_spec k d); [congruence|]. rewrite Nat.eqb_refl. fold a wd. lia.
      * intros j0 Hj0 Hn0. rewrite Hrw by assumption. destruct (Nat.eqb j0 k); [lia|]. destruct (Nat.eqb_spec j0 d); [lia|].
        destruct (le_lt_dec (rdonor st) j0) as [Hge'|Hlt']; [apply Ad; lia|apply (c_don st C); assumption].
      * intros i Hi. rewrite Hrw by assumption. rewrite !znth_zset by (rewrite ?(c_la st C), ?(c_lk st C); lia).
        destruct (Nat.eqb_spec i k) as [->|Hik]; [right; reflexivity|].
        destruct (Nat.eqb_spec i d) as [->|Hid].
        -- left. destruct (c_unf st C d (proj2 Rd)) as [H|H]; [assumption|fold wd in H; lia].
        -- apply (c_unf st C); assumption.
      * intros i Hi. rewrite znth_zset by (rewrite (c_lk st C); lia). destruct (Nat.eqb i k); [lia|apply (c_keep st C); assumption].
      * intros i Hi. rewrite znth_zset by (rewrite (c_la st C); lia). destruct (Nat.eqb i k); [lia|apply (c_alt st C); assumption].
      * (* distribution *)
        intros i Hi. rewrite Hrw by assumption. rewrite (znth_zset (rkeep st)) by (rewrite (c_lk st C); lia).
        destruct (c_unf st C k Hk) as [[Hak Hkk]|Ht]; [|fold a in Ht; lia].
        pose proof (c_dist st C i Hi) as D. unfold contrib in *.
        set (f := fun j0 => if znth (ralt st) j0 =? Z.of_nat i then t - znth (rkeep st) j0 else 0) in *.
        set (f' := fun j0 => if znth (zset (ralt st) k (Z.of_nat d)) j0 =? Z.of_nat i then t - znth (zset (rkeep st) k a) j0 else 0).
        assert (U : zsum f' n = zsum f n - f k + f' k).
        { apply zsum_update; [assumption|]. intros j0 Hj0 Hne. unfold f', f.
          rewrite !znth_zset by (rewrite ?(c_la st C), ?(c_lk st C); lia). destruct (Nat.eqb_spec j0 k); [contradiction|reflexivity]. }
        rewrite U. unfold f, f'. rewrite !znth_zset by (rewrite ?(c_la st C), ?(c_lk st C); lia). rewrite Nat.eqb_refl, Hak, Hkk.
        destruct (Nat.eqb_spec i k) as [->|Hik].
        -- rewrite Z.eqb_refl. destruct (Z.eqb_spec (Z.of_nat d) (Z.of_nat k)); [lia|]. unfold f in D. rewrite ?Hkk in D. lia.
        -- destruct (Z.eqb_spec (Z.of_nat k) (Z.of_nat i)); [lia|].
           destruct (Nat.eqb_spec i d) as [->|Hid].
           ++ rewrite Z.eqb_refl. unfold f in D. lia.
           ++ destruct (Z.eqb_spec (Z.of_nat d) (Z.of_nat i)); [lia|]. unfold f in D. lia.
    + apply (sk_fix _ _ _ d); cbn [rw rdonor]; try assumption; try lia.
Qed.

Definition P1 (k : nat) (st : rstate) : Prop :=
  Core st /\ forall j, (j < k)%nat -> (j < n)%nat -> znth (rw st) j < t -> (j <= rdonor st)%nat.
Definition P2 (k : nat) (st : rstate) : Prop :=
  Core st /\ (forall j, (j < n)%nat -> znth (rw st) j < t -> (j <= rdonor st)%nat) /\
  forall j, (j < k)%nat -> (j < n)%nat -> t <= znth (rw st) j.

Lemma pass1_step k st : P1 k st -> (k < n)%nat -> P1 (S k) (rstep t st k).
Proof.
  intros [C V] Hk. destruct (step_core st k C Hk) as [C' K]. split; [assumption|].
  destruct K as [Hge E|d Hlt Hd Hdn Hdk Hgt Ed Hrw].
  - rewrite E. intros j Hj Hjn Hw. destruct (Nat.eq_dec j k) as [->|]; [lia|apply V; [lia|assumption|assumption]].
  - intros j Hj Hjn Hw. rewrite Ed. rewrite (Hrw j Hjn) in Hw.
    destruct (Nat.eqb_spec j k); [lia|]. destruct (Nat.eqb_spec j d); [lia|].
    assert (j <= rdonor st)%nat by (apply V; [lia|assumption|assumption]). lia.
Qed.
Lemma pass2_step k st : P2 k st -> (k < n)%nat -> P2 (S k) (rstep t st k).
Proof.
  intros [C [V W]] Hk. destruct (step_core st k C Hk) as [C' K]. split; [assumption|].
  destruct K as [Hge E|d Hlt Hd Hdn Hdk Hgt Ed Hrw].
  - rewrite E. split; [assumption|]. intros j Hj Hjn. destruct (Nat.eq_dec j k) as [->|]; [assumption|apply W; [lia|assumption]].
  - assert (Hkd : (k <= rdonor st)%nat) by (apply V; assumption).
    split.
    + intros j Hjn Hw. rewrite Ed. rewrite (Hrw j Hjn) in Hw.
      destruct (Nat.eqb_spec j k); [lia|]. destruct (Nat.eqb_spec j d); [lia|].
      assert (j <= rdonor st)%nat by (apply V; assumption). lia.
    + intros j Hj Hjn. rewrite (Hrw j Hjn). destruct (Nat.eqb_spec j k); [lia|]. destruct (Nat.eqb_spec j d); [lia|]. apply W; [lia|assumption].
Qed.
Lemma fold_pass (P : nat -> rstate -> Prop) : (forall k st, P k st -> (k < n)%nat -> P (S k) (rstep t st k)) ->
  forall m k st, (k + m = n)%nat -> P k st -> P n (fold_left (rstep t) (seq k m) st).
Proof.
  intros Hstep. induction m as [|m IH]; intros k st Hkm HP; simpl.
  - replace n with k by lia. assumption.
  - apply IH; [lia|]. apply Hstep; [assumption|lia].
Qed.
End Alias.

Lemma zsum_zero n : zsum (fun _ => 0) n = 0.
Proof. induction n as [|n IH]; simpl; lia. Qed.
Lemma zsum_indicator n i v : (i < n)%nat -> zsum (fun j => if Z.of_nat j =? Z.of_nat i then v else 0) n = v.
Proof.
  intros Hi. rewrite (zsum_update (fun _ => 0) _ n i Hi).
  - rewrite zsum_zero, Z.eqb_refl. lia.
  - intros j _ Hne. destruct (Z.eqb_spec (Z.of_nat j) (Z.of_nat i)); [lia|reflexivity].
Qed.
Lemma znth_map_seq n i : (i < n)%nat -> znth (map Z.of_nat (seq 0 n)) i = Z.of_nat i.
Proof.
  intros Hi. unfold znth. rewrite (nth_indep _ 0 (Z.of_nat 0)) by (rewrite map_length, seq_length; assumption).
  rewrite map_nth, seq_nth by assumption. reflexivity.
Qed.
Lemma znth_repeat n i : znth (repeat 0 n) i = 0.
Proof. unfold znth. revert i. induction n as [|n IH]; intros [|i]; simpl; auto. Qed.
Lemma znth_In l i : (i < length l)%nat -> In (znth l i) l.
Proof. intros. unfold znth. apply nth_In. assumption. Qed.
Lemma In_znth l x : In x l -> exists i, (i < length l)%nat /\ znth l i = x.
Proof. intros H. destruct (In_nth l x 0 H) as [i [Hi E]]. exists i. split; assumption. Qed.

Theorem roulette_exact (w : list Z) (t : Z) :
  w <> [] -> (forall x, In x w -> 0 <= x) -> fold_left Z.add w 0 = Z.of_nat (length w) * t ->
  exists alt keep, roulette w = Some (alt, keep) /\ alias_ok w alt keep = true.
Proof.
  intros Hne Hnn Hsum. set (n := length w) in *.
  assert (Hn : (0 < n)%nat) by (destruct w; [congruence|unfold n; simpl; lia]).
  assert (Hsumz : zsum (znth w) n = Z.of_nat n * t) by (rewrite <- Hsum; symmetry; apply fold_sum_list).
  assert (Ht : 0 <= t).
  { assert (0 <= zsum (znth w) n) by (replace 0 with (Z.of_nat n * 0) by lia; apply zsum_ge; intros j Hj; apply Hnn, znth_In; assumption). nia. }
  assert (Hdiv : fold_left Z.add w 0 / Z.of_nat n = t) by (rewrite Hsum, Z.mul_comm; apply Z.div_mul; lia).
  unfold roulette. fold n. rewrite Hdiv.
  destruct (Nat.eqb_spec n 0) as [|_]; [lia|].
  rewrite Hsum, Z.eqb_refl. cbn [negb].
  set (st0 := {| rw := w; ralt := map Z.of_nat (seq 0 n); rkeep := repeat 0 n; rdonor := 0%nat; rerr := false |}).
  assert (C0 : Core w n t st0).
  { constructor; unfold st0; cbn [rw ralt rkeep rdonor rerr]; try reflexivity.
    - rewrite map_length, seq_length. reflexivity.
    - apply repeat_length.
    - intros i Hi. apply Hnn, znth_In. assumption.
    - assumption.
    - intros j Hj. lia.
    - intros i Hi. left. split; [apply znth_map_seq; assumption|apply znth_repeat].
    - intros i Hi. rewrite znth_repeat. lia.
    - intros i Hi. rewrite znth_map_seq by assumption. lia.
    - intros i Hi. rewrite znth_repeat. unfold contrib.
      rewrite (zsum_ext _ (fun j => if Z.of_nat j =? Z.of_nat i then t else 0)).
      + rewrite zsum_indicator by assumption. lia.
      + intros j Hj. rewrite znth_map_seq by assumption. rewrite znth_repeat. replace (t - 0) with t by lia. reflexivity. }
  rewrite fold_left_app.
  assert (F1 : P1 w n t n (fold_left (rstep t) (seq 0 n) st0)).
  { apply (fold_pass n t (P1 w n t)); [intros k st; apply pass1_step; assumption|lia|]. split; [assumption|]. intros j Hj. lia. }
  set (st1 := fold_left (rstep t) (seq 0 n) st0) in *.
  assert (F2 : P2 w n t n (fold_left (rstep t) (seq 0 n) st1)).
  { apply (fold_pass n t (P2 w n t)); [intros k st; apply pass2_step; assumption|lia|].
    destruct F1 as [C1 V1]. split; [assumption|]. split; [intros j Hj; apply V1; assumption|intros j Hj; lia]. }
  set (st2 := fold_left (rstep t) (seq 0 n) st1) in *.
  destruct F2 as [C2 [_ W2]].
  rewrite (c_err _ _ _ _ C2). exists (ralt st2), (rkeep st2). split; [reflexivity|].
  assert (Hall : forall j, (j < n)%nat -> znth (rw st2) j = t).
  { apply all_equal; [apply (c_sum _ _ _ _ C2)|]. intros j Hj. apply W2; assumption. }
  unfold alias_ok. fold n. rewrite Hdiv.
  rewrite (c_la _ _ _ _ C2), (c_lk _ _ _ _ C2), Nat.eqb_refl. cbn [andb].
  apply andb_true_iff. split; [apply andb_true_iff; split|].
  - apply forallb_forall. intros x Hx. destruct (In_znth _ _ Hx) as [i [Hi <-]]. rewrite (c_lk _ _ _ _ C2) in Hi.
    pose proof (c_keep _ _ _ _ C2 i Hi). apply andb_true_iff. split; apply Z.leb_le; lia.
  - apply forallb_forall. intros x Hx. destruct (In_znth _ _ Hx) as [i [Hi <-]]. rewrite (c_la _ _ _ _ C2) in Hi.
    pose proof (c_alt _ _ _ _ C2 i Hi). apply andb_true_iff. split; [apply Z.leb_le|apply Z.ltb_lt]; lia.
  - apply forallb_forall. intros i Hi. apply in_seq in Hi. apply Z.eqb_eq.
    rewrite fold_sum_seq. pose proof (c_dist _ _ _ _ C2 i ltac:(lia)) as D. unfold contrib in D.
    rewrite (Hall i ltac:(lia)) in D. lia.
Qed.
