(* Invariants of the save/load state machine, for every directory state and operation sequence. *)
From Coq Require Import NArith List Bool String.
From OFV Require Import Base.Cplx Model.SymbolicOp Model.FileStore.
Import ListNotations.

Lemma dlookup_dwrite_same d p c : dlookup (dwrite d p c) p = Some c.
Proof.
  induction d as [|[q c'] d IH]; simpl.
  - rewrite String.eqb_refl. reflexivity.
  - destruct (String.eqb p q) eqn:E; simpl.
    + rewrite E. reflexivity.
    + rewrite E. exact IH.
Qed.
Lemma dlookup_dwrite_other d p q c : p <> q -> dlookup (dwrite d p c) q = dlookup d q.
Proof.
  intros Hne. induction d as [|[r c'] d IH]; simpl.
  - destruct (String.eqb_spec q p); [congruence|reflexivity].
  - destruct (String.eqb_spec p r) as [->|N1]; simpl.
    + destruct (String.eqb_spec q r); [congruence|reflexivity].
    + destruct (String.eqb_spec q r); [reflexivity|exact IH].
Qed.

(* an existing file is never overwritten unless allow_overwrite is set: the directory is unchanged *)
Theorem save_no_overwrite d k op name text c :
  name <> ""%string -> dlookup d (file_path name) = Some c -> save d k op name false text = (d, RErrExists).
Proof.
  intros Hn H. unfold save. destruct (String.eqb_spec name ""); [contradiction|]. rewrite H. reflexivity.
Qed.

(* whatever save stores is what load returns (re-accumulated), for both formats *)
Theorem load_after_save d k op name ow text d' :
  save d k op name ow text = (d', ROk) ->
  load d' name text = (Some (k, iadd gfeqb small_tol [] (stored text op)), ROk).
Proof.
  unfold save, load. destruct (String.eqb name "") eqn:En; [discriminate|].
  destruct (dlookup d (file_path name)) as [c|] eqn:El.
  - destruct ow; [|discriminate]. intros E; inversion E; subst. rewrite dlookup_dwrite_same. simpl.
    rewrite Bool.eqb_reflx. reflexivity.
  - intros E; inversion E; subst. rewrite dlookup_dwrite_same. simpl. rewrite Bool.eqb_reflx. reflexivity.
Qed.

(* over any operation sequence, the content of a path changes only through a successful save to it:
   a sequence containing no overwrite-enabled save to p leaves an existing p untouched *)
Definition touches (p : string) (o : fop) : bool :=
  match o with FSave _ _ name ow _ => ow && String.eqb (file_path name) p | FLoad _ _ => false end.
Theorem history_no_overwrite os : forall d p c,
  dlookup d p = Some c -> forallb (fun o => negb (touches p o)) os = true ->
  dlookup (fst (frun d os)) p = Some c.
Proof.
  induction os as [|o os IH]; intros d p c Hl Hall; [exact Hl|].
  simpl in Hall. apply andb_true_iff in Hall. destruct Hall as [Ho Hall].
  simpl frun. destruct (fstep d o) as [d1 r] eqn:Es. destruct (frun d1 os) as [d2 rs] eqn:Er. simpl.
  assert (H1 : dlookup d1 p = Some c).
  { destruct o as [k op name ow text|name text]; simpl in Es.
    - unfold save in Es. destruct (String.eqb name ""); [inversion Es; subst; exact Hl|].
      destruct (dlookup d (file_path name)) as [c0|] eqn:El.
      + destruct ow; [|inversion Es; subst; exact Hl].
        simpl in Ho. apply negb_true_iff in Ho. inversion Es; subst.
        rewrite dlookup_dwrite_other; [exact Hl|]. intros E. rewrite E, String.eqb_refl in Ho. discriminate.
      + inversion Es; subst. destruct (String.eqb_spec (file_path name) p) as [E|NE].
        * rewrite E in El. congruence.
        * rewrite dlookup_dwrite_other by assumption. exact Hl.
    - inversion Es; subst. exact Hl. }
  specialize (IH d1 p c H1 Hall). rewrite Er in IH. exact IH.
Qed.
