"""./check Cxx --tier quick|thorough   -- one property check, per the MANIFEST contract."""
import argparse, importlib, os, sys, time, traceback
from . import core, gen

LEVEL = {}  # property -> evidence level
TRUSTED = [
    'Coq 8.16.1 kernel including the vm_compute virtual machine (no native_compute); coqchk run per property file in setup (time-limited, see build/coqchk.log)',
    'axioms: none declared by this development; Print Assumptions output for the property theorems is recorded in coverage.print_assumptions',
    'harness/vf/gen.py (python ast translator of literal tables and of pure integer functions into Gen/*.v; Python int arithmetic is identified with Z.add/Z.sub/Z.mul/Z.modulo)',
    'harness/vf: float->exact-rational conversion, serialisation of cases into Coq terms, generators, classifier',
    'hand-written Gallina models in coq/theories/Model are tied to the code only by the correspondence runs of this check and by the Gen obligations',
]

def main():
    ap = argparse.ArgumentParser()
    ap.add_argument('prop')
    ap.add_argument('--tier', default=os.environ.get('VERIF_TIER', 'quick'))
    ap.add_argument('--replay')
    a = ap.parse_args()
    seed = int(os.environ.get('VERIF_SEED', '0'))
    prop = a.prop.upper()
    ctx = core.Ctx(prop, a.tier, seed)
    mod = importlib.import_module('vf.props.' + prop.lower())
    level = getattr(mod, 'LEVEL', 'proof')
    try:
        # 1. regenerate Gen from the current source, rebuild the development
        gres = gen.regenerate()
        rc, out = core.coq_build()
        ctx.cov['gen'] = {k: ('ok' if v is None else v) for k, v in gres.items()}
        hy = core.hygiene()
        if hy:
            ctx.violation('forbidden declarations in the Coq development: %s' % hy[:3], {'obligation': 'hygiene', 'hits': hy}, no_input=True)
        # 2. the property's theorem file
        broken = None
        needed = getattr(mod, 'NEEDS', [])
        for rel in needed:
            if not core.vo_ok(rel): broken = (broken or []) + [rel]
        ok, pout = core.check_props_file(ctx, prop)
        if not ok or broken:
            ctx.cov['build_log_tail'] = (out[-1500:] + '\n' + pout[-1500:])
            ctx.broken = True
        else:
            ctx.broken = False
        # 3. correspondence / semantic checks against the implementation
        if os.environ.get('VF_TRACE'):
            # development aid: record which library functions the check reaches (written to build/trace_<prop>.json)
            called = set()
            root = os.path.realpath(os.path.join(core.REPO, 'src', 'openfermion'))
            def prof(frame, event, arg):
                if event == 'call':
                    fn = frame.f_code.co_filename
                    if fn.startswith(root) and not fn.endswith('_test.py'): called.add((os.path.relpath(fn, root), frame.f_code.co_name, frame.f_code.co_firstlineno))
            sys.setprofile(prof)
            try: mod.run(ctx)
            finally:
                sys.setprofile(None)
                import json as _json
                _json.dump(sorted(called), open(os.path.join(core.VERIF, 'build', 'trace_%s.json' % prop), 'w'))
        else:
            mod.run(ctx)
        if ctx.broken and not ctx.violations:
            ctx.violation('%s: proof obligations no longer check (%s) and no failing input was found by the search' %
                          (prop, broken or 'Props/%s.v' % prop),
                          {'obligation': broken or ['Props/%s' % prop], 'log': (out[-1200:] + pout[-1200:])}, no_input=True)
    except Exception as e:
        ctx.violation('%s: check crashed: %s' % (prop, e), {'obligation': 'harness', 'traceback': traceback.format_exc()}, no_input=True)
    rule = getattr(mod, 'RULE', 'cases are generated from one PRNG seeded by VERIF_SEED; a case is non-trivial by the per-part rule in coverage.parts and distinct by the hash of its input')
    rc = ctx.finish(level, './check %s --tier %s' % (prop, a.tier), TRUSTED + getattr(mod, 'TRUSTED', []), rule,
                    explanation=getattr(mod, 'EXPLANATION', ''))
    sys.exit(rc)

if __name__ == '__main__':
    main()
