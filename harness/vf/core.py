"""Shared machinery: paths, Coq evaluation of generated case files, exact literals, evidence,
violation / known-finding reporting.  Everything random derives from ctx.rng (seeded by VERIF_SEED)."""
import os, sys, json, time, random, subprocess, re, hashlib, fcntl, shutil
from fractions import Fraction
from concurrent.futures import ThreadPoolExecutor

VERIF = os.path.dirname(os.path.dirname(os.path.dirname(os.path.abspath(__file__))))
REPO = os.environ.get('VERIF_REPO', '/repo')
COQ = os.path.join(VERIF, 'coq')
THEORIES = os.path.join(COQ, 'theories')
BUILD = os.path.join(VERIF, 'build')
EVID = os.path.join(VERIF, 'evidence')
REPLAYS = os.path.join(VERIF, 'replays')
NCPU = int(os.environ.get('VERIF_JOBS', '16'))

def sh(cmd, timeout=600, cwd=None, env=None):
    p = subprocess.run(cmd, shell=isinstance(cmd, str), cwd=cwd, env=env, capture_output=True, text=True, timeout=timeout)
    return p.returncode, p.stdout, p.stderr

# ---------------------------------------------------------------- exact literals
def frac(x):
    """exact rational value of a python/numpy real"""
    if isinstance(x, Fraction): return x
    if isinstance(x, int): return Fraction(x)
    return Fraction(float(x))
def cfrac(z):
    """(re, im) exact of int/float/complex/numpy scalar"""
    if isinstance(z, (int, Fraction)): return (Fraction(z), Fraction(0))
    z = complex(z)
    return (Fraction(z.real), Fraction(z.imag))
def cZ(n): return '(%d)%%Z' % n
def cN(n):
    assert n >= 0
    return '%d%%N' % n
def cnat(n):
    assert 0 <= n < 5000
    return '%d%%nat' % n
def cQ(q):
    q = Fraction(q)
    return '(qfrac (%d)%%Z (%d)%%positive)' % (q.numerator, q.denominator)
def cC(z):
    re_, im_ = cfrac(z)
    return '(Cmk (%d)%%Z (%d)%%positive (%d)%%Z (%d)%%positive)' % (re_.numerator, re_.denominator, im_.numerator, im_.denominator)
def clist(xs): return '[' + '; '.join(xs) + ']'
def cpair(a, b): return '(%s, %s)' % (a, b)
def cbool(b): return 'true' if b else 'false'
def copt(x): return 'None' if x is None else '(Some %s)' % x

# ---------------------------------------------------------------- context
class Ctx:
    def __init__(self, prop, tier, seed):
        self.prop, self.tier, self.seed = prop, tier, seed
        self.rng = random.Random(seed * 1000003 + int(prop[1:]))
        self.t0 = time.time()
        self.cov = {'evaluations': 0, 'distinct_nontrivial': 0, 'samples': [], 'programs': 0,
                    'disagreements_checked': 0, 'obligations': 0, 'discharged': 0, 'exhaustive': False}
        self.parts = {}          # per sub-check statistics
        self.violations = []     # (replay_path, text, no_input)
        self.known = []          # lines
        self.assumptions = []
        self.notes = []
        self._distinct = set()
        # one directory of generated Coq case files per run (several checks of one property may run at the same time)
        self.case_dir = os.path.join(BUILD, 'cases', '%s_%s_%d' % (prop, tier, os.getpid()))
        shutil.rmtree(self.case_dir, ignore_errors=True)
        os.makedirs(self.case_dir, exist_ok=True)
        import atexit
        atexit.register(shutil.rmtree, self.case_dir, True)
        os.makedirs(REPLAYS, exist_ok=True)
        self.findings = load_findings(prop)
        self.quick = (tier == 'quick')
    # ---- statistics
    def count(self, part, n=1, nontrivial_key=None):
        d = self.parts.setdefault(part, {'cases': 0, 'distinct_nontrivial': 0})
        d["cases"] += int(n)
        self.cov["evaluations"] += int(n)
        self.cov["programs"] += int(n)
        if nontrivial_key is not None:
            h = hashlib.md5(repr((part, nontrivial_key)).encode()).digest()[:8]
            if h not in self._distinct:
                self._distinct.add(h); d['distinct_nontrivial'] += 1; self.cov['distinct_nontrivial'] += 1
    def stat(self, part, key, n=1):
        d = self.parts.setdefault(part, {'cases': 0, 'distinct_nontrivial': 0})
        d[key] = d.get(key, 0) + n
    def sample(self, obj, limit=12):
        if len(self.cov['samples']) < limit: self.cov['samples'].append(obj)
    # ---- reporting
    def violation(self, what, replay, no_input=False):
        """replay: JSON-able description of the failing input / broken obligation"""
        sig = replay.get('finding') if isinstance(replay, dict) else None
        if sig and sig in self.findings and self.findings[sig].get('status') == 'open':
            line = 'KNOWN-FINDING: property=%s %s' % (self.prop, self.findings[sig]['what'])
            if line not in self.known: self.known.append(line)
            return
        kind = re.sub(r'[0-9]+', '#', what)[:120]
        self._kinds = getattr(self, '_kinds', {})
        self._kinds[kind] = self._kinds.get(kind, 0) + 1
        if self._kinds[kind] > 2:
            self.suppressed = getattr(self, 'suppressed', 0) + 1
            return
        idx = len(self.violations)
        path = os.path.join(REPLAYS, '%s_%s_%d.json' % (self.prop, self.tier, idx))
        with open(path, 'w') as f:
            json.dump({'property': self.prop, 'what': what, 'no_failing_input_found': no_input, 'replay': replay}, f, indent=1, default=str)
        self.violations.append((path, what, no_input))
    def finish(self, level, checker_cmd, trusted_base, rule, explanation=''):
        self.cov['rule'] = rule
        self.cov['checker_cmd'] = checker_cmd
        self.cov['trusted_base'] = trusted_base
        self.cov['parts'] = self.parts
        if explanation: self.cov['explanation'] = explanation
        self.cov['traces_validated_against_impl'] = self.cov['evaluations']
        ev = {'property_id': self.prop, 'tier': self.tier, 'seed': self.seed, 'level': level,
              'coverage': self.cov, 'assumptions': self.assumptions, 'wall_s': round(time.time() - self.t0, 2),
              'violations': len(self.violations), 'known_findings_reported': self.known, 'notes': self.notes}
        os.makedirs(EVID, exist_ok=True)
        with open(os.path.join(EVID, self.prop + '.json'), 'w') as f:
            json.dump(ev, f, indent=1, default=str)
        for l in self.known: print(l)
        for path, what, no_input in self.violations:
            print('# ' + what.replace('\n', ' ')[:400])
            print('VIOLATION property=%s replay=%s%s' % (self.prop, path, ' no-failing-input-found' if no_input else ''))
        sys.stdout.flush()
        return 1 if self.violations else 0

def load_findings(prop):
    p = os.path.join(VERIF, 'known_findings.json')
    if not os.path.exists(p): return {}
    out = {}
    for e in json.load(open(p)).get('findings', []):
        if e['property'] == prop: out[e['id']] = e
    return out

# ---------------------------------------------------------------- Coq build and evaluation
COQFLAGS = ['-Q', THEORIES, 'OFV', '-w', '-notation-overridden,-ambiguous-paths,-deprecated-hint-without-locality,-deprecated-instance-without-locality']

def coq_build(targets=None, timeout=3000):
    """incremental full .vo build of the development (never -vos); serialised by a lock"""
    os.makedirs(BUILD, exist_ok=True)
    with open(os.path.join(BUILD, '.lock'), 'w') as lk:
        fcntl.flock(lk, fcntl.LOCK_EX)
        vs = sorted(os.path.relpath(os.path.join(d, f), COQ) for d, _, fs in os.walk(THEORIES) for f in fs if f.endswith('.v'))
        proj = '-Q theories OFV\n-arg -w -arg -notation-overridden,-ambiguous-paths,-deprecated-hint-without-locality,-deprecated-instance-without-locality\n' + '\n'.join(vs) + '\n'
        pp = os.path.join(COQ, '_CoqProject')
        if not os.path.exists(pp) or open(pp).read() != proj:
            open(pp, 'w').write(proj)
            sh('coq_makefile -f _CoqProject -o Makefile', cwd=COQ)
        if not os.path.exists(os.path.join(COQ, 'Makefile')):
            sh('coq_makefile -f _CoqProject -o Makefile', cwd=COQ)
        tg = ' '.join(targets) if targets else ''
        rc, out, err = sh('timeout %d make -k -j%d %s 2>&1' % (timeout, NCPU, tg), cwd=COQ, timeout=timeout + 60)
        return rc, out + err

def vo_ok(rel):
    """is theories/<rel>.vo present and newer than its source"""
    v = os.path.join(THEORIES, rel + '.v'); vo = os.path.join(THEORIES, rel + '.vo')
    return os.path.exists(vo) and os.path.getmtime(vo) >= os.path.getmtime(v)

def coqc_file(path, timeout=600):
    rc, out, err = sh(['timeout', str(timeout), 'coqc'] + COQFLAGS + [path], timeout=timeout + 30)
    return rc, out + err

_HEADER = 'Set Printing Width 10000000.\nSet Printing Depth 10000000.\nFrom Coq Require Import ZArith NArith List Bool.\nImport ListNotations.\n'

def _parse_bools(txt):
    m = re.search(r'=\s*(\[.*?\])\s*:\s*list bool', txt, re.S)
    if not m: return None
    return [w == 'true' for w in re.findall(r'true|false', m.group(1))]

def coq_eval_bools(ctx, name, imports, items, chunk=300, timeout=900, _depth=0):
    """items: list of Coq expressions of type bool; returns list of python bools (None on Coq failure)"""
    files = []
    for i in range(0, len(items), chunk):
        p = os.path.join(ctx.case_dir, '%s_%d.v' % (name, i // chunk))
        with open(p, 'w') as f:
            f.write(_HEADER + imports + '\n')
            f.write('Definition cases : list bool := [\n  ' + ';\n  '.join(items[i:i + chunk]) + '\n].\n')
            f.write('Eval vm_compute in cases.\n')
        files.append(p)
    res = []
    with ThreadPoolExecutor(max_workers=NCPU) as ex:
        outs = list(ex.map(lambda p: coqc_file(p, timeout), files))
    for k, (rc, out) in enumerate(outs):
        n = min(chunk, len(items) - k * chunk)
        b = _parse_bools(out) if rc == 0 else None
        if b is None or len(b) != n:
            sub = items[k * chunk:k * chunk + n]
            if n > 1 and _depth < 4:      # isolate the items that cannot be evaluated
                h = (n + 1) // 2
                res.extend(coq_eval_bools(ctx, '%s_r%d_%da' % (name, _depth, k), imports, sub[:h], chunk=h, timeout=max(120, timeout // 2), _depth=_depth + 1))
                res.extend(coq_eval_bools(ctx, '%s_r%d_%db' % (name, _depth, k), imports, sub[h:], chunk=max(1, n - h), timeout=max(120, timeout // 2), _depth=_depth + 1))
            else:
                if len(ctx.notes) < 20: ctx.notes.append('coq evaluation failed for %s: %s' % (files[k], out[-600:]))
                res.extend([None] * n)
        else:
            res.extend(b)
    return res

def coq_eval_raw(ctx, name, imports, expr, timeout=300):
    p = os.path.join(ctx.case_dir, '%s.v' % name)
    with open(p, 'w') as f:
        f.write(_HEADER + imports + '\nEval vm_compute in (' + expr + ').\n')
    rc, out = coqc_file(p, timeout)
    m = re.search(r'=\s*(.*?)\n\s*:\s', out, re.S)
    return (m.group(1).strip() if m else out[-2000:])

def check_props_file(ctx, rel):
    """compile Props/<rel>.v alone: counts theorems (obligations), discharged iff it compiles;
    returns (ok, assumptions_text)"""
    src = os.path.join(THEORIES, 'Props', rel + '.v')
    txt = open(src).read()
    thms = re.findall(r'^\s*(?:Theorem|Example|Corollary)\s+(\w+)', txt, re.M)
    ctx.cov['obligations'] += len(thms)
    bad = re.findall(r'\b(Admitted|admit|Axiom|Parameter|Conjecture|Unset Guard|bypass_check)\b', txt)
    rc, out = coqc_file(src, 1200)
    ok = (rc == 0 and not bad)
    if ok: ctx.cov['discharged'] += len(thms)
    closed = len(re.findall(r'Closed under the global context', out))
    axioms = sorted(set(re.findall(r'^([A-Za-z_][\w\.]*)\s*:', out, re.M)) - {'Axioms'})
    ctx.cov['print_assumptions'] = {'closed_under_global_context': closed, 'axioms_listed': axioms}
    ctx.cov['theorems'] = thms
    return ok, out

def hygiene():
    """no Admitted/admit/Axiom/... anywhere in the development"""
    rc, out, _ = sh("grep -rnE '\\b(Admitted|admit|Axiom|Parameter|Conjecture|Hypotheses)\\b|Unset Guard|bypass_check|Admit Obligations|type-in-type' --include=*.v %s | grep -v '(\\*' || true" % THEORIES)
    return [l for l in out.splitlines() if l.strip()]
