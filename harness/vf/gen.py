"""Fail-closed translator: literal tables of /repo's current source -> coq/theories/Gen/*.v.
Only python `ast` is used; repository code is never executed here.  Any unknown AST shape raises
GenError, which the checks report as a broken obligation."""
import ast, os
from .core import REPO, THEORIES, cC, clist, cpair, cQ
from fractions import Fraction

class GenError(Exception): pass

def lit(node):
    if isinstance(node, ast.Constant):
        if isinstance(node.value, (int, float, complex, str, bool)) or node.value is None: return node.value
        raise GenError('constant %r' % (node.value,))
    if isinstance(node, ast.UnaryOp) and isinstance(node.op, ast.USub):
        v = lit(node.operand)
        if isinstance(v, (int, float, complex)) and not isinstance(v, bool): return -v
        raise GenError('unary minus on %r' % (v,))
    if isinstance(node, ast.Tuple): return tuple(lit(e) for e in node.elts)
    if isinstance(node, ast.List): return [lit(e) for e in node.elts]
    if isinstance(node, ast.Dict): return {lit(k): lit(v) for k, v in zip(node.keys, node.values)}
    raise GenError('unsupported literal shape %s at line %s' % (type(node).__name__, getattr(node, 'lineno', '?')))

def parse(rel):
    p = os.path.join(REPO, rel)
    return ast.parse(open(p).read(), p)

def module_assign(tree, name):
    for n in tree.body:
        if isinstance(n, ast.Assign) and len(n.targets) == 1 and isinstance(n.targets[0], ast.Name) and n.targets[0].id == name:
            return n.value
    raise GenError('no module-level assignment to %s' % name)

def class_property_return(tree, cls, prop):
    for n in tree.body:
        if isinstance(n, ast.ClassDef) and n.name == cls:
            for m in n.body:
                if isinstance(m, ast.FunctionDef) and m.name == prop:
                    rets = [s for s in m.body if isinstance(s, ast.Return)]
                    if len(rets) != 1 or len([s for s in m.body if not (isinstance(s, ast.Expr) and isinstance(s.value, ast.Constant))]) != 1:
                        raise GenError('%s.%s is not a single return' % (cls, prop))
                    return lit(rets[0].value)
    raise GenError('no %s.%s' % (cls, prop))

def func_def(tree, name, cls=None):
    body = tree.body
    if cls:
        for n in tree.body:
            if isinstance(n, ast.ClassDef) and n.name == cls: body = n.body
    for n in body:
        if isinstance(n, ast.FunctionDef) and n.name == name: return n
    raise GenError('no function %s' % name)

PAULI = {'I': 'PI', 'X': 'PX', 'Y': 'PY', 'Z': 'PZ'}

def gen_pauli_table():
    t = parse('src/openfermion/ops/operators/qubit_operator.py')
    d = lit(module_assign(t, '_PAULI_OPERATOR_PRODUCTS'))
    rows = []
    for (a, b), (c, r) in d.items():
        rows.append(cpair(cpair(PAULI[a], PAULI[b]), cpair(cC(c), PAULI[r])))
    return ('From OFV Require Import Base.Cplx Sem.PauliSem.\nFrom Coq Require Import List ZArith. Import ListNotations.\n'
            '(* generated from qubit_operator.py:_PAULI_OPERATOR_PRODUCTS *)\n'
            'Definition gen_pauli_products : list ((pauli * pauli) * (C * pauli)) :=\n  %s.\n' % clist(rows))

CLASSES = [('QubitOperator', 'qubit_operator.py'), ('FermionOperator', 'fermion_operator.py'),
           ('BosonOperator', 'boson_operator.py'), ('QuadOperator', 'quad_operator.py'),
           ('IsingOperator', 'ising_operator.py')]
def gen_class_attrs():
    out = ['From Coq Require Import List String ZArith. Import ListNotations. Open Scope string_scope.',
           '(* generated from the operator classes: (class, different_indices_commute, action_before_index, action_strings) *)']
    rows = []
    for cls, f in CLASSES:
        t = parse('src/openfermion/ops/operators/' + f)
        dic = class_property_return(t, cls, 'different_indices_commute')
        abi = class_property_return(t, cls, 'action_before_index')
        acts = class_property_return(t, cls, 'actions')
        strs = class_property_return(t, cls, 'action_strings')
        if not isinstance(dic, bool) or not isinstance(abi, bool): raise GenError('non-bool class attr')
        rows.append('("%s", (%s, %s, %s, %s))' % (cls, 'true' if dic else 'false', 'true' if abi else 'false',
                    clist(['"%s"' % str(a) for a in acts]), clist(['"%s"' % s for s in strs])))
    out.append('Definition gen_class_attrs : list (string * (bool * bool * list string * list string)) :=\n  %s.' % clist(rows))
    return '\n'.join(out) + '\n'

def gen_constants():
    t = parse('src/openfermion/config.py')
    tol = lit(module_assign(t, 'EQ_TOLERANCE'))
    if not isinstance(tol, float): raise GenError('EQ_TOLERANCE not a float literal')
    return ('From OFV Require Import Base.Cplx.\nFrom Coq Require Import ZArith QArith Qcanon.\n'
            '(* generated from config.py: EQ_TOLERANCE as the exact value of the binary64 literal *)\n'
            'Definition gen_eq_tolerance : Qc := %s.\n' % cQ(Fraction(tol)))

# ---- translator for pure integer functions: parameters (Python ints -> Z, flags -> bool), statements
#      `if c: ... [else: ...]` and `return e | None`, expressions + - * % and comparisons.  Python ints are unbounded
#      and % is floored: Z.add / Z.sub / Z.mul / Z.modulo are the same functions (divisor non-zero).
def zexpr(node, zp):
    if isinstance(node, ast.Constant) and isinstance(node.value, int) and not isinstance(node.value, bool):
        return '%d' % node.value if node.value >= 0 else '(%d)' % node.value
    if isinstance(node, ast.Name):
        if node.id in zp: return node.id
        raise GenError('name %s is not an integer parameter' % node.id)
    if isinstance(node, ast.BinOp):
        ops = {ast.Add: '+', ast.Sub: '-', ast.Mult: '*'}
        if type(node.op) in ops: return '(%s %s %s)' % (zexpr(node.left, zp), ops[type(node.op)], zexpr(node.right, zp))
        if isinstance(node.op, ast.Mod): return '(Z.modulo %s %s)' % (zexpr(node.left, zp), zexpr(node.right, zp))
    raise GenError('unsupported integer expression %s at line %s' % (type(node).__name__, getattr(node, 'lineno', '?')))

def bexpr(node, zp, bp):
    if isinstance(node, ast.Name) and node.id in bp: return node.id
    if isinstance(node, ast.Compare) and len(node.ops) == 1:
        a, b = zexpr(node.left, zp), zexpr(node.comparators[0], zp)
        op = node.ops[0]
        if isinstance(op, ast.Eq): return '(%s =? %s)' % (a, b)
        if isinstance(op, ast.NotEq): return '(negb (%s =? %s))' % (a, b)
        if isinstance(op, ast.Lt): return '(%s <? %s)' % (a, b)
        if isinstance(op, ast.LtE): return '(%s <=? %s)' % (a, b)
        if isinstance(op, ast.Gt): return '(%s <? %s)' % (b, a)
        if isinstance(op, ast.GtE): return '(%s <=? %s)' % (b, a)
    raise GenError('unsupported condition %s at line %s' % (type(node).__name__, getattr(node, 'lineno', '?')))

def zblock(stmts, zp, bp):
    """a statement list every path of which returns -> Gallina term of type option Z"""
    stmts = [s for s in stmts if not (isinstance(s, ast.Expr) and isinstance(s.value, ast.Constant) and isinstance(s.value.value, str))]
    if not stmts: raise GenError('a path falls off the end of the function')
    s0 = stmts[0]
    if isinstance(s0, ast.Return):
        if len(stmts) != 1: raise GenError('statements after return')
        if s0.value is None or (isinstance(s0.value, ast.Constant) and s0.value.value is None): return 'None'
        return '(Some %s)' % zexpr(s0.value, zp)
    if isinstance(s0, ast.If):
        then = zblock(s0.body, zp, bp)
        other = zblock(s0.orelse, zp, bp) if s0.orelse else zblock(stmts[1:], zp, bp)
        if s0.orelse and len(stmts) != 1: raise GenError('statements after if/else whose branches both return')
        return '(if %s then %s else %s)' % (bexpr(s0.test, zp, bp), then, other)
    raise GenError('unsupported statement %s at line %s' % (type(s0).__name__, getattr(s0, 'lineno', '?')))

def translate_int_function(fn, bool_params=()):
    if fn.args.vararg or fn.args.kwarg or fn.args.kwonlyargs or fn.args.defaults: raise GenError('%s: unsupported signature' % fn.name)
    names = [a.arg for a in fn.args.args]
    zp = [a for a in names if a not in bool_params]; bp = [a for a in names if a in bool_params]
    binders = ' '.join('(%s : %s)' % (a, 'bool' if a in bp else 'Z') for a in names)
    return 'Definition gen%s %s : option Z :=\n  %s.\n' % (fn.name, binders, zblock(fn.body, zp, bp))

def gen_hubbard_neighbors():
    t = parse('src/openfermion/hamiltonians/hubbard.py')
    out = ['From Coq Require Import ZArith Bool.\nLocal Open Scope Z_scope.',
           '(* generated from hamiltonians/hubbard.py: _right_neighbor, _bottom_neighbor (Python ints as Z, periodic as bool) *)']
    for name in ('_right_neighbor', '_bottom_neighbor'):
        out.append(translate_int_function(func_def(t, name), bool_params=('periodic',)))
    return '\n'.join(out)

GENERATORS = {'PauliTable': gen_pauli_table, 'ClassAttrs': gen_class_attrs, 'Constants': gen_constants, 'HubbardNeighbors': gen_hubbard_neighbors}

def regenerate():
    """rewrite Gen/*.v from the current source; returns {name: error or None}"""
    res = {}
    d = os.path.join(THEORIES, 'Gen'); os.makedirs(d, exist_ok=True)
    for name, fn in GENERATORS.items():
        p = os.path.join(d, name + '.v')
        try:
            txt = fn(); res[name] = None
        except Exception as e:   # fail closed: a file that cannot compile
            txt = '(* generation failed: %s *)\nDefinition gen_failed : True := I I.\n' % str(e).replace('*)', '* )')
            res[name] = str(e)
        if not os.path.exists(p) or open(p).read() != txt:
            open(p, 'w').write(txt)
    return res
