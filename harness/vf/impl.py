"""Access to the implementation under test: always /repo's current working tree."""
import os, sys, warnings
from .core import REPO
warnings.filterwarnings('ignore')
sys.path.insert(0, os.path.join(REPO, 'src'))
os.environ.setdefault('PYTHONHASHSEED', '0')
import openfermion as of          # noqa: E402
assert os.path.realpath(of.__file__).startswith(os.path.realpath(os.path.join(REPO, 'src'))), of.__file__
