"""Serialisation of OpenFermion operators into Coq literals and shared exact-stream generators."""
from fractions import Fraction
from .core import cN, cC, cbool, clist, cpair, cfrac

def coq_fterm(t): return clist(['(%s, %s)' % (cN(i), cbool(a == 1)) for i, a in t])
def coq_fop_terms(terms): return clist([cpair(coq_fterm(t), cC(c)) for t, c in terms.items()])
def coq_fop(op): return coq_fop_terms(op.terms)
def coq_qterm(t): return clist(['(%s, P%s)' % (cN(i), a) for i, a in t])
def coq_qop_terms(terms): return clist([cpair(coq_qterm(t), cC(c)) for t, c in terms.items()])
def coq_qop(op): return coq_qop_terms(op.terms)
def coq_quadterm(t): return clist(['(%s, %s)' % (cN(i), cbool(a == 'p')) for i, a in t])

def dy(rng, big=4, den=2):
    """small dyadic real"""
    return rng.randint(-big, big) / 2 ** rng.randint(0, den)
def dyc(rng, big=4, den=1, real=False):
    if real or rng.random() < 0.4: return float(dy(rng, big, den)) or 1.0
    return complex(dy(rng, big, den), dy(rng, big, den)) or 1j

def exact_terms_ok(terms, lo=20, hi=40):
    for c in terms.values():
        for q in cfrac(c):
            if q != 0 and (abs(q) < Fraction(1, 2 ** lo) or abs(q) > 2 ** hi or (q * 2 ** 30).denominator != 1):
                return False
    return True

def rand_fermion_terms(rng, nmodes, nterms, maxlen=4, real=False):
    d = {}
    for _ in range(nterms):
        n = rng.randint(0, maxlen)
        t = tuple((rng.randrange(nmodes), rng.randint(0, 1)) for _ in range(n))
        d[t] = dyc(rng, real=real)
    return d
def rand_qubit_terms(rng, nq, nterms, maxlen=4, real=False):
    d = {}
    for _ in range(nterms):
        n = rng.randint(0, min(maxlen, nq))
        qs = sorted(rng.sample(range(nq), n))
        t = tuple((q, rng.choice('XYZ')) for q in qs)
        d[t] = dyc(rng, real=real)
    return d
def mk_fermion(of, terms):
    op = of.FermionOperator()
    for t, c in terms.items(): op += of.FermionOperator(t, c)
    return op
def mk_qubit(of, terms):
    op = of.QubitOperator()
    for t, c in terms.items(): op += of.QubitOperator(t, c)
    return op
