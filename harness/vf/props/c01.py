"""C01: operator arithmetic is a faithful algebra homomorphism (programs with aliasing vs the Coq model)."""
import copy, itertools
from fractions import Fraction
from ..core import *
from .. import gen

IMPORTS = 'From OFV Require Import Base.Cplx Sem.PauliSem Model.SymbolicOp Model.QubitOp Model.LadderOp Model.Program Model.Predicates Model.MajoranaOp Check.DictEquiv Check.OpEquiv Check.Commutator.\n'

CLASSES = {
    # name: (python class name, actions, coq factor printer, coq (feqb, simplify))
    'qubit':   ('QubitOperator',   ['X', 'Y', 'Z'], lambda i, a: '(%s, P%s)' % (cN(i), a), 'pfeqb qsimplify'),
    'ising':   ('IsingOperator',   ['Z'],           lambda i, a: '(%s, P%s)' % (cN(i), a), 'pfeqb isimplify'),
    'fermion': ('FermionOperator', [1, 0],          lambda i, a: '(%s, %s)' % (cN(i), cbool(a == 1)), 'lfeqb fsimplify'),
    'boson':   ('BosonOperator',   [1, 0],          lambda i, a: '(%s, %s)' % (cN(i), cbool(a == 1)), 'lfeqb bsimplify'),
    'quad':    ('QuadOperator',    ['q', 'p'],      lambda i, a: '(%s, %s)' % (cN(i), cbool(a == 'p')), 'lfeqb bsimplify'),
}
INDEX_POOLS = [[0, 1, 2], [0, 1, 2, 3], [0, 1, 10, 11], [3, 64, 7, 12], [0, 1]]

def rand_coeff(rng, kind=None):
    if kind is None and rng.random() < 0.04: return rng.choice([0, 0.0, 0j])     # exactly zero coefficients / scalars now and then
    kind = kind or rng.choice(['int', 'float', 'complex', 'complex', 'dyadic'])
    if kind == 'int': return rng.choice([1, -1, 2, 3, -2, 5])
    if kind == 'float': return float(rng.choice([1, -1, 2, 3, -3, 0.5, -0.25, 1.5, 0.75]))
    if kind == 'dyadic': return rng.randint(-8, 8) / 2 ** rng.randint(0, 2) or 1.0
    return complex(rng.randint(-4, 4) / 2 ** rng.randint(0, 1), rng.randint(-4, 4) / 2 ** rng.randint(0, 1)) or 1j

def rand_term(rng, actions, pool, force_repeat):
    n = rng.choice([0, 1, 1, 2, 2, 3, 3, 4, 5, 6])
    t = [(rng.choice(pool), rng.choice(actions)) for _ in range(n)]
    if force_repeat and n >= 2:
        i = rng.randrange(n - 1); t[i + 1] = (t[i][0], rng.choice(actions))
        if rng.random() < 0.5: rng.shuffle(t)
    return tuple(t)

def gen_program(rng, cname, maxlen):
    cls, actions, _, _ = CLASSES[cname]
    pool = rng.choice(INDEX_POOLS)
    prog, nvars = [], 0
    def fresh():
        nonlocal nvars
        nvars += 1; return nvars - 1
    # initial operands: sums of a few terms built by += so that multi-term operators exist
    for _ in range(rng.choice([2, 2, 3])):
        x = fresh()
        r = rng.random()
        if r < 0.1: prog.append(('zero', x))
        else:
            prog.append(('new', x, rand_term(rng, actions, pool, rng.random() < 0.4), rand_coeff(rng)))
            for _ in range(rng.choice([0, 1, 2, 3, 5])):
                y = fresh()
                prog.append(('new', y, rand_term(rng, actions, pool, rng.random() < 0.4), rand_coeff(rng)))
                prog.append(('ibin', x, y, rng.choice(['add', 'add', 'sub'])))
    n = rng.randint(1, maxlen)
    for _ in range(n):
        v = lambda: rng.randrange(nvars)
        k = rng.choice(['bin', 'bin', 'bin', 'ibin', 'ibin', 'ibin', 'scalr', 'scall', 'div', 'neg', 'pow', 'addc',
                        'rsubc', 'copy', 'alias', 'iscal', 'idiv', 'iaddc', 'selfop', 'aliasop', 'accum'])
        if k == 'bin': y, z = v(), v(); prog.append(('bin', fresh(), y, z, rng.choice(['add', 'sub', 'mul', 'mul'])))
        elif k == 'ibin': prog.append(('ibin', v(), v(), rng.choice(['add', 'sub', 'mul'])))
        elif k == 'selfop': x = v(); prog.append(('ibin', x, x, rng.choice(['add', 'sub', 'mul'])))
        elif k == 'aliasop':
            y = v(); x = fresh(); prog.append(('alias', x, y)); prog.append(('ibin', x, v(), rng.choice(['add', 'sub', 'mul'])))
        elif k in ('scalr', 'scall'): y = v(); prog.append((k, fresh(), y, rand_coeff(rng)))
        elif k == 'div': y = v(); prog.append(('div', fresh(), y, rng.choice([2, -2, 4, 0.5, -1, 2.0, 2j, -4j])))
        elif k == 'neg': y = v(); prog.append(('neg', fresh(), y))
        elif k == 'pow': y = v(); prog.append(('pow', fresh(), y, rng.choice([0, 1, 2, 2, 3])))
        elif k in ('addc', 'rsubc'): y = v(); prog.append((k, fresh(), y, rand_coeff(rng)))
        elif k in ('copy', 'alias'): y = v(); prog.append((k, fresh(), y))
        elif k == 'iscal': prog.append(('iscal', v(), rand_coeff(rng)))
        elif k == 'idiv': prog.append(('idiv', v(), rng.choice([2, -2, 4, 0.5, -1, 2j])))
        elif k == 'iaddc': prog.append(('iaddc', v(), rand_coeff(rng)))
        elif k == 'accum':
            ys = tuple(v() for _ in range(rng.randint(0, 3))); z = v() if rng.random() < 0.7 else None
            x = fresh(); prog.append(('accum', x, ys, z))
            if rng.random() < 0.5: prog.append(('iaddc', x, rand_coeff(rng)) if rng.random() < 0.5 else ('ibin', x, v(), rng.choice(['add', 'sub', 'mul'])))
    return prog

def run_impl(prog, cname):
    """execute on the real classes; returns (trace, error) ; trace[i] = [(var, {term: coeff})...] after stmt i"""
    from ..impl import of
    cls = getattr(of, CLASSES[cname][0])
    V, order, trace = {}, [], []
    def bind(x, val):
        if x not in V: order.append(x)
        V[x] = val
    for st in prog:
        k = st[0]
        try:
            if k == 'new': bind(st[1], cls(st[2], st[3]))
            elif k == 'zero': bind(st[1], cls())
            elif k == 'bin':
                a, b = V[st[2]], V[st[3]]
                bind(st[1], a + b if st[4] == 'add' else a - b if st[4] == 'sub' else a * b)
            elif k == 'scalr': bind(st[1], V[st[2]] * st[3])
            elif k == 'scall': bind(st[1], st[3] * V[st[2]])
            elif k == 'div': bind(st[1], V[st[2]] / st[3])
            elif k == 'neg': bind(st[1], -V[st[2]])
            elif k == 'pow': bind(st[1], V[st[2]] ** st[3])
            elif k == 'addc': bind(st[1], V[st[2]] + st[3])
            elif k == 'rsubc': bind(st[1], st[3] - V[st[2]])
            elif k == 'copy': bind(st[1], copy.deepcopy(V[st[2]]))
            elif k == 'alias': bind(st[1], V[st[2]])
            elif k == 'ibin':
                x = V[st[1]]; y = V[st[2]]
                if st[3] == 'add': x += y
                elif st[3] == 'sub': x -= y
                else: x *= y
                V[st[1]] = x
            elif k == 'iscal': x = V[st[1]]; x *= st[2]; V[st[1]] = x
            elif k == 'idiv': x = V[st[1]]; x /= st[2]; V[st[1]] = x
            elif k == 'iaddc': x = V[st[1]]; x += st[2]; V[st[1]] = x
            elif k == 'accum': bind(st[1], cls.accumulate([V[y] for y in st[2]], start=V[st[3]]) if st[3] is not None else cls.accumulate([V[y] for y in st[2]]))
        except Exception as e:
            return trace, '%s: %s' % (type(e).__name__, e)
        trace.append([(x, dict(V[x].terms)) for x in order])
    return trace, None

def exact_ok(trace):
    """every dumped coefficient is a small dyadic: no float rounding can have happened, and no
    non-zero value is anywhere near EQ_TOLERANCE"""
    for dump in trace:
        for _, d in dump:
            for c in d.values():
                for q in cfrac(c):
                    if q != 0 and (abs(q) < Fraction(1, 2 ** 20) or abs(q) > 2 ** 40 or (q * 2 ** 24).denominator != 1):
                        return False
    return True

def coq_term(cname, t): return clist([CLASSES[cname][2](i, a) for i, a in t])
def coq_op(cname, d): return clist([cpair(coq_term(cname, t), cC(c)) for t, c in d.items()])
BIN = {'add': 'OAdd', 'sub': 'OSub', 'mul': 'OMul'}
def coq_stmt(cname, st):
    k = st[0]; n = cnat
    if k == 'new': return '(SNew %s %s %s)' % (n(st[1]), coq_term(cname, st[2]), cC(st[3]))
    if k == 'zero': return '(SZero %s)' % n(st[1])
    if k == 'bin': return '(SBin %s %s %s %s)' % (n(st[1]), n(st[2]), n(st[3]), BIN[st[4]])
    if k == 'scalr': return '(SScalR %s %s %s)' % (n(st[1]), n(st[2]), cC(st[3]))
    if k == 'scall': return '(SScalL %s %s %s)' % (n(st[1]), n(st[2]), cC(st[3]))
    if k == 'div': return '(SDiv %s %s %s)' % (n(st[1]), n(st[2]), cC(st[3]))
    if k == 'neg': return '(SNeg %s %s)' % (n(st[1]), n(st[2]))
    if k == 'pow': return '(SPow %s %s %s)' % (n(st[1]), n(st[2]), n(st[3]))
    if k == 'addc': return '(SAddC %s %s %s)' % (n(st[1]), n(st[2]), cC(st[3]))
    if k == 'rsubc': return '(SRSubC %s %s %s)' % (n(st[1]), n(st[2]), cC(st[3]))
    if k == 'copy': return '(SCopy %s %s)' % (n(st[1]), n(st[2]))
    if k == 'alias': return '(SAlias %s %s)' % (n(st[1]), n(st[2]))
    if k == 'ibin': return '(SIBin %s %s %s)' % (n(st[1]), n(st[2]), BIN[st[3]])
    if k == 'iscal': return '(SIScal %s %s)' % (n(st[1]), cC(st[2]))
    if k == 'idiv': return '(SIDiv %s %s)' % (n(st[1]), cC(st[2]))
    if k == 'iaddc': return '(SIAddC %s %s)' % (n(st[1]), cC(st[2]))
    if k == 'accum': return '(SAccum %s (%s : list nat) %s)' % (n(st[1]), clist([n(y) for y in st[2]]), '(Some %s)' % n(st[3]) if st[3] is not None else 'None')
    raise ValueError(k)
def coq_trace(cname, tr):
    return clist([clist([cpair(cnat(x), coq_op(cname, d)) for x, d in dump]) for dump in tr])
def coq_case(cname, prog, trace):
    fe_si = CLASSES[cname][3]
    return '(prog_check _ %s small_tol %s %s)' % (fe_si, clist([coq_stmt(cname, s) for s in prog]), coq_trace(cname, trace))

def jsonable_prog(prog):
    return [[(repr(e) if isinstance(e, (complex, tuple)) else e) for e in st] for st in prog]

def shrink(ctx, cname, prog):
    """delta-debugging on statements: drop statements while implementation and model still disagree"""
    def bad(p):
        tr, err = run_impl(p, cname)
        if err is not None or not tr or not exact_ok(tr): return False
        r = coq_eval_bools(ctx, 'shrink', IMPORTS, [coq_case(cname, p, tr)])
        return r[0] is False
    cur = list(prog); changed = True; budget = 25
    while changed and budget > 0:
        changed = False
        for i in reversed(range(len(cur))):
            budget -= 1
            if budget <= 0: break
            cand = cur[:i] + cur[i + 1:]
            used_ok = True
            try:
                if bad(cand): cur = cand; changed = True
            except Exception:
                pass
    return cur

def first_divergence(ctx, cname, prog, trace):
    """index of the first statement after which model and implementation differ"""
    for i in range(1, len(prog) + 1):
        r = coq_eval_bools(ctx, 'div', IMPORTS, [coq_case(cname, prog[:i], trace[:i])])
        if r[0] is False: return i - 1
    return None

def run(ctx):
    nprog = 700 if ctx.quick else 6000
    maxlen = 5 if ctx.quick else 8
    cases, meta = [], []
    dist = {}
    corpus = load_corpus(ctx)
    def fixst(s):
        s = list(s)
        if s[0] == 'new': s[2] = tuple(tuple(f) for f in s[2])
        return tuple(s)
    progs = [(c['cls'], [fixst(s) for s in c['prog']]) for c in corpus]
    for i in range(nprog):
        cname = ['qubit', 'qubit', 'fermion', 'boson', 'quad', 'ising'][i % 6]
        progs.append((cname, gen_program(ctx.rng, cname, maxlen)))
    for cname, prog in progs:
        trace, err = run_impl(prog, cname)
        if err is not None:
            # the model has no error outcomes for these well-formed programs: an exception is a deviation
            ctx.stat('programs', 'impl_exceptions')
            ctx.violation('C01 %s: implementation raised %s on a well-formed program' % (cname, err),
                          {'class': cname, 'program': jsonable_prog(prog), 'error': err,
                           'finding': classify_exception(prog, err)})
            continue
        # representation invariant of the classes with a canonical term form, also for keys whose coefficient is exactly zero
        bad_key = None
        for dump in trace:
            for x, d in dump:
                for t in d:
                    idx = [f[0] for f in t]
                    if cname in ('qubit', 'ising') and (idx != sorted(set(idx)) or any(f[1] == 'I' for f in t)): bad_key = (x, t)
                    if cname in ('boson', 'quad') and idx != sorted(idx): bad_key = (x, t)
        if bad_key is not None:
            ctx.count('programs', 1)
            ctx.violation('C01 %s: variable %d holds the non-canonical term %r' % (cname, bad_key[0], bad_key[1]), {'class': cname, 'program': jsonable_prog(prog)})
            continue
        if not exact_ok(trace):
            ctx.stat('programs', 'discarded_inexact'); continue
        # a program whose dumps grow beyond a few thousand (variable, term) entries is not evaluated (multi-megabyte Coq literals)
        if sum(len(d) for dump in trace for _, d in dump) > 2500:
            ctx.stat('programs', 'discarded_too_large'); continue
        kinds = tuple(sorted(set(s[0] + (':' + s[-1] if s[0] in ('bin', 'ibin') else '') for s in prog)))
        nontriv = any(len(d) >= 2 for _, d in trace[-1])
        ctx.count('programs', 1, nontrivial_key=(cname, repr(prog)) if nontriv else None)
        for s in prog: dist[cname + '.' + s[0]] = dist.get(cname + '.' + s[0], 0) + 1
        cases.append(coq_case(cname, prog, trace)); meta.append((cname, prog, trace))
        if len(ctx.cov['samples']) < 4 and nontriv:
            ctx.sample({'class': cname, 'program': jsonable_prog(prog),
                        'final_terms': [[x, {repr(t): repr(c) for t, c in d.items()}] for x, d in trace[-1]]})
    res = coq_eval_bools(ctx, 'prog', IMPORTS, cases, chunk=60)
    ctx.parts['programs']['statement_kinds'] = dist
    nbad = 0
    for (cname, prog, trace), ok in zip(meta, res):
        if ok is True: continue
        if ok is None:
            ctx.violation('C01: the Coq model could not be evaluated (model or obligation broken)',
                          {'obligation': 'Model.Program evaluation', 'class': cname, 'program': jsonable_prog(prog)}, no_input=True)
            break
        nbad += 1
        ctx.cov['disagreements_checked'] += 1
        if nbad > 3: continue
        small = shrink(ctx, cname, prog)
        tr, _ = run_impl(small, cname)
        i = first_divergence(ctx, cname, small, tr)
        model_dump = coq_eval_raw(ctx, 'model_out', IMPORTS, 'map (fun d => map (fun xo => (fst xo, map (fun tc => (fst tc, (Qcanon.this (fst (snd tc)), Qcanon.this (snd (snd tc))))) (snd xo))) d) (run_trace _ %s small_tol (st0 _) %s)'
                                  % (CLASSES[cname][3], clist([coq_stmt(cname, s) for s in small])))
        ctx.violation('C01 %s: after statement %s the implementation\'s .terms differ from the proved model (denotation or canonical form broken)' % (cname, i),
                      {'class': cname, 'program': jsonable_prog(small), 'diverges_after_statement': i,
                       'impl_trace': [[[x, {repr(t): repr(c) for t, c in d.items()}] for x, d in dump] for dump in tr],
                       'model_trace': model_dump})
    if nbad > 3: ctx.notes.append('%d disagreeing programs in total; first 3 minimised' % nbad)
    run_majorana(ctx)

def run_majorana(ctx):
    """MajoranaOperator arithmetic: model dictionaries and the Jordan-Wigner denotation (gamma_k as Pauli words)"""
    from ..impl import of
    from ..ops import exact_terms_ok
    rng = ctx.rng
    M = of.MajoranaOperator
    def cm(t): return clist([cN(i) for i in t])
    def cmo(d): return clist([cpair(cm(t), cC(c)) for t, c in d.items()])
    items, meta = [], []
    for i in range(250 if ctx.quick else 2500):
        pool = rng.choice([list(range(5)), [0, 1, 2, 3, 4, 5, 6], [1, 4, 9, 10, 11]])
        def rop():
            op = M()
            for _ in range(rng.randint(0, 4)):
                t = tuple(rng.choice(pool) for _ in range(rng.randint(0, 5)))
                op += M(t, rand_coeff(rng))
            return op
        a, b = rop(), rop()
        k = rng.choice([2, -1, 0.5, 2j, -4j, 3])
        # constructor on an unsorted word with repeats
        w = tuple(rng.choice(pool) for _ in range(rng.randint(0, 6))); c0 = rand_coeff(rng)
        mw = M(w, c0)
        outs = {'mul': a * b, 'add': a + b, 'sub': a - b, 'scal': a * k, 'rscal': k * a, 'div': a / k, 'neg': -a, 'pow': a ** 2}
        if not all(exact_terms_ok(o.terms) for o in outs.values()): continue
        A, B = cmo(a.terms), cmo(b.terms)
        E = lambda o: cmo(o.terms)
        expr = ' && '.join([
            'dict_eqb N N.eqb (mmk %s %s) %s' % (cm(w), cC(c0), E(mw)),
            'pauli_equiv (mjw0 [(%s, %s)]) (mjw0 %s)' % (cm(w), cC(c0), E(mw)),
            'dict_eqb N N.eqb (mmul %s %s) %s' % (A, B, E(outs['mul'])),
            'pauli_equiv (qmul (mjw0 %s) (mjw0 %s)) (mjw0 %s)' % (A, B, E(outs['mul'])),
            'dict_eqb N N.eqb (madd %s %s) %s' % (A, B, E(outs['add'])),
            'dict_eqb N N.eqb (msub %s %s) %s' % (A, B, E(outs['sub'])),
            'pauli_equiv (qsub0 (mjw0 %s) (mjw0 %s)) (mjw0 %s)' % (A, B, E(outs['sub'])),
            'dict_eqb N N.eqb (mscale %s %s) %s' % (A, cC(k), E(outs['scal'])),
            'dict_eqb N N.eqb (mscale %s %s) %s' % (A, cC(k), E(outs['rscal'])),
            'dict_eqb N N.eqb (mscale %s (Cinv %s)) %s' % (A, cC(k), E(outs['div'])),
            'dict_eqb N N.eqb (mscale %s Cm1) %s' % (A, E(outs['neg'])),
            'dict_eqb N N.eqb (mmul %s %s) %s' % (A, A, E(outs['pow'])),
            'forallb (fun tc : mterm * C => Bool.eqb (snd (msort (fst tc))) false && teqb N.eqb (fst (msort (fst tc))) (fst tc)) %s' % E(outs['mul']),
        ])
        items.append('(' + expr + ')')
        meta.append(('majorana', {'call': 'MajoranaOperator arithmetic', 'a': repr(a.terms), 'b': repr(b.terms), 'k': repr(k), 'word': repr(w), 'c0': repr(c0)}))
        ctx.count('majorana', 1, nontrivial_key=(repr(a.terms), repr(b.terms)) if len(a.terms) > 1 else None)
        # aliasing: in-place forms must equal out-of-place and leave the other operand alone
        a2 = M.from_dict(dict(a.terms)); b2 = M.from_dict(dict(b.terms)); a2 += b2; a3 = M.from_dict(dict(a.terms)); a3 -= a3; a4 = M.from_dict(dict(a.terms)); a4 *= a4
        if a2.terms != outs['add'].terms or b2.terms != b.terms or any(v != 0 for v in a3.terms.values()) or a4.terms != outs['pow'].terms:
            ctx.violation('C01 majorana: in-place operation differs from out-of-place or changed an operand', {'a': repr(a.terms), 'b': repr(b.terms)})
    res = coq_eval_bools(ctx, 'maj', IMPORTS, items, chunk=50)
    for (part, replay), ok in zip(meta, res):
        if ok is True: continue
        if ok is None:
            ctx.violation('C01 majorana: the Coq model could not be evaluated', {'obligation': 'Model.MajoranaOp evaluation', 'input': replay}, no_input=True); continue
        ctx.cov['disagreements_checked'] += 1
        ctx.violation('C01 majorana: result differs from the model dictionary or from the product/sum of the denoted Pauli operators', replay)

def classify_exception(prog, err):
    return None

def load_corpus(ctx):
    import glob
    out = []
    for p in sorted(glob.glob(os.path.join(VERIF, 'corpus', ctx.prop, '*.json'))):
        out.append(json.load(open(p)))
    return out
