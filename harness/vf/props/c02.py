"""C02: equality and structural predicates decide what they claim."""
import itertools
from fractions import Fraction
import numpy as np
from ..core import *
from ..ops import *
from .c04 import judge

IMPORTS = ('From OFV Require Import Base.Cplx Base.Lin Sem.PauliSem Sem.FermiSem Sem.BoseSem Model.SymbolicOp Model.QubitOp Model.LadderOp '
           'Model.NormalOrder Model.Conjugate Model.Predicates Model.MajoranaOp Model.Program Check.DictEquiv Check.OpEquiv Check.Commutator Thm.C07.Adjoint.\n')
NEEDS = ['Thm/C02/IsClose', 'Thm/C02/Bounded', 'Thm/C03/NormalOrderFix']
TOL = 1e-8

def t2lit(tol): return cQ(Fraction(tol) ** 2)
def coq_mterm(t): return clist([cN(i) for i in t])
def coq_mop(terms): return clist([cpair(coq_mterm(t), cC(c)) for t, c in terms.items()])

KINDS = {'qubit': ('QubitOperator', 'pfeqb', lambda rng, pool: tuple((q, rng.choice('XYZ')) for q in sorted(rng.sample(pool, rng.randint(0, min(3, len(pool)))))), coq_qop_terms),
         'fermion': ('FermionOperator', 'lfeqb', lambda rng, pool: tuple((rng.choice(pool), rng.randint(0, 1)) for _ in range(rng.randint(0, 4))), coq_fop_terms),
         'boson': ('BosonOperator', 'lfeqb', lambda rng, pool: tuple(sorted(((rng.choice(pool), rng.randint(0, 1)) for _ in range(rng.randint(0, 4))), key=lambda f: f[0])), coq_fop_terms)}

def run(ctx):
    from ..impl import of
    rng = ctx.rng
    items, meta = [], []
    def add(part, expr, replay, key=None):
        items.append(expr); meta.append((part, replay)); ctx.count(part, 1, nontrivial_key=key)
    N = (lambda q, t: q if ctx.quick else t)
    # ---- isclose / == / != : pairs built to straddle every threshold
    for i in range(N(400, 4000)):
        kind = rng.choice(list(KINDS)); clsname, feqb, mkterm, pr = KINDS[kind]; cls = getattr(of, clsname)
        pool = rng.choice([[0, 1, 2, 3], [0, 5, 12, 64]])
        nshared = rng.choice([0, 1, 2, 5, 12, 20])
        A, B = {}, {}
        mags = [0.5, 1.0, 2.0, 10.0, 1000.0]
        tries = 0
        while len(A) < nshared and tries < 200:
            tries += 1
            t = mkterm(rng, pool)
            if t in A: continue
            m = rng.choice(mags); c = rng.choice([m, -m, complex(0, m), complex(m, 0)])
            A[t] = c; B[t] = c
        tol = rng.choice([TOL, TOL, TOL, 1e-3, 0.5])
        # one perturbed shared coefficient
        if A and rng.random() < 0.8:
            t = rng.choice(list(A)); c = A[t]; scale = max(1.0, abs(c))
            f = rng.choice([0.5, 0.9, 1.1, 2.0, 1e3])
            B[t] = c + f * tol * scale * rng.choice([1, -1, 1j])
        # one-sided tiny / non-tiny terms
        for side in (A, B):
            if rng.random() < 0.5:
                t = mkterm(rng, pool)
                if t not in A and t not in B: side[t] = rng.choice([0.5, 0.9, 1.1, 3.0]) * tol * rng.choice([1, -1, 1j])
        def build(d, order):
            op = cls()
            for t in order: op.terms[t] = d[t]
            return op
        ka, kb = list(A), list(B); rng.shuffle(ka); rng.shuffle(kb)
        a, b = build(A, ka), build(B, kb)
        for x, y, tag in ((a, b, 'ab'), (b, a, 'ba')):
            v = x.isclose(y, tol) if tol != TOL else (x == y)
            nv = (x != y) if tol == TOL else (not v)
            add('isclose_' + kind, '(Bool.eqb (isclose %s %s %s %s) %s && Bool.eqb %s (negb %s))' % (feqb, t2lit(tol), pr(x.terms), pr(y.terms), cbool(v), cbool(nv), cbool(v)),
                {'call': '%s.isclose/==' % clsname, 'tol': tol, 'a': {repr(t): repr(c) for t, c in x.terms.items()}, 'b': {repr(t): repr(c) for t, c in y.terms.items()}, 'returned': v},
                key=(kind, repr(sorted(map(repr, A.items()))), repr(sorted(map(repr, B.items()))), tag) if A != B else None)
        if i < 2: ctx.sample({'part': 'isclose', 'class': clsname, 'shared_terms': nshared, 'tol': tol, 'a==b': bool(a == b)})
    # ---- MajoranaOperator == and commutes_with
    for i in range(N(150, 1500)):
        def rm():
            d = {}
            for _ in range(rng.randint(0, 4)):
                t = tuple(sorted(rng.sample(range(6), rng.randint(0, 4))))
                d[t] = float(rng.choice([1, -1, 2, 0.5, 1000])) * rng.choice([1, 1j])
            return d
        A = rm(); B = dict(A)
        if A and rng.random() < 0.7:
            t = rng.choice(list(A)); c = A[t]
            thr = 1e-8 + 1e-5 * abs(c)
            B[t] = c + rng.choice([0.5, 0.9, 1.1, 3.0]) * thr * (1 if complex(c).imag == 0 else 1j) * rng.choice([1, -1])
        if rng.random() < 0.4: B[tuple(sorted(rng.sample(range(6, 9), 2)))] = rng.choice([0.5, 0.9, 1.1, 3.0]) * 1e-8
        a, b = of.MajoranaOperator.from_dict(dict(A)), of.MajoranaOperator.from_dict(dict(B))
        for x, y, X, Y in ((a, b, A, B), (b, a, B, A)):
            v = bool(x == y)
            add('majorana_eq', '(Bool.eqb (meq %s %s) %s)' % (coq_mop(X), coq_mop(Y), cbool(v)),
                {'call': 'MajoranaOperator.__eq__', 'a': {repr(t): repr(c) for t, c in X.items()}, 'b': {repr(t): repr(c) for t, c in Y.items()}, 'returned': v}, key=(repr(X), repr(Y)))
        ta = tuple(sorted(rng.sample(range(7), rng.randint(0, 5)))); tb = tuple(sorted(rng.sample(range(7), rng.randint(0, 5))))
        v = of.MajoranaOperator(ta).commutes_with(of.MajoranaOperator(tb))
        add('majorana_commutes_with', '(Bool.eqb %s (mterms_commute %s %s) && Bool.eqb %s (qcomm_zero (mjw0 [(%s, C1)]) (mjw0 [(%s, C1)])))' % (cbool(v), coq_mterm(ta), coq_mterm(tb), cbool(v), coq_mterm(ta), coq_mterm(tb)),
            {'call': 'MajoranaOperator.commutes_with', 'a': ta, 'b': tb, 'returned': v}, key=(ta, tb))
        if i % 3 == 0:
            x = of.MajoranaOperator(ta, 2.0) + of.MajoranaOperator(tuple(sorted(rng.sample(range(5), 2))), 1.0)
            y = of.MajoranaOperator(tb, 1.0) + of.MajoranaOperator(tuple(sorted(rng.sample(range(5), 2))), -0.5)
            v = x.commutes_with(y)
            add('majorana_commutes_with', '(Bool.eqb %s (qcomm_zero (mjw0 %s) (mjw0 %s)))' % (cbool(v), coq_mop(x.terms), coq_mop(y.terms)),
                {'call': 'MajoranaOperator.commutes_with (multi-term)', 'a': repr(x.terms), 'b': repr(y.terms), 'returned': v}, key=(repr(x.terms), repr(y.terms)))
    # ---- is_hermitian on the other accepted types: InteractionOperator (non-Hermitian and Hermitian tensors, through
    #      normal ordering), dense and sparse matrices (threshold EQ_TOLERANCE on the largest entry of M - M^dagger)
    from .c04 import rand_hermitian_iop
    import scipy.sparse as _sp
    for i in range(N(40, 300)):
        n = rng.choice([1, 2, 3])
        const, one, two = rand_hermitian_iop(rng, n)
        if i % 2:
            # break Hermiticity in one entry (or keep it: an entry and its partner changed consistently)
            p_, q_ = rng.randrange(n), rng.randrange(n); one[p_, q_] += dyc(rng) if p_ != q_ else 1j
            if rng.random() < 0.3 and p_ != q_: one[q_, p_] = np.conj(one[p_, q_])
        if i % 5 == 4: const = complex(const, rng.choice([0.5, -1.25, 2.0]))     # a complex constant alone makes the operator non-Hermitian
        iop = of.InteractionOperator(const, one, two)
        fo = of.get_fermion_operator(iop)
        if exact_terms_ok(fo.terms):
            v = of.is_hermitian(iop)
            add('is_hermitian_interaction_operator', '(Bool.eqb %s (fermi_equiv %s (hc_map %s)))' % (cbool(v), coq_fop(fo), coq_fop(fo)),
                {'call': 'is_hermitian(InteractionOperator)', 'one_body': repr(one.tolist()), 'returned': v}, key=repr(fo.terms))
        m = rng.choice([2, 3, 4]); M = np.array([[dyc(rng) for _ in range(m)] for _ in range(m)]); M = M + M.conj().T
        kind = rng.choice(['herm', 'tiny', 'big', 'anti'])
        if kind == 'tiny': M[0, m - 1] += 1e-10      # below the threshold 1e-8
        elif kind == 'big': M[0, m - 1] += 1e-6      # above it
        elif kind == 'anti': M = M + 1j * np.eye(m)
        want = kind in ('herm', 'tiny')
        for fmt, X in (('ndarray', M), ('csc', _sp.csc_matrix(M)), ('csr', _sp.csr_matrix(M))):
            got = bool(of.is_hermitian(X)); ctx.count('is_hermitian_matrix', 1, nontrivial_key=(i, fmt))
            if got != want:
                ctx.violation('C02 is_hermitian(%s matrix): returned %r for a matrix whose largest |M - M^dagger| entry is %s the tolerance' % (fmt, got, 'below' if want else 'above'),
                              {'call': 'is_hermitian(matrix)', 'format': fmt, 'kind': kind, 'matrix': repr(M.tolist())})
    # operators that commute although their terms do not commute pairwise: an operator with itself, with a
    # polynomial in itself, the total number operator with number-conserving hops
    for i in range(N(40, 300)):
        k = rng.random()
        if k < 0.6:
            x = of.MajoranaOperator()
            for _ in range(rng.randint(2, 4)):
                x = x + of.MajoranaOperator(tuple(sorted(rng.sample(range(5), rng.randint(1, 3)))), float(rng.choice([1, -1, 2, 0.5])) * rng.choice([1, 1j]))
            y = rng.choice([lambda: x, lambda: x * x + x, lambda: x * x * 0.5 + of.MajoranaOperator((), 2.0), lambda: x + of.MajoranaOperator((), 1.0)])()
        else:
            nm = rng.choice([2, 3])
            x = of.MajoranaOperator()
            for j in range(nm): x = x + of.MajoranaOperator((2 * j, 2 * j + 1), -0.5j)
            p_, q_ = rng.sample(range(nm), 2); p_, q_ = min(p_, q_), max(p_, q_)
            y = of.MajoranaOperator((2 * p_, 2 * q_ + 1), 0.5j) + of.MajoranaOperator((2 * p_ + 1, 2 * q_), -0.5j)
            if rng.random() < 0.3: y = y + of.MajoranaOperator((2 * p_,), 1.0)      # breaks number conservation
        if len(x.terms) * len(y.terms) > 60: continue
        for a_, b_ in ((x, y), (y, x)):
            v = a_.commutes_with(b_)
            add('majorana_commutes_with_nonpairwise', '(Bool.eqb %s (qcomm_zero (mjw0 %s) (mjw0 %s)))' % (cbool(v), coq_mop(a_.terms), coq_mop(b_.terms)),
                {'call': 'MajoranaOperator.commutes_with (multi-term)', 'a': repr(a_.terms), 'b': repr(b_.terms), 'returned': v}, key=(repr(a_.terms), repr(b_.terms)))
    # ---- structural predicates
    facs = [(j, a) for j in range(3) for a in (1, 0)]
    words = [w for L in range(0, 4) for w in itertools.product(facs, repeat=L)]
    if ctx.quick: words = [w for w in words if len(w) < 3 or rng.random() < 0.5]
    for w in words:
        f = of.FermionOperator(w); bo = of.BosonOperator(w)
        bw = list(bo.terms)[0]
        add('is_normal_ordered', '(Bool.eqb %s (is_normal_ordered_fermi [(%s, C1)]) && Bool.eqb %s (is_normal_ordered_bose [(%s, C1)]) && Bool.eqb %s (dict_eqb lfactor lfeqb (no_fermi_term %s C1) [(%s, C1)]))' %
            (cbool(f.is_normal_ordered()), coq_fterm(w), cbool(bo.is_normal_ordered()), coq_fterm(bw), cbool(f.is_normal_ordered()), coq_fterm(w), coq_fterm(w)),
            {'call': 'is_normal_ordered', 'term': repr(w)}, key=w)
    # longer words (fermion / boson), and QuadOperator.is_normal_ordered against its definition (on every mode all q before all p)
    for _ in range(N(150, 1500)):
        L = rng.choice([4, 4, 5, 6]); w = tuple((rng.randrange(3), rng.randint(0, 1)) for _ in range(L))
        f = of.FermionOperator(w); bo = of.BosonOperator(w); bw = list(bo.terms)[0]
        add('is_normal_ordered', '(Bool.eqb %s (is_normal_ordered_fermi [(%s, C1)]) && Bool.eqb %s (is_normal_ordered_bose [(%s, C1)]))' %
            (cbool(f.is_normal_ordered()), coq_fterm(w), cbool(bo.is_normal_ordered()), coq_fterm(bw)), {'call': 'is_normal_ordered', 'term': repr(w)}, key=w)
    qfacs = [(j, a) for j in range(2) for a in 'qp']
    qwords = [w for L in range(0, 5) for w in itertools.product(qfacs, repeat=L)] + [tuple((rng.randrange(3), rng.choice('qp')) for _ in range(rng.choice([5, 6]))) for _ in range(N(100, 800))]
    for w in qwords:
        qo = of.QuadOperator(w, 1.0); t = list(qo.terms)[0]
        want = all(not any(a == 'p' and b == 'q' for k1, (m1, a) in enumerate(t) for (m2, b) in t[k1 + 1:] if m1 == m2 == md) for md in set(m for m, _ in t))
        got = qo.is_normal_ordered()
        fixed = (of.normal_ordered(qo) == qo)
        ctx.count('quad_is_normal_ordered', 1, nontrivial_key=w if len(w) >= 2 else None)
        if got != want or got != fixed:
            ctx.violation('C02 QuadOperator.is_normal_ordered returns %r on %r; all q before all p on every mode: %r; fixed point of normal_ordered: %r' % (got, t, want, fixed), {'call': 'QuadOperator.is_normal_ordered', 'term': repr(w)})
    for i in range(N(250, 2500)):
        nm = rng.choice([2, 3, 4, 6])
        terms = {}
        for _ in range(rng.randint(0, 4)):
            L = rng.choice([0, 2, 2, 4, 4, 4, 1, 3, 6])
            if rng.random() < 0.7 and L % 2 == 0:
                cr = [rng.randrange(nm) for _ in range(L // 2)]; an = [rng.randrange(nm) for _ in range(L // 2)]
                if rng.random() < 0.6 and L: an = [c + rng.choice([0, 0, 2, -2]) for c in cr]; an = [abs(x) % nm for x in an]
                t = [(c, 1) for c in cr] + [(a, 0) for a in an]; rng.shuffle(t); t = tuple(t)
            else:
                t = tuple((rng.randrange(nm), rng.randint(0, 1)) for _ in range(L))
            terms[t] = dyc(rng)
        f = mk_fermion(of, terms)
        num = mk_fermion(of, {((j, 1), (j, 0)): 1.0 for j in range(nm)})
        v0, v1 = f.is_two_body_number_conserving(), f.is_two_body_number_conserving(True)
        add('is_two_body_number_conserving', '(Bool.eqb %s (is_two_body_nc false %s) && Bool.eqb %s (is_two_body_nc true %s) && implb %s (fcomm_zero %s %s))' %
            (cbool(v0), coq_fop(f), cbool(v1), coq_fop(f), cbool(v0), coq_fop(f), coq_fop(num)),
            {'call': 'is_two_body_number_conserving', 'terms': {repr(t): repr(c) for t, c in f.terms.items()}, 'returned': [v0, v1]}, key=repr(sorted(terms)))
        bo = of.BosonOperator()
        for t, c in terms.items(): bo += of.BosonOperator(t, c)
        add('is_boson_preserving', '(Bool.eqb %s (is_boson_preserving %s))' % (cbool(bo.is_boson_preserving()), coq_fop_terms(bo.terms)), {'call': 'is_boson_preserving', 'terms': repr(bo.terms)}, key=repr(sorted(terms)))
        # is_hermitian: fermionic operators against the adjoint theorem's operator hc_map and the verified checker
        if rng.random() < 0.5: f = f + of.hermitian_conjugated(f)
        if exact_terms_ok(f.terms):
            v = of.is_hermitian(f)
            add('is_hermitian_fermion', '(Bool.eqb %s (fermi_equiv %s (hc_map %s)))' % (cbool(v), coq_fop(f), coq_fop(f)),
                {'call': 'is_hermitian(FermionOperator)', 'terms': {repr(t): repr(c) for t, c in f.terms.items()}, 'returned': v}, key=repr(f.terms))
        # bosonic operators: Hermitian modulo [b, b^] = 1 although spelled asymmetrically (A + A^dagger with one half
        # normal ordered, b b^ versus b^ b + 1), judged on the Bargmann-Fock action of degree <= 4
        if i % 3 == 0:
            bt = {}
            for _ in range(rng.randint(1, 2)):
                L = rng.choice([1, 2, 2, 3])
                bt[tuple((rng.randrange(2), rng.randint(0, 1)) for _ in range(L))] = dyc(rng)
            A_ = of.BosonOperator()
            for t, c in bt.items(): A_ += of.BosonOperator(t, c)
            k = rng.random()
            if k < 0.4: B_ = of.normal_ordered(A_) + of.hermitian_conjugated(A_)
            elif k < 0.6: B_ = A_ + of.hermitian_conjugated(A_)
            elif k < 0.8: B_ = of.BosonOperator('0 0^ 0^ 0', float(dy(rng) or 1.0)) + of.normal_ordered(A_) + of.hermitian_conjugated(A_)
            else: B_ = A_
            if exact_terms_ok(B_.terms) and B_.terms:
                v = of.is_hermitian(B_)
                add('is_hermitian_boson', '(Bool.eqb %s (bose_equiv_on bapply1 2 4 %s (hc_map %s)))' % (cbool(v), coq_fop_terms(B_.terms), coq_fop_terms(B_.terms)),
                    {'call': 'is_hermitian(BosonOperator)', 'terms': {repr(t): repr(c) for t, c in B_.terms.items()}, 'returned': v}, key=repr(B_.terms))
        q = mk_qubit(of, rand_qubit_terms(rng, 4, rng.randint(0, 4), real=rng.random() < 0.6))
        v = of.is_hermitian(q)
        add('is_hermitian_qubit', '(Bool.eqb %s (dict_eqb pfactor pfeqb (hc_qubit %s) %s))' % (cbool(v), coq_qop(q), coq_qop(q)), {'call': 'is_hermitian(QubitOperator)', 'terms': repr(q.terms), 'returned': v}, key=repr(q.terms))
        cand = rng.choice([of.QubitOperator(()), of.FermionOperator((), 2.0), of.FermionOperator(), q, f, of.FermionOperator(()) + of.FermionOperator('1^ 1', 1.0) - of.FermionOperator('1^ 1', 1.0), of.QubitOperator((), 0.0)])
        pr = coq_qop if isinstance(cand, of.QubitOperator) else coq_fop
        ty = 'pfactor' if isinstance(cand, of.QubitOperator) else 'lfactor'
        add('is_identity', '(Bool.eqb %s (@is_identity %s %s))' % (cbool(of.is_identity(cand)), ty, pr(cand)), {'call': 'is_identity', 'terms': repr(cand.terms)}, key=repr(cand.terms))
    # ---- PolynomialTensor.__eq__
    for i in range(N(150, 1500)):
        n = rng.choice([1, 2, 3])
        def rt():
            d = {(): float(dy(rng))}
            for key in [(1, 0), (1, 1, 0, 0), (0, 0), (1, 0, 1, 0)]:
                if rng.random() < 0.5 or (key == (1, 0, 1, 0) and len(d) == 1): d[key] = np.array([dy(rng) for _ in range(n ** len(key))], dtype=float).reshape((n,) * len(key))
            return d
        A = rt(); B = {k: (v.copy() if hasattr(v, 'copy') else v) for k, v in A.items()}
        ks = [k for k in B if k != ()]
        r = rng.random()
        if r < 0.5 and ks:
            k = rng.choice(ks); idx = tuple(rng.randrange(n) for _ in k); B[k][idx] += rng.choice([0.5, 0.9, 1.1, 5.0]) * 1e-8 * rng.choice([1, -1])
        elif r < 0.7:
            k = rng.choice([(0, 1), (1, 1), (1, 0, 0, 0)]); arr = np.zeros((n,) * len(k)); arr[(0,) * len(k)] = rng.choice([0.5, 0.9, 1.1, 5.0]) * 1e-8; B[k] = arr
        elif r < 0.8:
            B[()] = A[()] + rng.choice([0.5, 1.1]) * 1e-8
        ta, tb = of.PolynomialTensor(A), of.PolynomialTensor(B)
        if rng.random() < 0.1:
            tb = of.PolynomialTensor({k: (np.zeros((n + 1,) * len(k)) if k else v) for k, v in B.items()}) if ks else tb
        def lit(d): return clist([cpair(clist([cbool(bool(x)) for x in k]), clist([cC(x) for x in np.asarray(v).reshape(-1).tolist()])) for k, v in d.items()])
        for x, y in ((ta, tb), (tb, ta)):
            v = bool(x == y)
            add('polynomial_tensor_eq', '(Bool.eqb %s (ptensor_eq %s %s %s %s %s))' % (cbool(v), t2lit(TOL), cN(x.n_qubits), cN(y.n_qubits), lit(x.n_body_tensors), lit(y.n_body_tensors)),
                {'call': 'PolynomialTensor.__eq__', 'a': {repr(k): repr(np.asarray(v_).tolist()) for k, v_ in x.n_body_tensors.items()}, 'b': {repr(k): repr(np.asarray(v_).tolist()) for k, v_ in y.n_body_tensors.items()}, 'returned': v},
                key=(repr(x.n_body_tensors), repr(y.n_body_tensors)))
    res = coq_eval_bools(ctx, 'c02', IMPORTS, items, chunk=100)
    judge(ctx, res, meta, 'C02')
