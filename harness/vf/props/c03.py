"""C03: normal ordering yields the canonical form of the same operator."""
import itertools
import numpy as np
from ..core import *
from ..ops import *
from .c04 import judge, spec_tensor, rand_hermitian_iop

IMPORTS = ('From OFV Require Import Base.Cplx Base.Lin Sem.PauliSem Sem.FermiSem Sem.BoseSem Model.SymbolicOp Model.QubitOp Model.LadderOp '
           'Model.NormalOrder Model.Conjugate Model.Program Check.DictEquiv Check.OpEquiv Thm.C07.Adjoint.\n')
NEEDS = ['Thm/C03/CAR', 'Thm/C03/NormalOrderB', 'Thm/C03/NormalOrderF', 'Thm/C03/NormalOrderFix', 'Thm/C03/NormalOrderSorted', 'Check/OpEquiv']

def coq_lop(terms, quad=False):
    if quad: return clist([cpair(coq_quadterm(t), cC(c)) for t, c in terms.items()])
    return coq_fop_terms(terms)
def relabel(terms, modes):
    """order-preserving compression of mode indices to 0..m-1 (the semantics only compares indices)"""
    mp = {m: i for i, m in enumerate(sorted(modes))}
    return {tuple((mp[i], a) for i, a in t): c for t, c in terms.items()}
def modes_of(*ds): return sorted({i for d in ds for t in d for i, _ in t})
def maxdeg(*ds): return max([len(t) for d in ds for t in d] + [0])

def run(ctx):
    from ..impl import of
    from openfermion.transforms.opconversions.term_reordering import normal_ordered_ladder_term, normal_ordered_quad_term
    rng = ctx.rng
    items, meta = [], []
    def add(part, expr, replay, key=None):
        items.append(expr); meta.append((part, replay)); ctx.count(part, 1, nontrivial_key=key)
    N = (lambda q, t: q if ctx.quick else t)
    # ---- fermions: exhaustive words over 2 modes (length <= 4; thorough 5), then random operators
    facs = [(j, a) for j in range(2) for a in (1, 0)]
    for L in range(0, N(4, 5) + 1):
        for w in itertools.product(facs, repeat=L):
            out = normal_ordered_ladder_term(w, 1.0, -1)
            add('fermi_words', '(dict_eqb lfactor lfeqb (no_fermi_term %s C1) %s && dict_eqb lfactor lfeqb (no_fermi_term0 %s C1) %s && fermi_equiv [(%s, C1)] %s && is_normal_ordered_fermi %s)' %
                (coq_fterm(w), coq_fop(out), coq_fterm(w), coq_fop(out), coq_fterm(w), coq_fop(out), coq_fop(out)),
                {'call': 'normal_ordered_ladder_term(parity=-1)', 'term': repr(w)}, key=w if L >= 2 else None)
    ctx.parts['fermi_words']['exhaustive'] = 'all words of length <= %d over modes {0,1}' % N(4, 5)
    for i in range(N(200, 2500)):
        nm = rng.choice([2, 3, 4, 5])
        pool = rng.choice([list(range(nm)), [0, 1, 2, 7, 12][:nm], [3, 10, 11, 64, 5][:nm]])
        terms = {}
        for _ in range(rng.randint(1, 5)):
            L = rng.choice([1, 2, 3, 4, 4, 5, 6, 7])
            terms[tuple((rng.choice(pool), rng.randint(0, 1)) for _ in range(L))] = dyc(rng)
        if i % 6 == 5:
            # two spellings of one word with large, nearly cancelling coefficients: the remainder must survive
            a_, b_ = rng.sample(pool, 2); fa, fb = (a_, rng.randint(0, 1)), (b_, rng.randint(0, 1))
            big = rng.choice([2.0 ** 31, -(2.0 ** 33), 2.0 ** 30]); rem = rng.choice([0.5, -1.25, 2.0])
            terms = {(fa, fb): big, (fb, fa): big + rem}
            if rng.random() < 0.5: terms[((a_, 1), (a_, 0))] = 0.75
        fop = mk_fermion(of, terms)
        out = of.normal_ordered(fop)
        if not exact_terms_ok(out.terms) or not exact_terms_ok(fop.terms): ctx.stat('fermi_ops', 'discarded_inexact'); continue
        add('fermi_ops', '(dict_eqb lfactor lfeqb (normal_ordered_fermi %s) %s && dict_eqb lfactor lfeqb (normal_ordered_fermi0 %s) %s && fermi_equiv %s %s && is_normal_ordered_fermi %s)' %
            (coq_fop(fop), coq_fop(out), coq_fop(fop), coq_fop(out), coq_fop(fop), coq_fop(out), coq_fop(out)),
            {'call': 'normal_ordered(FermionOperator)', 'terms': {repr(t): repr(c) for t, c in fop.terms.items()}}, key=repr(sorted(terms)))
        if i < 2: ctx.sample({'part': 'fermi_ops', 'input': str(fop), 'output': str(out)})
        # canonicity: a second spelling of the same operator (adjacent factors on different modes
        # swapped with a sign) must normal-order to the identical dictionary
        t0 = rng.choice(list(terms))
        js = [j for j in range(len(t0) - 1) if t0[j][0] != t0[j + 1][0]]
        if js:
            j = rng.choice(js); t1 = t0[:j] + (t0[j + 1], t0[j]) + t0[j + 2:]
            terms2 = dict(terms); c0 = terms2.pop(t0)
            fop2 = mk_fermion(of, terms2) + of.FermionOperator(t1, -c0)
            out2 = of.normal_ordered(fop2)
            if exact_terms_ok(out2.terms):
                add('fermi_canonicity', '(fermi_equiv %s %s && dict_eqb lfactor lfeqb %s %s)' % (coq_fop(fop), coq_fop(fop2), coq_fop(out), coq_fop(out2)),
                    {'call': 'normal_ordered on two spellings', 'a': {repr(t): repr(c) for t, c in fop.terms.items()}, 'b': {repr(t): repr(c) for t, c in fop2.terms.items()}}, key=repr((sorted(terms), j)))
    # ---- bosons and quadratures
    for kind in ('boson', 'quad'):
        acts = (1, 0) if kind == 'boson' else ('q', 'p')
        cls = of.BosonOperator if kind == 'boson' else of.QuadOperator
        for L in range(0, N(4, 5) + 1):
            for w in itertools.product([(j, a) for j in range(2) for a in acts], repeat=L):
                for hb in ([None] if kind == 'boson' else [1.0, 2.0, 0.5]):
                    if kind == 'boson':
                        out = normal_ordered_ladder_term(w, 1.0, 1)
                        expr = ('(dict_eqb lfactor lfeqb (no_bose_term %s C1) %s && bose_equiv_on bapply1 2 %s [(%s, C1)] %s)' %
                                (coq_fterm(w), coq_fop(out), cN(L), coq_fterm(w), coq_fop(out)))
                    else:
                        out = normal_ordered_quad_term(w, 1.0, hb)
                        if not exact_terms_ok(out.terms, lo=30): continue
                        o = clist([cpair(coq_quadterm(t), cC(c)) for t, c in out.terms.items()])
                        expr = ('(dict_eqb lfactor lfeqb (noqt %s %s %s C1) %s && bose_equiv_on (qapply1 %s) 2 %s [(%s, C1)] %s)' %
                                (cnat(L + 1), cC(hb), coq_quadterm(w), o, cC(hb), cN(L), coq_quadterm(w), o))
                    add(kind + '_words', expr, {'call': 'normal_ordered_%s_term' % kind, 'term': repr(w), 'hbar': hb}, key=(w, hb) if L >= 2 else None)
        for i in range(N(120, 1200)):
            nm = rng.choice([1, 2, 3])
            pool = rng.choice([[0, 1, 2], [2, 11, 64], [5, 0, 7]])[:nm]
            terms = {}
            for _ in range(rng.randint(1, 4)):
                L = rng.choice([1, 2, 3, 4, 4, 5, 6])
                terms[tuple((rng.choice(pool), rng.choice(acts)) for _ in range(L))] = dyc(rng)
            op = cls()
            for t, c in terms.items(): op += cls(t, c)
            hb = 1.0 if kind == 'boson' else rng.choice([1.0, 2.0, 0.5, 0.75, 4.0])
            out = of.normal_ordered(op, hbar=hb) if kind == 'quad' else of.normal_ordered(op)
            if not exact_terms_ok(out.terms, lo=30) or not exact_terms_ok(op.terms): ctx.stat(kind + '_ops', 'discarded_inexact'); continue
            ms = modes_of(op.terms, out.terms); d = maxdeg(op.terms)
            a, b = relabel(op.terms, ms), relabel(out.terms, ms)
            q = (kind == 'quad')
            model = 'normal_ordered_bose %s' % coq_lop(op.terms) if not q else 'normal_ordered_quad %s %s' % (cC(hb), coq_lop(op.terms, True))
            sem = 'bapply1' if not q else '(qapply1 %s)' % cC(hb)
            add(kind + '_ops', '(dict_eqb lfactor lfeqb (%s) %s && bose_equiv_on %s %s %s %s %s)' %
                (model, coq_lop(out.terms, q), sem, cnat(len(ms)), cN(min(d, 6 if len(ms) < 3 else 4)), coq_lop(a, q), coq_lop(b, q)),
                {'call': 'normal_ordered(%s)' % cls.__name__, 'hbar': hb, 'terms': {repr(t): repr(c) for t, c in op.terms.items()}}, key=repr((sorted(terms), hb)))
            if i < 1: ctx.sample({'part': kind + '_ops', 'hbar': hb, 'input': str(op), 'output': str(out)})
    # ---- is_hermitian relies on normal ordering: operators Hermitian modulo the (anti)commutation relations but
    #      spelled asymmetrically, fermionic and bosonic
    for i in range(N(60, 400)):
        boson = rng.random() < 0.5
        cls = of.BosonOperator if boson else of.FermionOperator
        bt = {}
        for _ in range(rng.randint(1, 2)):
            L = rng.choice([1, 2, 2, 3])
            bt[tuple((rng.randrange(2), rng.randint(0, 1)) for _ in range(L))] = dyc(rng)
        A_ = cls()
        for t, c in bt.items(): A_ += cls(t, c)
        k = rng.random()
        if k < 0.5: B_ = of.normal_ordered(A_) + of.hermitian_conjugated(A_)
        elif k < 0.7: B_ = cls('0 0^ 0^ 0' if boson else '0 0^', float(dy(rng) or 1.0)) + of.normal_ordered(A_) + of.hermitian_conjugated(A_)
        elif k < 0.85: B_ = A_ + of.hermitian_conjugated(A_)
        else: B_ = A_
        if not exact_terms_ok(B_.terms) or not B_.terms: continue
        v = of.is_hermitian(B_)
        chk = ('bose_equiv_on bapply1 2 4 %s (hc_map %s)' if boson else 'fermi_equiv %s (hc_map %s)') % (coq_fop_terms(B_.terms), coq_fop_terms(B_.terms))
        add('is_hermitian_via_normal_order', '(Bool.eqb %s (%s))' % (cbool(v), chk),
            {'call': 'is_hermitian(%s)' % cls.__name__, 'terms': {repr(t): repr(c) for t, c in B_.terms.items()}, 'returned': v}, key=repr(B_.terms))
    # ---- InteractionOperator antisymmetrisation, chemist_ordered, reorder
    for i in range(N(60, 500)):
        n = rng.choice([2, 3, 4])
        const, one, two = rand_hermitian_iop(rng, n)
        if i % 3 == 2:
            # general (non-Hermitian, unsymmetrised) tensors: a few arbitrary entries, e.g. a lone a+_3 a+_1 a_2 a_0
            one = np.zeros((n, n), dtype=complex); two = np.zeros((n,) * 4, dtype=complex)
            for _ in range(rng.randint(0, 2)): one[rng.randrange(n), rng.randrange(n)] = dyc(rng)
            for _ in range(rng.randint(1, 4)): two[tuple(rng.randrange(n) for _ in range(4))] = dyc(rng)
        iop = of.InteractionOperator(const, one, two)
        out = of.normal_ordered(iop)
        if np.any([out.two_body_tensor[p_, q_, r_, s_] != 0 and not (p_ > q_ and r_ > s_) for p_, q_, r_, s_ in zip(*np.nonzero(out.two_body_tensor))]):
            ctx.violation('C03 normal_ordered(InteractionOperator): a two-body entry outside p > q, r > s is non-zero (terms not in normal order)',
                          {'call': 'normal_ordered(InteractionOperator)', 'one_body': repr(one.tolist()), 'two_body_nonzero': {repr(k): repr(two[k]) for k in zip(*np.nonzero(two))}})
        a, b = spec_tensor(const, one, two), spec_tensor(out.constant, out.one_body_tensor, out.two_body_tensor)
        if not exact_terms_ok(a) or not exact_terms_ok(b): continue
        add('interaction_op', '(fermi_equiv %s %s)' % (coq_fop_terms(a), coq_fop_terms(b)),
            {'call': 'normal_ordered(InteractionOperator)', 'one_body': repr(one.tolist()), 'two_body_nonzero': {repr(k): repr(two[k]) for k in zip(*np.nonzero(two))}}, key=repr(a))
        its = list(a.items())
        if i % 2: rng.shuffle(its)                      # dictionary order: two-body terms may precede one-body terms
        if i % 4 == 1 and n >= 3:
            # a two-body term with coinciding inner indices (it generates p^ s) followed by an explicit p^ s term
            p_, q_, s_ = rng.sample(range(n), 3)
            its = [(((p_, 1), (q_, 1), (q_, 0), (s_, 0)), dyc(rng))] + [x for x in its if x[0] not in (((p_, 1), (q_, 1), (q_, 0), (s_, 0)), ((p_, 1), (s_, 0)))] + [(((p_, 1), (s_, 0)), dyc(rng))]
        fop = of.FermionOperator()
        for t_, c_ in its: fop.terms[t_] = c_
        try:
            ch = of.chemist_ordered(fop)
            if exact_terms_ok(ch.terms):
                add('chemist_ordered', '(fermi_equiv %s %s)' % (coq_fop(fop), coq_fop(ch)), {'call': 'chemist_ordered', 'terms': {repr(t): repr(c) for t, c in fop.terms.items()}}, key=repr(a))
        except TypeError:
            pass
        nm = of.count_qubits(fop)
        if nm % 2 == 0 and nm > 0:
            ro = of.reorder(fop, of.up_then_down)
            mp = {m: of.up_then_down(m, nm) for m in range(nm)}
            ref = {tuple((mp[j], x) for j, x in t): c for t, c in fop.terms.items()}
            add('reorder', '(fermi_equiv %s %s)' % (coq_fop_terms(ref), coq_fop(ro)), {'call': 'reorder(up_then_down)', 'terms': {repr(t): repr(c) for t, c in fop.terms.items()}}, key=repr(a))
    # ---- reorder on every ladder-type class (bosons / quadratures: terms with several non-commuting factors on one
    #      mode), both directions, explicit num_modes: the result is the operator with its modes relabelled
    def swap_neighbours(j, nmodes): return j + 1 if j % 2 == 0 and j + 1 < nmodes else (j - 1 if j % 2 == 1 else j)
    def rotate_modes(j, nmodes): return (j + 1) % nmodes
    for i in range(N(60, 400)):
        kind = rng.choice(['boson', 'quad', 'fermion'])
        cls = {'boson': of.BosonOperator, 'quad': of.QuadOperator, 'fermion': of.FermionOperator}[kind]
        acts = ['q', 'p'] if kind == 'quad' else [1, 0]
        nm = rng.choice([2, 3, 4]); terms = {}
        for _ in range(rng.randint(1, 3)):
            L = rng.choice([1, 2, 2, 3, 4])
            terms[tuple((rng.randrange(nm) if rng.random() < 0.6 else 0, rng.choice(acts)) for _ in range(L))] = dyc(rng)
        op = cls()
        for t, c in terms.items(): op += cls(t, c)
        if not op.terms: continue
        fn = rng.choice([of.up_then_down, swap_neighbours, rotate_modes]); rev = rng.random() < 0.4
        if fn is of.up_then_down and nm % 2: nm += 1
        try: out = of.reorder(op, fn, num_modes=nm, reverse=rev)
        except Exception as e:
            ctx.violation('C03 reorder raised %s: %s' % (type(e).__name__, e), {'call': 'reorder', 'class': cls.__name__, 'terms': repr(op.terms)}); continue
        mp = {m: fn(m, nm) for m in range(nm)}
        if rev: mp = {v: k for k, v in mp.items()}
        if not all(f[0] in mp for t in op.terms for f in t): continue
        ref = {}
        for t, c in op.terms.items(): ref[tuple((mp[j], x) for j, x in t)] = ref.get(tuple((mp[j], x) for j, x in t), 0) + c
        if not exact_terms_ok(out.terms) or not exact_terms_ok(ref): continue
        q = (kind == 'quad')
        if kind == 'fermion': chk = 'fermi_equiv %s %s' % (coq_fop_terms(ref), coq_fop(out))
        else: chk = 'bose_equiv_on %s %s 4 %s %s' % ('(qapply1 C1)' if q else 'bapply1', cnat(nm), coq_lop(ref, q), coq_lop(out.terms, q))
        add('reorder_all_classes', '(%s)' % chk, {'call': 'reorder', 'class': cls.__name__, 'order_function': fn.__name__, 'reverse': rev, 'num_modes': nm, 'terms': {repr(t): repr(c) for t, c in op.terms.items()}},
            key=(kind, fn.__name__, rev, repr(op.terms)))
    res = coq_eval_bools(ctx, 'no', IMPORTS, items, chunk=60)
    judge(ctx, res, meta, 'C03')
