"""C04: Jordan-Wigner transform: model correspondence, and the verified checker
fermi_pauli_equiv (spec fermion operator, implementation output) for every fast path."""
import itertools
import numpy as np
from ..core import *
from ..ops import *

IMPORTS = ('From OFV Require Import Base.Cplx Sem.PauliSem Model.SymbolicOp Model.QubitOp Model.LadderOp Model.JordanWigner '
           'Model.MajoranaOp Model.Program Check.DictEquiv Check.OpEquiv.\n')
NEEDS = ['Thm/C04/JWSound', 'Thm/C04/MajoranaSound', 'Check/OpEquiv']

def herm_conj_term(t): return tuple((i, 1 - a) for i, a in reversed(t))

def spec_tensor(const, one, two):
    """the FermionOperator a tensor denotes, built here independently of get_fermion_operator"""
    d = {}
    def add(t, c):
        if c != 0: d[t] = d.get(t, 0) + c
    add((), const)
    n = one.shape[0]
    for p in range(n):
        for q in range(n): add(((p, 1), (q, 0)), one[p, q])
    if two is not None:
        for p, q, r, s in itertools.product(range(n), repeat=4):
            add(((p, 1), (q, 1), (r, 0), (s, 0)), two[p, q, r, s])
    return {t: c for t, c in d.items() if c != 0}

def rand_hermitian_iop(rng, n):
    """complex dyadic tensors with iop = iop^dagger, supported on a random index pattern"""
    one = np.zeros((n, n), dtype=complex); two = np.zeros((n,) * 4, dtype=complex)
    for _ in range(rng.randint(0, n * n)):
        p, q = rng.randrange(n), rng.randrange(n)
        c = dyc(rng, real=(p == q))
        one[p, q] = c; one[q, p] = np.conj(c)
    for _ in range(rng.randint(1, 6)):
        pat = rng.choice(['pqrs', 'pqpq', 'pqqp', 'pqps', 'pqrp', 'pqqs', 'pqrq', 'ppqq', 'pqrs', 'pqrr'])
        ids = {}
        for ch in 'pqrs': ids[ch] = rng.randrange(n)
        p, q, r, s = (ids[ch] for ch in pat)
        c = dyc(rng)
        if (p, q, r, s) == (s, r, q, p): c = complex(c).real or 1.0
        two[p, q, r, s] += c; two[s, r, q, p] += np.conj(c)
    const = float(dy(rng))
    return const, one, two

def run(ctx):
    from ..impl import of
    from openfermion.transforms.opconversions.jordan_wigner import jordan_wigner_one_body, jordan_wigner_two_body
    rng = ctx.rng
    items, meta = [], []
    def add(part, expr, replay, key=None):
        items.append(expr); meta.append((part, replay)); ctx.count(part, 1, nontrivial_key=key)
    N = (lambda q, t: q if ctx.quick else t)
    # A. FermionOperator path vs the model of the code (dictionary equality, order-insensitive)
    for i in range(N(250, 2500)):
        nm = rng.choice([1, 2, 3, 4, 5, 6, 9, 12])
        terms = rand_fermion_terms(rng, nm, rng.randint(0, 6), maxlen=rng.choice([2, 3, 4, 5]))
        fop = mk_fermion(of, terms)
        out = of.jordan_wigner(fop)
        if not exact_terms_ok(out.terms) or not exact_terms_ok(fop.terms): ctx.stat('jw_fermion', 'discarded_inexact'); continue
        add('jw_fermion', '(dict_eqb pfactor pfeqb (jw %s) %s && fermi_pauli_equiv %s %s)' % (coq_fop(fop), coq_qop(out), coq_fop(fop), coq_qop(out)),
            {'call': 'jordan_wigner(FermionOperator)', 'terms': {repr(t): repr(c) for t, c in fop.terms.items()}},
            key=repr(sorted(map(repr, fop.terms.items()))) if len(fop.terms) > 1 else None)
        if i < 2: ctx.sample({'part': 'jw_fermion', 'input': str(fop), 'output_terms': len(out.terms)})
    # A2. MajoranaOperator path: implementation vs the model mjw0 (theorem C04_majorana_jw_sound) and vs the ladder expansion
    #     gamma_2q = a_q + a+_q, gamma_2q+1 = i (a+_q - a_q) built here, through the verified checker; multiplicativity
    from .c08 import coq_mop
    def maj_expand(terms):
        d = {}
        for t, c in terms.items():
            parts = [((), complex(c))]
            for k in t:
                q, b = divmod(k, 2)
                fac = [(((q, 1),), 1j), (((q, 0),), -1j)] if b else [(((q, 1),), 1), (((q, 0),), 1)]
                parts = [(w + w2, c1 * c2) for w, c1 in parts for w2, c2 in fac]
            for w, c1 in parts: d[w] = d.get(w, 0) + c1
        return {w: c for w, c in d.items() if c != 0}
    def rand_maj(nm):
        mo = of.MajoranaOperator()
        for _ in range(rng.randint(0, 4)):
            mo += of.MajoranaOperator(tuple(rng.randrange(2 * nm) for _ in range(rng.randint(0, 4))), dyc(rng))
        return mo
    for i in range(N(120, 1000)):
        nm = rng.choice([1, 2, 3, 4, 6, 9])
        mo = rand_maj(nm); mo2 = rand_maj(nm)
        rp = {'call': 'jordan_wigner(MajoranaOperator)', 'terms': {repr(t): repr(c) for t, c in mo.terms.items()}, 'second': {repr(t): repr(c) for t, c in mo2.terms.items()}}
        try: out = of.jordan_wigner(mo); out2 = of.jordan_wigner(mo2); outp = of.jordan_wigner(mo * mo2)
        except Exception as e:
            ctx.count('jw_majorana', 1); ctx.violation('C04 jordan_wigner(MajoranaOperator) raised %s: %s' % (type(e).__name__, e), rp); continue
        if not all(exact_terms_ok(x.terms) for x in (out, out2, outp, mo, mo2)): ctx.stat('jw_majorana', 'discarded_inexact'); continue
        add('jw_majorana', '(pauli_equiv (mjw0 %s) %s && fermi_pauli_equiv %s %s && pauli_equiv (qmul %s %s) %s)' %
            (coq_mop(mo.terms), coq_qop(out), coq_fop_terms(maj_expand(mo.terms)), coq_qop(out), coq_qop(out), coq_qop(out2), coq_qop(outp)),
            rp, key=repr(sorted(map(repr, mo.terms.items()))) if len(mo.terms) > 0 else None)
    # B. Hermitian InteractionOperator fast path vs the spec operator (verified checker)
    for i in range(N(120, 1200)):
        n = rng.choice([2, 3, 4, 4, 5] if not ctx.quick else [2, 3, 4, 4])
        const, one, two = rand_hermitian_iop(rng, n)
        iop = of.InteractionOperator(const, one, two)
        out = of.jordan_wigner(iop)
        spec = spec_tensor(const, one, two)
        if not exact_terms_ok(out.terms) or not exact_terms_ok(spec): ctx.stat('jw_interaction_op', 'discarded_inexact'); continue
        add('jw_interaction_op', '(fermi_pauli_equiv %s %s)' % (coq_fop_terms(spec), coq_qop(out)),
            {'call': 'jordan_wigner(InteractionOperator)', 'constant': const, 'one_body': repr(one.tolist()), 'two_body_nonzero': {repr(k): repr(two[k]) for k in zip(*np.nonzero(two))}},
            key=repr(spec))
        if i < 1: ctx.sample({'part': 'jw_interaction_op', 'n': n, 'spec_terms': len(spec), 'output_terms': len(out.terms)})
    # C. DiagonalCoulombHamiltonian
    for i in range(N(80, 600)):
        n = rng.choice([1, 2, 3, 4, 5])
        one = np.zeros((n, n), dtype=complex); two = np.zeros((n, n))
        for p in range(n):
            for q in range(p, n):
                if rng.random() < 0.6:
                    c = dyc(rng, real=(p == q)); one[p, q] = c; one[q, p] = np.conj(c)
                if rng.random() < 0.6:
                    v = float(dy(rng)); two[p, q] = v; two[q, p] = v
        const = float(dy(rng))
        dch = of.DiagonalCoulombHamiltonian(one, two, const)
        extra = np.zeros(n)
        if i % 4 == 3:
            # the public two_body attribute reassigned after construction with a non-zero diagonal (V_pp n_p n_p terms of
            # the documented sum over all p, q); the constructor itself folds such a diagonal into one_body
            extra = np.array([float(dy(rng)) for _ in range(n)]); dch.two_body = dch.two_body + np.diag(extra)
        out = of.jordan_wigner(dch)
        d = {}
        def addt(t, c):
            if c != 0: d[t] = d.get(t, 0) + c
        addt((), const)
        for p in range(n):
            for q in range(n):
                addt(((p, 1), (q, 0)), one[p, q])
                addt(((p, 1), (p, 0), (q, 1), (q, 0)), two[p, q])
            addt(((p, 1), (p, 0), (p, 1), (p, 0)), extra[p])
        if not exact_terms_ok(out.terms): ctx.stat('jw_dch', 'discarded_inexact'); continue
        add('jw_dch', '(fermi_pauli_equiv %s %s)' % (coq_fop_terms(d), coq_qop(out)),
            {'call': 'jordan_wigner(DiagonalCoulombHamiltonian)', 'one_body': repr(one.tolist()), 'two_body': repr(two.tolist()), 'constant': const, 'two_body_diagonal_assigned_afterwards': extra.tolist()}, key=repr(d))
    # D. jordan_wigner_one_body / two_body on every index tuple below 4 (and shifted large indices)
    coefs = [1.0, 0.5 - 1.5j, -2j] if ctx.quick else [1.0, 0.5 - 1.5j, -2j, -0.75, 3 + 1j]
    for shift in ([0] if ctx.quick else [0, 7]):
        for p, q in itertools.product(range(4), repeat=2):
            for c in coefs:
                if p == q: c = complex(c).real or 1.0
                out = jordan_wigner_one_body(p + shift, q + shift, c)
                P, Q = p + shift, q + shift
                spec = {((P, 1), (Q, 0)): c}
                if p != q: spec[((Q, 1), (P, 0))] = np.conj(c)
                add('jw_one_body', '(fermi_pauli_equiv %s %s)' % (coq_fop_terms(spec), coq_qop(out)),
                    {'call': 'jordan_wigner_one_body', 'args': [P, Q, repr(c)]}, key=(P, Q, repr(c)))
        for p, q, r, s in itertools.product(range(4), repeat=4):
            for c in coefs:
                selfadj = (sorted([p, q]) == sorted([r, s]))
                if selfadj: c = complex(c).real or 1.0
                P, Q, R, S = (x + shift for x in (p, q, r, s))
                out = jordan_wigner_two_body(P, Q, R, S, c)
                t = ((P, 1), (Q, 1), (R, 0), (S, 0))
                spec = {t: c}
                if not selfadj: spec[herm_conj_term(t)] = np.conj(c)
                add('jw_two_body', '(fermi_pauli_equiv %s %s)' % (coq_fop_terms(spec), coq_qop(out)),
                    {'call': 'jordan_wigner_two_body', 'args': [P, Q, R, S, repr(c)]}, key=(P, Q, R, S, repr(c)))
    ctx.parts['jw_two_body']['exhaustive_index_tuples_below'] = 4
    # E. reverse_jordan_wigner inverts: the returned FermionOperator acts as the QubitOperator
    for i in range(N(150, 1500)):
        nq = rng.choice([1, 2, 3, 4, 5])
        qt = rand_qubit_terms(rng, nq, rng.randint(0, 5))
        qop = mk_qubit(of, qt)
        out = of.reverse_jordan_wigner(qop)
        if not exact_terms_ok(out.terms, lo=30): ctx.stat('reverse_jw', 'discarded_inexact'); continue
        add('reverse_jw', '(fermi_pauli_equiv %s %s)' % (coq_fop(out), coq_qop(qop)),
            {'call': 'reverse_jordan_wigner', 'terms': {repr(t): repr(c) for t, c in qop.terms.items()}}, key=repr(qt))
    # F. dual-basis jellium / plane-wave helpers: the direct qubit forms equal jordan_wigner of the fermionic model
    #    (float coefficients compared as exact rationals, tolerance 1e-9), on cubic, rectangular and sheared cells
    from fractions import Fraction
    from openfermion.hamiltonians import (jordan_wigner_dual_basis_jellium, dual_basis_jellium_model, jordan_wigner_dual_basis_hamiltonian, plane_wave_hamiltonian)
    EPS2 = cQ(Fraction(1, 10 ** 18))
    cells = [(1, 3, 'f'), (2, 2, 'f'), (2, (3, 3), 's'), (2, (2, 3), 's'), (1, 4, 'f')] + ([] if ctx.quick else [(2, (3, 4), 's'), (2, (4, 3), 'd'), (3, 2, 's'), (1, 7, 'f'), (2, 3, 'f')])
    for dim, length, kind in cells:
        if kind == 'f': scale = rng.choice([1.0, 2.0, 0.75])
        elif kind == 'd': scale = np.diag([rng.choice([1.0, 1.5, 2.0]) for _ in range(dim)])
        else:
            scale = np.diag([rng.choice([1.0, 1.25, 2.0]) for _ in range(dim)]).astype(float); scale[0, 1] = rng.choice([0.5, 0.25, -0.5])
            if dim == 3: scale[1, 2] = rng.choice([0.5, -0.25])
        grid = of.Grid(dim, length, scale)
        for spinless in (True, False):
            if grid.num_points * (1 if spinless else 2) > N(9, 12): continue
            for const in (False, True):
                jq = jordan_wigner_dual_basis_jellium(grid, spinless, const)
                fm = dual_basis_jellium_model(grid, spinless, True, True, const)
                add('jw_dual_basis_jellium', '(fermi_pauli_close %s %s %s)' % (EPS2, coq_fop(fm), coq_qop(jq)),
                    {'call': 'jordan_wigner_dual_basis_jellium', 'grid': [dim, repr(length), kind], 'scale': repr(np.asarray(scale).tolist()), 'spinless': spinless, 'include_constant': const}, key=(dim, repr(length), kind, spinless, const))
    # the helper with a geometry (external potential): homonuclear, heteronuclear (different nuclear charges), one atom
    species = ['H', 'He', 'Li', 'Be', 'O']
    gcells = [(1, 3), (1, 4), (2, 2)] + ([(3, 2)] if not ctx.quick else []) + ([(1, 5), (2, (2, 3))] if not ctx.quick else [])
    for dim, length in gcells:
        for rep in range(N(2, 4)):
            grid = of.Grid(dim, length, rng.choice([1.0, 2.0, 1.5]))
            natoms = rng.choice([1, 2, 2, 3])
            geometry = [(rng.choice(species), tuple(round(rng.uniform(-0.5, 0.5), 3) for _ in range(dim))) for _ in range(natoms)]
            if natoms >= 2 and rng.random() < 0.7: geometry[-1] = (rng.choice([a for a in species if a != geometry[0][0]]), geometry[-1][1])
            for spinless in (True, False):
                if grid.num_points * (1 if spinless else 2) > N(8, 10): continue
                jq = jordan_wigner_dual_basis_hamiltonian(grid, geometry, spinless, False)
                fm = plane_wave_hamiltonian(grid, geometry, spinless, False, False)
                add('jw_dual_basis_hamiltonian', '(fermi_pauli_close %s %s %s)' % (EPS2, coq_fop(fm), coq_qop(jq)),
                    {'call': 'jordan_wigner_dual_basis_hamiltonian', 'grid': [dim, repr(length)], 'geometry': repr(geometry), 'spinless': spinless}, key=(dim, repr(length), repr(geometry), spinless))
    res = coq_eval_bools(ctx, 'jw', IMPORTS, items, chunk=40)
    judge(ctx, res, meta, 'C04')

def judge(ctx, res, meta, prop):
    for (part, replay), ok in zip(meta, res):
        if ok is True: continue
        if ok is None:
            ctx.violation('%s %s: the Coq checker could not be evaluated (model or obligation broken)' % (prop, part),
                          {'obligation': 'coq evaluation of ' + part, 'input': replay}, no_input=True)
            continue
        ctx.cov['disagreements_checked'] += 1
        ctx.violation('%s %s: implementation output rejected by the verified checker' % (prop, part), dict(replay, part=part))
