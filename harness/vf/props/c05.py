"""C05: Bravyi-Kitaev family transforms are valid encodings equivalent to JW."""
import itertools
import numpy as np
from ..core import *
from ..ops import *
from .c04 import judge, spec_tensor, rand_hermitian_iop

IMPORTS = ('From OFV Require Import Base.Cplx Base.Lin Sem.PauliSem Sem.FermiSem Model.SymbolicOp Model.QubitOp Model.LadderOp Model.JordanWigner '
           'Model.BravyiKitaev Model.Program Check.DictEquiv Check.OpEquiv Check.Encoding Thm.C05.Sets.\n')
NEEDS = ['Thm/C05/BKB', 'Thm/C05/Sets', 'Thm/C05/BKLinear', 'Thm/C05/BKTreeLinear', 'Check/Encoding']
def cZl(l): return '(' + clist([cZ(int(x)) for x in l]) + ' : list Z)'

def majorana_as_fermion(of, term, coeff):
    """gamma_{2q} = a_q + a+_q ; gamma_{2q+1} = i (a+_q - a_q)"""
    op = of.FermionOperator((), coeff)
    for k in term:
        q, b = divmod(k, 2)
        g = (of.FermionOperator(((q, 0),)) + of.FermionOperator(((q, 1),))) if b == 0 else 1j * (of.FermionOperator(((q, 1),)) - of.FermionOperator(((q, 0),)))
        op = op * g
    return op

def run(ctx):
    from ..impl import of
    import importlib
    bkmod = importlib.import_module('openfermion.transforms.opconversions.bravyi_kitaev')
    from openfermion.transforms.opconversions.bravyi_kitaev_tree import _transform_ladder_operator as bkt_ladder
    from openfermion.transforms.opconversions.fenwick_tree import FenwickTree
    rng = ctx.rng
    items, meta = [], []
    def add(part, expr, replay, key=None):
        items.append(expr); meta.append((part, replay)); ctx.count(part, 1, nontrivial_key=key)
    N = (lambda q, t: q if ctx.quick else t)
    # A. the three bit-trick sets and the Fenwick-tree sets against the model, complete up to nmax
    nmax = N(48, 128)
    for n in range(1, nmax + 1):
        rows = []
        ft = FenwickTree(n)
        for i in range(n):
            U, O, P = sorted(bkmod._update_set(i, n)), sorted(bkmod._occupation_set(i)), sorted(bkmod._parity_set(i))
            tu = sorted(x.index for x in ft.get_update_set(i)); tr = sorted(x.index for x in ft.get_remainder_set(i)); tp = sorted(x.index for x in ft.get_parity_set(i))
            rows.append('((mask_of %s =? mask_of (update_set %s %s)) && (mask_of %s =? mask_of (occupation_set %s)) && (mask_of %s =? mask_of (parity_set %s)) '
                        '&& (mask_of %s =? mask_of (ft_update %s %s)) && (mask_of %s =? mask_of (ft_remainder %s %s)) && (mask_of %s =? mask_of (ft_parity %s %s)) '
                        '&& Nat.eqb (length %s) (length (update_set %s %s)) && Nat.eqb (length %s) (length (ft_parity %s %s)))%%Z' %
                        (cZl(U), cZ(i), cZ(n), cZl(O), cZ(i), cZl(P), cZ(i), cZl(tu), cZ(n), cZ(i), cZl(tr), cZ(n), cZ(i), cZl(tp), cZ(n), cZ(i),
                         cZl(U), cZ(i), cZ(n), cZl(tp), cZ(n), cZ(i)))
        add('index_sets', '(forallb (fun b : bool => b) %s)' % clist(rows), {'call': '_update_set/_occupation_set/_parity_set, FenwickTree sets', 'n_qubits': n}, key=n)
    ctx.parts['index_sets']['exhaustive'] = 'all n_qubits <= %d, all modes' % nmax
    # B. ladder / Majorana images against the model (non-powers of two, n_qubits beyond the mode count)
    for _ in range(N(150, 1500)):
        n = rng.choice([1, 2, 3, 5, 6, 7, 8, 9, 11, 12, 13, 16, 17, 24, 33, 40])
        i = rng.randrange(n); act = rng.randint(0, 1)
        out = bkmod._transform_ladder_operator((i, act), n)
        mj = bkmod._transform_majorana_operator(2 * i + act, n)
        tr = bkt_ladder((i, act), FenwickTree(n))
        add('ladder_images', '(dict_eqb pfactor pfeqb (bk_ladder (%s, %s) %s) %s && dict_eqb pfactor pfeqb (bk_majorana %s %s) %s && dict_eqb pfactor pfeqb (bkt_ladder (%s, %s) %s) %s)' %
            (cN(i), cbool(act == 1), cZ(n), coq_qop(out), cZ(2 * i + act), cZ(n), coq_qop(mj), cN(i), cbool(act == 1), cZ(n), coq_qop(tr)),
            {'call': '_transform_ladder_operator / _transform_majorana_operator / tree', 'index': i, 'action': act, 'n_qubits': n}, key=(n, i, act))
    # C. operators against the model, n_qubits in {n, n+1, n+5}
    for k in range(N(120, 1200)):
        nm = rng.choice([1, 2, 3, 4, 5, 6, 7, 9])
        fop = mk_fermion(of, rand_fermion_terms(rng, nm, rng.randint(1, 4), maxlen=rng.choice([2, 3, 4])))
        nq = of.count_qubits(fop) + rng.choice([0, 0, 1, 5])
        if nq == 0: continue
        out = of.bravyi_kitaev(fop, n_qubits=nq); outt = of.bravyi_kitaev_tree(fop, n_qubits=nq)
        if not exact_terms_ok(out.terms) or not exact_terms_ok(outt.terms): continue
        add('bk_operator_vs_model', '(dict_eqb pfactor pfeqb (bk %s %s) %s && dict_eqb pfactor pfeqb (bkt %s %s) %s)' % (coq_fop(fop), cZ(nq), coq_qop(out), coq_fop(fop), cZ(nq), coq_qop(outt)),
            {'call': 'bravyi_kitaev / bravyi_kitaev_tree', 'n_qubits': nq, 'terms': {repr(t): repr(c) for t, c in fop.terms.items()}}, key=(nq, repr(fop.terms)))
        if k < 2: ctx.sample({'part': 'bk_operator_vs_model', 'n_qubits': nq, 'input': str(fop), 'bk_terms': len(out.terms)})
    # D. the property itself on implementation outputs: W built from the implementation's images of a+_m
    for n in (range(1, N(6, 7))):
        for name, tf in (('bravyi_kitaev', of.bravyi_kitaev), ('bravyi_kitaev_tree', of.bravyi_kitaev_tree)):
            for extra in ([0] if n >= 5 else [0, 1]):
                nq = n + extra
                L = clist([coq_qop(tf(of.FermionOperator(((m, 1),)), n_qubits=nq)) for m in range(nq)])
                lad = []
                for m in range(nq):
                    for act in (1, 0):
                        lad.append('encoding_check %s L [([(%s, %s)], C1)] %s' % (cnat(nq), cN(m), cbool(act == 1), coq_qop(tf(of.FermionOperator(((m, act),)), n_qubits=nq))))
                    lad.append('diagonal_op %s' % coq_qop(tf(of.FermionOperator(((m, 1), (m, 0))), n_qubits=nq)))
                add('encoding_ladders', '(let L := %s in W_signed_perm %s L && %s)' % (L, cnat(nq), ' && '.join(lad)),
                    {'call': name + ' ladder images', 'n_qubits': nq}, key=(name, nq))
                for _ in range(N(3, 12)):
                    fop = mk_fermion(of, rand_fermion_terms(rng, n, rng.randint(1, 3), maxlen=4))
                    out = tf(fop, n_qubits=nq)
                    if not exact_terms_ok(out.terms): continue
                    add('encoding_operators', '(encoding_check %s %s %s %s)' % (cnat(nq), L, coq_fop(fop), coq_qop(out)),
                        {'call': name, 'n_qubits': nq, 'terms': {repr(t): repr(c) for t, c in fop.terms.items()}}, key=(name, nq, repr(fop.terms)))
                if name == 'bravyi_kitaev':
                    for _ in range(N(2, 8)):
                        t = tuple(sorted(rng.sample(range(2 * n), rng.randint(1, min(4, 2 * n))))); c = dyc(rng)
                        mo = of.MajoranaOperator(t, c)
                        out = of.bravyi_kitaev(mo, n_qubits=nq)
                        f = majorana_as_fermion(of, t, c)
                        if not exact_terms_ok(out.terms) or not exact_terms_ok(f.terms): continue
                        add('encoding_majorana', '(encoding_check %s %s %s %s)' % (cnat(nq), L, coq_fop(f), coq_qop(out)),
                            {'call': 'bravyi_kitaev(MajoranaOperator)', 'n_qubits': nq, 'term': t, 'coeff': repr(c)}, key=(nq, t, repr(c)))
    # E. InteractionOperator path (Seeley-Richard-Love expressions) against the FermionOperator path
    for k in range(N(80, 800)):
        n = rng.choice([2, 3, 4, 5])
        const, one, two = rand_hermitian_iop(rng, n)
        iop = of.InteractionOperator(const, one, two)
        nq = n + rng.choice([0, 0, 1, 3])
        spec = spec_tensor(const, one, two)
        try:
            out = of.bravyi_kitaev(iop, n_qubits=nq)
        except Exception as e:
            ctx.violation('C05 bk_interaction_operator: bravyi_kitaev(InteractionOperator, n_qubits=%d) raised %s: %s' % (nq, type(e).__name__, e),
                          {'call': 'bravyi_kitaev(InteractionOperator)', 'n': n, 'n_qubits': nq, 'one_body': repr(one.tolist()), 'error': repr(e)}); continue
        if not exact_terms_ok(out.terms) or not exact_terms_ok(spec): continue
        add('bk_interaction_operator', '(pauli_equiv (bk_gen Cis0 %s %s) %s)' % (coq_fop_terms(spec), cZ(nq), coq_qop(out)),
            {'call': 'bravyi_kitaev(InteractionOperator)', 'n': n, 'n_qubits': nq, 'one_body': repr(one.tolist()), 'two_body_nonzero': {repr(x): repr(two[x]) for x in zip(*np.nonzero(two))}}, key=(nq, repr(spec)))
    # E2. every double-excitation pairing class on every 4-subset of modes, with n_qubits above the tensor size
    #     (the update sets then reach into the extra qubits), plus number-excitation and Coulomb classes on 3- and 2-subsets
    for n, nq in ([(5, 6), (5, 8), (6, 7)] if ctx.quick else [(5, 6), (5, 8), (6, 7), (6, 9), (7, 8), (7, 12), (8, 9)]):
        for sub in itertools.combinations(range(n), 4):
            a_, b_, c_, d_ = sub
            for (p, q, r, s_) in ((d_, c_, b_, a_), (d_, b_, c_, a_), (d_, a_, c_, b_), (c_, b_, d_, a_), (a_, d_, b_, c_)):
                one = np.zeros((n, n), dtype=complex); two = np.zeros((n,) * 4, dtype=complex)
                cf = dyc(rng); two[p, q, r, s_] += cf; two[s_, r, q, p] += np.conj(cf)
                iop = of.InteractionOperator(0.0, one, two); spec = spec_tensor(0.0, one, two)
                try: out = of.bravyi_kitaev(iop, n_qubits=nq)
                except Exception as e:
                    ctx.violation('C05 bk_interaction_operator: bravyi_kitaev(InteractionOperator, n_qubits=%d) raised %s: %s' % (nq, type(e).__name__, e), {'n': n, 'n_qubits': nq, 'entry': [p, q, r, s_]}); continue
                if not exact_terms_ok(out.terms) or not exact_terms_ok(spec): continue
                add('bk_interaction_operator_classes', '(pauli_equiv (bk_gen Cis0 %s %s) %s)' % (coq_fop_terms(spec), cZ(nq), coq_qop(out)),
                    {'call': 'bravyi_kitaev(InteractionOperator)', 'n': n, 'n_qubits': nq, 'two_body_entry': [p, q, r, s_], 'coefficient': repr(cf)}, key=(n, nq, p, q, r, s_))
    # F. _seeley_richard_love(i, j, c, n) = c * bk(a+_i) bk(a_j), all (i, j) for n <= nsrl
    nsrl = N(16, 40)
    for n in range(1, nsrl + 1):
        rows = []
        for i, j in itertools.product(range(n), repeat=2):
            c = rng.choice([1.0, -0.5, 2j, 0.5 - 1j])
            ops, coefs = bkmod._seeley_richard_love(i, j, c, n)
            q = bkmod._qubit_operator_creation(ops, coefs)
            rows.append('pauli_equiv (iscale (qmul (bk_ladder (%s, true) %s) (bk_ladder (%s, false) %s)) %s) %s' % (cN(i), cZ(n), cN(j), cZ(n), cC(c), coq_qop(q)))
        add('seeley_richard_love', '(forallb (fun b : bool => b) %s)' % clist(rows), {'call': '_seeley_richard_love', 'n_qubits': n, 'all (i,j)': True}, key=n)
    res = coq_eval_bools(ctx, 'c05', IMPORTS, items, chunk=8, timeout=1500)
    judge(ctx, res, meta, 'C05')
