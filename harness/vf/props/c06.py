"""C06: matrix and linear-operator constructions equal the operator they represent."""
import itertools, functools
from fractions import Fraction
import numpy as np
from ..core import *
from ..ops import *
from .c04 import judge, spec_tensor

IMPORTS = ('From OFV Require Import Base.Cplx Base.Lin Base.Mat Sem.PauliSem Sem.FermiSem Sem.BoseSem Model.SymbolicOp Model.QubitOp Model.LadderOp '
           'Model.LinearOp Check.Sectors Check.MatrixOf Check.BoseMatrix.\n')
NEEDS = ['Check/MatrixOf', 'Check/BoseMatrix', 'Thm/C06/LinearOpSound', 'Thm/C06/LinearOpFull']
LEVEL = 'translation_validation'
EPS2 = cQ(Fraction(1, 10 ** 18)); EPS = cQ(Fraction(1, 10 ** 9))
def cvec(v): return '(' + clist([cC(complex(x)) for x in v]) + ' : vec)'
def cmat(M): return '(' + clist([cvec(r) for r in M]) + ' : mat)'
def dense(m): return np.asarray(m.todense() if hasattr(m, 'todense') else m)

class FakePool:
    """in-process pool returning results in a prescribed completion order"""
    def __init__(self, order_fn): self.order_fn = order_fn
    def imap_unordered(self, fn, args):
        res = [fn(a) for a in args]
        return [res[i] for i in self.order_fn(len(res))]
    def close(self): pass
    def join(self): pass

def run(ctx):
    from ..impl import of
    from openfermion.linalg import sparse_tools as st
    from openfermion.linalg.linear_qubit_operator import (LinearQubitOperator, ParallelLinearQubitOperator, LinearQubitOperatorOptions)
    rng = ctx.rng
    items, meta = [], []
    def add(part, expr, replay, key=None):
        items.append(expr); meta.append((part, replay)); ctx.count(part, 1, nontrivial_key=key)
    N = (lambda q, t: q if ctx.quick else t)
    def shape_ok(part, M, dim, rp):
        if M.shape != (dim, dim):
            ctx.violation('C06 %s: matrix has shape %r, expected (%d, %d)' % (part, M.shape, dim, dim), rp); return False
        return True
    # ---- QubitOperator / FermionOperator sparse matrices, intrinsic and requested sizes
    for i in range(N(80, 600)):
        nq = rng.choice([1, 2, 3, 4]); extra = rng.choice([0, 0, 1])
        qop = mk_qubit(of, rand_qubit_terms(rng, nq, rng.randint(0, 4), real=rng.random() < 0.3))
        if rng.random() < 0.3: qop = qop * (1.0 + 0j)            # complex-typed coefficients
        n = of.count_qubits(qop) + extra
        rp = {'call': 'get_sparse_operator(QubitOperator)', 'n_qubits': n, 'terms': {repr(t): repr(c) for t, c in qop.terms.items()}}
        if n >= 1:
            M = of.get_sparse_operator(qop, n_qubits=n) if extra or rng.random() < 0.5 else of.get_sparse_operator(qop)
            if shape_ok('qubit_sparse', M, 2 ** n, rp):
                add('qubit_sparse', '(mat_eqb (qubit_matrix %s %s) %s)' % (cnat(n), coq_qop(qop), cmat(dense(M).tolist())), rp, key=(n, repr(qop.terms)))
        nm = rng.choice([1, 2, 3, 4])
        fop = mk_fermion(of, rand_fermion_terms(rng, nm, rng.randint(1, 3), maxlen=4))
        n = of.count_qubits(fop) + extra
        if n >= 1 and exact_terms_ok(fop.terms):
            rp = {'call': 'get_sparse_operator(FermionOperator)', 'n_qubits': n, 'terms': {repr(t): repr(c) for t, c in fop.terms.items()}}
            M = of.get_sparse_operator(fop, n_qubits=n)
            if shape_ok('fermion_sparse', M, 2 ** n, rp):
                add('fermion_sparse', '(mat_eqb (fermi_matrix %s %s) %s)' % (cnat(n), coq_fop(fop), cmat(dense(M).tolist())), rp, key=(n, repr(fop.terms)))
    # the smallest size: operators acting on no qubit (identity-only or zero) are 1 x 1 matrices, with n_qubits omitted or 0
    for cval in (2.5, 1.5 - 1j, -0.75, 0.0):
        for cls_, mk_, mat_ in (('QubitOperator', lambda c: of.QubitOperator((), c) if c else of.QubitOperator(), 'qubit_matrix'),
                                ('FermionOperator', lambda c: of.FermionOperator((), c) if c else of.FermionOperator(), 'fermi_matrix')):
            op0 = mk_(cval)
            for kw in ({}, {'n_qubits': 0}):
                rp = {'call': 'get_sparse_operator(%s) on zero qubits' % cls_, 'coefficient': repr(cval), 'kwargs': repr(kw)}
                ctx.count('zero_qubit_sparse', 1, nontrivial_key=(cls_, cval, repr(kw)))
                try:
                    M = of.get_sparse_operator(op0, **kw); ev = of.eigenspectrum(op0)
                    if M.shape != (1, 1) or abs(complex(dense(M)[0, 0]) - complex(cval)) > 0 or len(ev) != 1 or abs(complex(ev[0]) - complex(cval)) > 1e-12:
                        ctx.violation('C06 %s acting on no qubit: matrix %r / spectrum %r instead of the 1 x 1 matrix [[%r]]' % (cls_, dense(M).tolist(), list(ev), cval), rp)
                except Exception as e:
                    ctx.violation('C06 %s acting on no qubit: %s: %s instead of the 1 x 1 matrix [[%r]]' % (cls_, type(e).__name__, e, cval), rp)
    # ---- tensor types: dimension from the tensor (also with trailing zero orbitals) or from n_qubits
    for i in range(N(40, 300)):
        n = rng.choice([1, 2, 3, 4]); used = rng.randint(1, n)
        one = np.zeros((n, n), dtype=complex); two = np.zeros((n,) * 4, dtype=complex); dtwo = np.zeros((n, n))
        for _ in range(rng.randint(1, 4)):
            p, q = rng.randrange(used), rng.randrange(used); c = dyc(rng, real=(p == q)); one[p, q] = c; one[q, p] = np.conj(c)
        if rng.random() < 0.5:
            p, q = rng.randrange(used), rng.randrange(used); two[p, q, q, p] = float(dy(rng) or 1.0)
        for _ in range(2):
            p, q = rng.randrange(used), rng.randrange(used); v = float(dy(rng)); dtwo[p, q] = v; dtwo[q, p] = v
        const = float(dy(rng))
        for kind in ('PolynomialTensor', 'InteractionOperator', 'DiagonalCoulombHamiltonian'):
            if kind == 'DiagonalCoulombHamiltonian':
                t = of.DiagonalCoulombHamiltonian(one, dtwo, const)
                spec = {(): const} if const else {}
                for p in range(n):
                    for q in range(n):
                        for tt, c in ((((p, 1), (q, 0)), one[p, q]), (((p, 1), (p, 0), (q, 1), (q, 0)), dtwo[p, q])):
                            if c != 0: spec[tt] = spec.get(tt, 0) + c
            else:
                t = of.InteractionOperator(const, one, two) if kind == 'InteractionOperator' else of.PolynomialTensor({(): const, (1, 0): one, (1, 1, 0, 0): two})
                spec = spec_tensor(const, one, two)
            for nreq in (None, n, n + 1):
                rp = {'call': 'get_sparse_operator(%s)' % kind, 'tensor_size': n, 'highest_nonzero_orbital': used - 1, 'n_qubits': nreq}
                try:
                    M = of.get_sparse_operator(t) if nreq is None else of.get_sparse_operator(t, n_qubits=nreq)
                except Exception as e:
                    ctx.violation('C06 tensor_sparse: %s raised %s: %s' % (kind, type(e).__name__, e), dict(rp, error=repr(e))); continue
                dim = 2 ** (n if nreq is None else nreq)
                ctx.count('tensor_sparse', 0)
                if shape_ok('tensor_sparse', M, dim, rp) and dim <= 32:
                    add('tensor_sparse', '(mat_eqb (fermi_matrix %s %s) %s)' % (cnat(n if nreq is None else nreq), coq_fop_terms(spec), cmat(dense(M).tolist())), rp, key=(kind, n, used, nreq, repr(spec)))
    # ---- bosonic / quadrature matrices in the truncated Fock basis
    for i in range(N(40, 300)):
        modes = rng.choice([1, 1, 2]); trunc = rng.choice([1, 2, 3, 4, 5] if modes == 1 else [2, 3])
        quad = rng.random() < 0.4
        acts = ('q', 'p') if quad else (1, 0); cls = of.QuadOperator if quad else of.BosonOperator
        op = cls()
        for _ in range(rng.randint(1, 3)):
            op += cls(tuple((rng.randrange(modes), rng.choice(acts)) for _ in range(rng.randint(0, 3))), dyc(rng, real=rng.random() < 0.5))
        hb = rng.choice([1.0, 2.0, 0.5])
        if not any(op.terms): continue
        nm = max([f[0] for t in op.terms for f in t] + [-1]) + 1
        if nm == 0: continue
        M = of.get_sparse_operator(op, trunc=trunc, hbar=hb) if quad else of.get_sparse_operator(op, trunc=trunc)
        rp = {'call': 'boson_operator_sparse', 'class': cls.__name__, 'trunc': trunc, 'hbar': hb, 'terms': {repr(t): repr(c) for t, c in op.terms.items()}}
        if not shape_ok('boson_sparse', M, trunc ** nm, rp): continue
        if quad:
            # q = sqrt(hbar/2)(b + b+), p = -i sqrt(hbar/2)(b - b+): compare through the boson operator the
            # docstring defines (irrational prefactor squared is rational); done on the boson image
            bop = of.get_boson_operator(op, hb)
            # entries of the boson image carry sqrt(hbar/2)^k: checked numerically against numpy below
            ref = np.zeros((trunc ** nm, trunc ** nm), dtype=complex)
            lad = lambda mode, typ: functools.reduce(np.kron, [np.eye(trunc)] * mode + [np.diag(np.sqrt(np.arange(1, trunc)), -1 if typ else 1)] + [np.eye(trunc)] * (nm - mode - 1))
            for t, c in bop.terms.items():
                m = np.eye(trunc ** nm, dtype=complex) * c
                for j, a in t: m = m @ lad(j, a)
                ref += m
            ctx.count('quad_sparse_numeric', 1, nontrivial_key=repr(rp))
            if not np.allclose(dense(M), ref, atol=1e-9): ctx.violation('C06 quad_sparse: matrix differs from the kron construction', rp)
        else:
            add('boson_sparse', '(bose_matrix_ok bapply1 %s %s %s %s %s)' % (cnat(nm), cnat(trunc), EPS, coq_fop_terms(op.terms), cmat(dense(M).tolist())), rp, key=repr(rp))
    # ---- LinearQubitOperator / ParallelLinearQubitOperator / diagonal on dyadic vectors
    orders = {'identity': lambda k: list(range(k)), 'reversed': lambda k: list(range(k))[::-1], 'rotated': lambda k: [(i + 1) % k for i in range(k)]}
    for i in range(N(50, 400)):
        nq = rng.choice([1, 2, 3, 4]); extra = rng.choice([0, 0, 1])
        qop = mk_qubit(of, rand_qubit_terms(rng, nq, rng.randint(0, 6)))
        n = of.count_qubits(qop) + extra
        if n < 1: continue
        x = np.array([complex(dy(rng), dy(rng)) for _ in range(2 ** n)])
        if rng.random() < 0.3: x = np.eye(2 ** n, dtype=complex)[rng.randrange(2 ** n)]
        rp = {'call': 'LinearQubitOperator', 'n_qubits': n, 'terms': {repr(t): repr(c) for t, c in qop.terms.items()}, 'vector': [repr(v) for v in x]}
        y = LinearQubitOperator(qop, n) * x
        add('linear_qubit_operator', '(vec_close %s (mvmul (qubit_matrix %s %s) %s) %s && vec_close %s (lqo %s %s %s) %s)' % (EPS2, cnat(n), coq_qop(qop), cvec(x), cvec(y), EPS2, cnat(n), coq_qop(qop), cvec(x), cvec(y)), rp, key=repr(rp))
        for procs in (1, 2, 3, 7, 10):
            oname = rng.choice(list(orders))
            opts = LinearQubitOperatorOptions(processes=procs, pool=FakePool(orders[oname]))
            try:
                yp = ParallelLinearQubitOperator(qop, n, options=opts) * x
            except Exception as e:
                ctx.violation('C06 parallel_linear_qubit_operator raised %s: %s' % (type(e).__name__, e), dict(rp, processes=procs, completion_order=oname)); continue
            add('parallel_linear_qubit_operator', '(vec_close %s (mvmul (qubit_matrix %s %s) %s) %s)' % (EPS2, cnat(n), coq_qop(qop), cvec(x), cvec(np.asarray(yp).reshape(-1))),
                dict(rp, processes=procs, completion_order=oname), key=(repr(rp), procs, oname))
        try:
            d = st.get_linear_qubit_operator_diagonal(qop, n)
        except Exception as e:
            ctx.count('linear_operator_diagonal', 1)
            ctx.violation('C06 get_linear_qubit_operator_diagonal raised %s: %s' % (type(e).__name__, e), {'call': 'get_linear_qubit_operator_diagonal', 'n_qubits': n, 'terms': rp['terms']})
            d = None
        if d is not None: add('linear_operator_diagonal', '(vec_close %s (map (fun ir => nth (fst ir) (snd ir) C0) (combine (seq 0 %d) (qubit_matrix %s %s))) %s)' % (EPS2, 2 ** n, cnat(n), coq_qop(qop), cvec(d)),
            {'call': 'get_linear_qubit_operator_diagonal', 'n_qubits': n, 'terms': rp['terms']}, key=repr(rp))
        # operator groups partition the terms for every process count
        for procs in (1, 2, 3, 7, 10):
            groups = list(qop.get_operator_groups(procs))
            tot = of.QubitOperator()
            cnt = 0
            for g in groups: tot += g; cnt += len(g.terms)
            if cnt != len(qop.terms) or tot.terms != qop.terms or len(groups) != min(procs, len(qop.terms)):
                ctx.violation('C06 get_operator_groups(%d) is not a partition of the terms into min(n, #terms) groups' % procs, {'terms': rp['terms'], 'groups': [repr(g.terms) for g in groups]})
        ctx.count('operator_groups', 5)
        # expectation / variance / eigenspectrum through the sparse matrix vs exact algebra in Coq
        if n <= 3:
            H = qop + of.hermitian_conjugated(qop)
            if of.count_qubits(H) <= n and n >= 1:
                Ms = of.get_sparse_operator(H, n_qubits=n)
                nrm = x
                e = st.expectation(Ms, nrm); v = st.variance(Ms, nrm)
                add('expectation_variance', '(let M := qubit_matrix %s %s in let x := %s in let Mx := mvmul M x in let e := vdot (map Cconj x) Mx in '
                    'le2 %s (Csub e %s) && le2 %s (Csub (Csub (vdot (map Cconj x) (mvmul M Mx)) (Cmul e e)) %s))' % (cnat(n), coq_qop(H), cvec(nrm), cQ(Fraction(1, 10 ** 12)), cC(complex(e)), cQ(Fraction(1, 10 ** 10)), cC(complex(v))),
                    {'call': 'expectation / variance', 'n_qubits': n, 'terms': {repr(t): repr(c) for t, c in H.terms.items()}}, key=repr(H.terms))
                # the same through the other accepted state formats: column vector, sparse density matrix (pure and
                # mixed, complex), LinearQubitOperator; also for the non-Hermitian operator itself (Tr(rho O), not Tr(rho O^T))
                import scipy.sparse as _sp
                y = np.array([complex(rng.randint(-3, 3), rng.randint(-3, 3)) for _ in range(2 ** n)]); y = y / (np.linalg.norm(y) or 1.0)
                if not np.any(y): y = np.zeros(2 ** n, dtype=complex); y[0] = 1.0
                xv = np.asarray(nrm, dtype=complex); pmix = 0.25
                rho = pmix * np.outer(xv, xv.conj()) + (1 - pmix) * np.outer(y, y.conj())
                Mo = of.get_sparse_operator(qop, n_qubits=n)
                for nm_, Mx_ in (('H', Ms), ('op', Mo)):
                    Md_ = dense(Mx_)
                    refs = {'column': (xv.conj() @ Md_ @ xv, xv.reshape(-1, 1)), 'density_pure': (np.trace(np.outer(xv, xv.conj()) @ Md_), _sp.csc_matrix(np.outer(xv, xv.conj()))),
                            'density_mixed': (np.trace(rho @ Md_), _sp.csc_matrix(rho)), 'density_mixed_csr': (np.trace(rho @ Md_), _sp.csr_matrix(rho))}
                    refs['vector_1d'] = (xv.conj() @ Md_ @ xv, xv.copy())
                    for fmt, (want, stt) in refs.items():
                        got = st.expectation(Mx_, stt)
                        ctx.count('expectation_formats', 1, nontrivial_key=(repr(qop.terms), nm_, fmt))
                        if abs(complex(got) - complex(want)) > 1e-9:
                            ctx.violation('C06 expectation (%s state, %s): %r differs from direct linear algebra %r' % (fmt, nm_, complex(got), complex(want)),
                                          {'call': 'expectation', 'state_format': fmt, 'operator': nm_, 'terms': rp['terms'], 'n_qubits': n, 'x': repr(xv.tolist()), 'y': repr(y.tolist())})
                        if True:
                            gv = st.variance(Mx_, stt); wv = np.trace(rho @ Md_ @ Md_) - np.trace(rho @ Md_) ** 2 if 'mixed' in fmt else xv.conj() @ Md_ @ Md_ @ xv - (xv.conj() @ Md_ @ xv) ** 2
                            if abs(complex(gv) - complex(wv)) > 1e-8:
                                ctx.violation('C06 variance (%s state, %s): %r differs from direct linear algebra %r' % (fmt, nm_, complex(gv), complex(wv)),
                                              {'call': 'variance', 'state_format': fmt, 'operator': nm_, 'terms': rp['terms'], 'n_qubits': n})
                if n >= 1 and H.terms:
                    lq = of.LinearQubitOperator(H, n)
                    got = st.expectation(lq, xv); want = xv.conj() @ dense(Ms) @ xv
                    ctx.count('expectation_formats', 1, nontrivial_key=(repr(H.terms), 'linear'))
                    if abs(complex(got) - complex(want)) > 1e-9:
                        ctx.violation('C06 expectation through LinearQubitOperator differs from direct linear algebra', {'call': 'expectation(LinearQubitOperator)', 'terms': repr(H.terms), 'n_qubits': n})
                ev = of.eigenspectrum(H, n)
                Md = dense(Ms)
                ctx.count('eigenspectrum_traces', 1, nontrivial_key=repr(H.terms))
                if abs(np.sum(ev) - np.trace(Md)) > 1e-8 or abs(np.sum(np.asarray(ev) ** 2) - np.trace(Md @ Md)) > 1e-7 or len(ev) != 2 ** n:
                    ctx.violation('C06 eigenspectrum: trace identities violated', {'terms': repr(H.terms), 'n_qubits': n})
    # ---- eigen-solver wrappers and small helpers (numerical): get_ground_state, get_gap, sparse_eigenspectrum, get_density_matrix, inner_product, generate_linear_qubit_operator
    from openfermion.linalg.linear_qubit_operator import generate_linear_qubit_operator
    for i in range(N(30, 200)):
        n = rng.choice([2, 3, 4])
        qop = mk_qubit(of, rand_qubit_terms(rng, n, rng.randint(1, 6)))
        H = qop + of.hermitian_conjugated(qop) + of.QubitOperator(((n - 1, 'Z'),), 0.5)
        Ms = of.get_sparse_operator(H, n_qubits=n); Md = dense(Ms); w = np.linalg.eigvalsh(Md)
        rp = {'n_qubits': n, 'terms': {repr(t): repr(c) for t, c in H.terms.items()}}
        ctx.count('eigen_wrappers', 1, nontrivial_key=repr(H.terms))
        try:
            e0, v0 = st.get_ground_state(Ms); v0 = np.asarray(v0).reshape(-1)
            if abs(e0 - w[0]) > 1e-8 or np.linalg.norm(Md @ v0 - e0 * v0) > 1e-6 or abs(np.linalg.norm(v0) - 1) > 1e-8:
                ctx.violation('C06 get_ground_state: not the normalised lowest eigenpair (returned %r, lowest eigenvalue %r)' % (float(e0), float(w[0])), dict(rp, call='get_ground_state'))
            gap = st.get_gap(Ms)
            if abs(gap - (w[1] - w[0])) > 1e-7:
                ctx.violation('C06 get_gap %r differs from the difference of the two lowest eigenvalues %r' % (float(gap), float(w[1] - w[0])), dict(rp, call='get_gap'))
            se = st.sparse_eigenspectrum(Ms)
            if len(se) != 2 ** n or np.max(np.abs(np.sort(np.real(se)) - w)) > 1e-8 or list(np.real(se)) != sorted(np.real(se)):
                ctx.violation('C06 sparse_eigenspectrum differs from the sorted dense spectrum', dict(rp, call='sparse_eigenspectrum'))
            xs = [np.array([complex(dy(rng), dy(rng)) for _ in range(2 ** n)]) for _ in range(3)]; ps = [0.5, 0.25, 0.25]
            rho = dense(st.get_density_matrix(xs, ps))
            if not np.allclose(rho, sum(p_ * np.outer(x_, x_.conj()) for p_, x_ in zip(ps, xs)), atol=1e-12):
                ctx.violation('C06 get_density_matrix differs from sum_k p_k |psi_k><psi_k|', dict(rp, call='get_density_matrix', states=[repr(x_.tolist()) for x_ in xs]))
            ip = st.inner_product(xs[0], xs[1])
            if abs(ip - sum(np.conj(a) * b for a, b in zip(xs[0], xs[1]))) > 1e-12:
                ctx.violation('C06 inner_product differs from sum conj(a_k) b_k', dict(rp, call='inner_product'))
            for opts in (None, LinearQubitOperatorOptions(processes=3, pool=FakePool(orders['reversed']))):
                lo = generate_linear_qubit_operator(H, n, opts)
                if not np.allclose(np.asarray(lo * xs[2]).reshape(-1), Md @ xs[2], atol=1e-9):
                    ctx.violation('C06 generate_linear_qubit_operator (options %s): matvec differs from the matrix' % ('None' if opts is None else 'parallel'), dict(rp, call='generate_linear_qubit_operator'))
        except Exception as e:
            ctx.violation('C06 eigen-solver wrappers raised %s: %s' % (type(e).__name__, e), rp)
    ctx.sample({'part': 'qubit_sparse', 'note': 'every entry of the scipy matrix is compared with <r|op|c> computed from the Pauli semantics, big-endian'})
    res = coq_eval_bools(ctx, 'c06', IMPORTS, items, chunk=20)
    judge(ctx, res, meta, 'C06')
