"""C07: conjugation, commutators and their shortcuts equal the definitions."""
import itertools, warnings
import numpy as np
from ..core import *
from ..ops import *
from .c04 import judge

IMPORTS = ('From OFV Require Import Base.Cplx Base.Lin Sem.PauliSem Sem.FermiSem Sem.BoseSem Model.SymbolicOp Model.QubitOp Model.LadderOp '
           'Model.NormalOrder Model.Conjugate Model.Program Check.DictEquiv Check.OpEquiv Check.Commutator Check.BCH Thm.C07.Adjoint.\n')
NEEDS = ['Thm/C07/Adjoint', 'Check/Commutator']

def tdict(op): return {repr(t): repr(c) for t, c in op.terms.items()}

def dual_terms(n):
    ts = [((p, 1), (p, 0)) for p in range(n)]
    ts += [((p, 1), (q, 0)) for p in range(n) for q in range(n) if p != q]
    ts += [((p, 1), (q, 1), (p, 0), (q, 0)) for p in range(n) for q in range(n) if p != q]
    return ts

def d6_region(tb, tc):
    """known finding D6: b is a number operator p^ p whose (twice counted) mode occurs in c while
    the mode sets differ"""
    mb = [tb[0][0], tb[1][0]]; mc = [tc[0][0], tc[1][0]]
    return sum(1 for i in mb if i in mc) > 1 and set(mb) != set(mc)

def run(ctx):
    from ..impl import of
    from openfermion.utils.commutators import (trivially_commutes_dual_basis, trivially_double_commutes_dual_basis,
        trivially_double_commutes_dual_basis_using_term_info)
    from openfermion.transforms.opconversions.commutator_diagonal_coulomb_operator import commutator_ordered_diagonal_coulomb_with_two_body_operator as dc_comm
    from openfermion.circuits.trotter import trotter_error as te
    rng = ctx.rng
    items, meta = [], []
    def add(part, expr, replay, key=None):
        items.append(expr); meta.append((part, replay)); ctx.count(part, 1, nontrivial_key=key)
    N = (lambda q, t: q if ctx.quick else t)
    F = lambda t, c=1.0: of.FermionOperator(t, c)
    # ---- hermitian_conjugated
    for i in range(N(150, 1500)):
        nm = rng.choice([2, 3, 4, 5]); pool = rng.choice([list(range(nm)), [0, 3, 10, 64, 7][:nm]])
        terms = {tuple((rng.choice(pool), rng.randint(0, 1)) for _ in range(rng.randint(0, 5))): dyc(rng) for _ in range(rng.randint(0, 5))}
        a = mk_fermion(of, terms)
        hc = of.hermitian_conjugated(a)
        add('hc_fermion', '(dict_eqb lfactor lfeqb (hc_fermi %s) %s && dict_eqb lfactor lfeqb (hc_map %s) %s)' % (coq_fop(a), coq_fop(hc), coq_fop(a), coq_fop(hc)),
            {'call': 'hermitian_conjugated(FermionOperator)', 'terms': tdict(a)}, key=repr(sorted(terms)))
        terms2 = {tuple((rng.choice(pool), rng.randint(0, 1)) for _ in range(rng.randint(0, 3))): dyc(rng) for _ in range(rng.randint(1, 3))}
        b = mk_fermion(of, terms2)
        l = of.hermitian_conjugated(a * b); r = of.hermitian_conjugated(b) * of.hermitian_conjugated(a)
        if exact_terms_ok(l.terms) and exact_terms_ok(r.terms):
            add('hc_antihom', '(fermi_equiv %s %s && dict_eqb lfactor lfeqb %s %s)' % (coq_fop(l), coq_fop(r), coq_fop(of.hermitian_conjugated(hc)), coq_fop(a)),
                {'call': 'hc(a*b) vs hc(b)*hc(a); hc(hc(a))', 'a': tdict(a), 'b': tdict(b)}, key=repr((sorted(terms), sorted(terms2))))
    # InteractionOperator (complex constant, non-Hermitian tensors) and matrices
    from .c04 import rand_hermitian_iop
    from .c08 import spec_poly
    import scipy.sparse as _sp
    for i in range(N(40, 300)):
        n = rng.choice([1, 2, 3]); const, one, two = rand_hermitian_iop(rng, n)
        const = complex(dyc(rng))
        for _ in range(rng.randint(0, 2)): one[rng.randrange(n), rng.randrange(n)] += dyc(rng)
        if rng.random() < 0.5: two[tuple(rng.randrange(n) for _ in range(4))] += dyc(rng)
        iop = of.InteractionOperator(const, one, two)
        hc = of.hermitian_conjugated(iop)
        da, db = spec_poly(iop.n_body_tensors), spec_poly(hc.n_body_tensors)
        if exact_terms_ok(da) and exact_terms_ok(db):
            add('hc_interaction_operator', '(fermi_equiv %s (hc_map %s))' % (coq_fop_terms(db), coq_fop_terms(da)),
                {'call': 'hermitian_conjugated(InteractionOperator)', 'constant': repr(const), 'one_body': repr(one.tolist())}, key=repr(da))
        m = rng.choice([2, 3]); M = np.array([[dyc(rng) for _ in range(m)] for _ in range(m + rng.choice([0, 1]))])
        for fmt, X in (('ndarray', M), ('csc', _sp.csc_matrix(M))):
            H_ = of.hermitian_conjugated(X); H_ = H_.toarray() if hasattr(H_, 'toarray') else np.asarray(H_)
            ctx.count('hc_matrix', 1, nontrivial_key=(i, fmt))
            if H_.shape != M.T.shape or not np.array_equal(H_, M.conj().T):
                ctx.violation('C07 hermitian_conjugated(%s matrix) is not the conjugate transpose' % fmt, {'matrix': repr(M.tolist())})
    for kind in ('boson', 'quad', 'qubit'):
        for i in range(N(60, 600)):
            pool = rng.choice([[0, 1, 2], [2, 11, 64]])
            if kind == 'qubit':
                a = mk_qubit(of, rand_qubit_terms(rng, 4, rng.randint(0, 5)))
                add('hc_qubit', '(dict_eqb pfactor pfeqb (hc_qubit %s) %s)' % (coq_qop(a), coq_qop(of.hermitian_conjugated(a))), {'call': 'hermitian_conjugated(QubitOperator)', 'terms': tdict(a)}, key=repr(a.terms))
                continue
            acts = (1, 0) if kind == 'boson' else ('q', 'p'); cls = of.BosonOperator if kind == 'boson' else of.QuadOperator
            a = cls()
            for _ in range(rng.randint(0, 4)): a += cls(tuple((rng.choice(pool), rng.choice(acts)) for _ in range(rng.randint(0, 5))), dyc(rng))
            hc = of.hermitian_conjugated(a)
            pr = (lambda d: clist([cpair(coq_quadterm(t), cC(c)) for t, c in d.items()])) if kind == 'quad' else coq_fop_terms
            add('hc_' + kind, '(dict_eqb lfactor lfeqb (hc_%s %s) %s)' % ('bose' if kind == 'boson' else 'quad', pr(a.terms), pr(hc.terms)),
                {'call': 'hermitian_conjugated(%s)' % cls.__name__, 'terms': tdict(a)}, key=repr(a.terms))
    # ---- commutator / anticommutator / double_commutator
    for i in range(N(120, 1200)):
        nm = rng.choice([2, 3, 4])
        ops = [mk_fermion(of, rand_fermion_terms(rng, nm, rng.randint(1, 3), maxlen=3)) for _ in range(3)]
        a, b, c = ops
        r = of.commutator(a, b); r2 = of.anticommutator(a, b)
        if exact_terms_ok(r.terms) and exact_terms_ok(r2.terms):
            add('commutator', '(fcomm_check %s %s %s && facomm_check %s %s %s)' % (coq_fop(a), coq_fop(b), coq_fop(r), coq_fop(a), coq_fop(b), coq_fop(r2)),
                {'call': 'commutator/anticommutator', 'a': tdict(a), 'b': tdict(b)}, key=repr((a.terms, b.terms)))
        if i % 4 == 3:
            # op1 on modes disjoint from op2 and op3; odd-parity words included (fermionic operators on disjoint modes need not commute)
            a = mk_fermion(of, {tuple((j + nm, x) for j, x in t): v for t, v in rand_fermion_terms(rng, 2, rng.randint(1, 2), maxlen=rng.choice([1, 1, 2, 3])).items()})
            b = mk_fermion(of, rand_fermion_terms(rng, nm, rng.randint(1, 2), maxlen=rng.choice([1, 2, 2]))); c = mk_fermion(of, rand_fermion_terms(rng, nm, rng.randint(1, 2), maxlen=rng.choice([1, 1, 3])))
        dc = of.double_commutator(a, b, c)
        if exact_terms_ok(dc.terms):
            add('double_commutator', '(fdcomm_check %s %s %s %s && is_normal_ordered_fermi %s)' % (coq_fop(a), coq_fop(b), coq_fop(c), coq_fop(dc), coq_fop(dc)),
                {'call': 'double_commutator', 'a': tdict(a), 'b': tdict(b), 'c': tdict(c)}, key=repr((a.terms, b.terms, c.terms)))
        qa, qb = mk_qubit(of, rand_qubit_terms(rng, 4, rng.randint(1, 4))), mk_qubit(of, rand_qubit_terms(rng, 4, rng.randint(1, 4)))
        qr = of.commutator(qa, qb)
        if exact_terms_ok(qr.terms):
            add('commutator_qubit', '(qcomm_check %s %s %s)' % (coq_qop(qa), coq_qop(qb), coq_qop(qr)), {'call': 'commutator(QubitOperator)', 'a': tdict(qa), 'b': tdict(qb)}, key=repr((qa.terms, qb.terms)))
    # hopping shortcut of double_commutator: all index patterns of two hopping operators below 4 modes
    for (i2, j2), (i3, j3) in itertools.product(itertools.permutations(range(N(3, 4)), 2), repeat=2):
        c2, c3 = dyc(rng, real=True), dyc(rng, real=True)
        op2 = F(((i2, 1), (j2, 0)), c2) + F(((j2, 1), (i2, 0)), c2)
        op3 = F(((i3, 1), (j3, 0)), c3) + F(((j3, 1), (i3, 0)), c3)
        op1 = mk_fermion(of, rand_fermion_terms(rng, 4, 2, maxlen=2, real=True))
        if len({i2, j2} & {i3, j3}) == 2: continue      # documented use: at most one shared index
        dc = of.double_commutator(op1, op2, op3, indices2={i2, j2}, indices3={i3, j3}, is_hopping_operator2=True, is_hopping_operator3=True)
        if exact_terms_ok(dc.terms):
            add('double_commutator_hopping', '(fdcomm_check %s %s %s %s)' % (coq_fop(op1), coq_fop(op2), coq_fop(op3), coq_fop(dc)),
                {'call': 'double_commutator(hopping shortcut)', 'op1': tdict(op1), 'op2': tdict(op2), 'op3': tdict(op3)}, key=(i2, j2, i3, j3))
    # ---- dual-basis predicates: True must imply a vanishing (double) commutator; complete for n modes
    n = N(3, 4)
    ts = dual_terms(n)
    for ta, tb in itertools.product(ts, repeat=2):
        v = trivially_commutes_dual_basis(F(ta), F(tb))
        add('trivially_commutes_dual_basis', '(implb %s (fcomm_zero [(%s, C1)] [(%s, C1)]))' % (cbool(v), coq_fterm(ta), coq_fterm(tb)),
            {'call': 'trivially_commutes_dual_basis', 'a': repr(ta), 'b': repr(tb), 'returned': v}, key=(ta, tb) if v else None)
    trip = list(itertools.product(ts, repeat=3))
    if ctx.quick: trip = [t for t in trip if rng.random() < 0.45]
    for ta, tb, tc in trip:
        v = trivially_double_commutes_dual_basis(F(ta), F(tb), F(tc))
        if not v: ctx.count('trivially_double_commutes_dual_basis', 1); continue   # False promises nothing
        add('trivially_double_commutes_dual_basis', '(fdcomm_zero [(%s, C1)] [(%s, C1)] [(%s, C1)])' % (coq_fterm(ta), coq_fterm(tb), coq_fterm(tc)),
            {'call': 'trivially_double_commutes_dual_basis', 'a': repr(ta), 'b': repr(tb), 'c': repr(tc), 'returned': True,
             'finding': 'D6' if d6_region(tb, tc) else None}, key=(ta, tb, tc))
    ctx.parts['trivially_commutes_dual_basis']['exhaustive'] = 'all pairs of dual-basis terms on %d modes' % n
    # using_term_info variant on its documented operator family
    pairs = list(itertools.combinations(range(n), 2))
    def fam(idx, hop, cs):
        i, j = idx
        if hop: return F(((i, 1), (j, 0))) + F(((j, 1), (i, 0)))
        return F(((i, 1), (j, 1), (i, 0), (j, 0)), 1.0) + F(((i, 1), (i, 0)), cs[0]) + F(((j, 1), (j, 0)), cs[1])
    for ia, ib, ic in itertools.product(pairs, repeat=3):
        for ha, hb, hc_ in itertools.product([True, False], repeat=3):
            for jell in (True, False):
                cs = (0.5, 0.5) if jell else (0.5, -1.5)
                v = trivially_double_commutes_dual_basis_using_term_info(set(ia), set(ib), set(ic), ha, hb, hc_, jell)
                if not v: continue
                a, b, c = fam(ia, ha, cs), fam(ib, hb, cs), fam(ic, hc_, cs)
                add('using_term_info', '(fdcomm_zero %s %s %s)' % (coq_fop(a), coq_fop(b), coq_fop(c)),
                    {'call': 'trivially_double_commutes_dual_basis_using_term_info', 'indices': [ia, ib, ic], 'hopping': [ha, hb, hc_], 'jellium_only': jell}, key=(ia, ib, ic, ha, hb, hc_, jell))
    # the same with the single-mode potential terms c_i n_i (index set {i}) that simulation_ordered_grouped_low_depth_terms_with_info
    # (external_potential_at_end=True) hands to the predicate; every triple containing at least one of them
    n1 = 3 if ctx.quick else 4
    sets1 = [(i, j) for i, j in itertools.combinations(range(n1), 2)] + [(i,) for i in range(n1)]
    def fam1(idx, hop, cs, jell):
        if len(idx) == 2: return fam(idx, hop, cs)
        return F(((idx[0], 1), (idx[0], 0)), cs[0] if jell else (0.5 + idx[0]))
    for ia, ib, ic in itertools.product(sets1, repeat=3):
        if min(len(ia), len(ib), len(ic)) == 2: continue
        for ha, hb, hc_ in itertools.product([True, False], repeat=3):
            if (ha and len(ia) == 1) or (hb and len(ib) == 1) or (hc_ and len(ic) == 1): continue
            for jell in (True, False):
                cs = (0.5, 0.5) if jell else (0.5, -1.5)
                v = trivially_double_commutes_dual_basis_using_term_info(set(ia), set(ib), set(ic), ha, hb, hc_, jell)
                if not v: ctx.count('using_term_info', 1); continue
                a, b, c = fam1(ia, ha, cs, jell), fam1(ib, hb, cs, jell), fam1(ic, hc_, cs, jell)
                add('using_term_info', '(fdcomm_zero %s %s %s)' % (coq_fop(a), coq_fop(b), coq_fop(c)),
                    {'call': 'trivially_double_commutes_dual_basis_using_term_info', 'indices': [ia, ib, ic], 'hopping': [ha, hb, hc_], 'jellium_only': jell}, key=(ia, ib, ic, ha, hb, hc_, jell))
    # ---- diagonal-Coulomb commutator
    for i in range(N(100, 1000)):
        nm = rng.choice([2, 3, 4])
        a = of.FermionOperator()
        for _ in range(rng.randint(1, 3)):
            k = rng.random(); p, q = rng.sample(range(nm), 2)
            if k < 0.35: a += F(((p, 1), (p, 0)), dyc(rng))
            elif k < 0.7: a += F(((max(p, q), 1), (min(p, q), 1), (max(p, q), 0), (min(p, q), 0)), dyc(rng))
            else: a += F(((p, 1), (q, 0)), dyc(rng))
        if i % 3 == 2 and nm >= 3:
            # the property quantifies over ALL pairs of two-body number-conserving operators: a general normal-ordered
            # two-body term p^ q^ r s in the first argument (outside the documented fast-path family, still computed)
            cr = sorted(rng.sample(range(nm), 2), reverse=True); an = sorted(rng.sample(range(nm), 2), reverse=True)
            a += F(((cr[0], 1), (cr[1], 1), (an[0], 0), (an[1], 0)), dyc(rng))
        b = of.normal_ordered(mk_fermion(of, {tuple([(rng.randrange(nm), 1)] * 0 + [(x, 1) for x in rng.sample(range(nm), k2)] + [(x, 0) for x in rng.sample(range(nm), k2)]): dyc(rng)
                                             for k2 in [rng.choice([1, 2]) for _ in range(rng.randint(1, 3))]}))
        with warnings.catch_warnings():
            warnings.simplefilter('ignore')
            r = dc_comm(a, b)
        if exact_terms_ok(r.terms) and exact_terms_ok(b.terms):
            add('dc_commutator', '(fcomm_check %s %s %s && is_normal_ordered_fermi %s)' % (coq_fop(a), coq_fop(b), coq_fop(r), coq_fop(r)),
                {'call': 'commutator_ordered_diagonal_coulomb_with_two_body_operator', 'a': tdict(a), 'b': tdict(b)}, key=repr((a.terms, b.terms)))
    # ---- trotter_error predicates on Pauli strings: complete for 2 qubits, random for 4
    strs = [tuple((q, p) for q, p in zip(range(2), w) if p != 'I') for w in itertools.product('IXYZ', repeat=2)]
    Q = lambda t: of.QubitOperator(t)
    for ta, tb in itertools.product(strs, repeat=2):
        v = te.trivially_commutes(Q(ta), Q(tb))
        add('trotter_trivially_commutes', '(Bool.eqb %s (qcomm_zero [(%s, C1)] [(%s, C1)]))' % (cbool(v), coq_qterm(ta), coq_qterm(tb)), {'call': 'trotter_error.trivially_commutes', 'a': repr(ta), 'b': repr(tb), 'returned': v}, key=(ta, tb))
    for i in range(N(200, 2000)):
        ta, tb, tc = [list(rand_qubit_terms(rng, 4, 1))[0] for _ in range(3)]
        v = te.trivially_double_commutes(Q(ta), Q(tb), Q(tc))
        add('trotter_trivially_double_commutes', '(implb %s (qdcomm_zero [(%s, C1)] [(%s, C1)] [(%s, C1)]))' % (cbool(v), coq_qterm(ta), coq_qterm(tb), coq_qterm(tc)),
            {'call': 'trotter_error.trivially_double_commutes', 'terms': [repr(ta), repr(tb), repr(tc)], 'returned': v}, key=(ta, tb, tc) if v else None)
    # ---- bch_expand: truncated at order k-1 (or more) it equals log(e^X e^Y ...) exactly on strictly upper
    #      triangular k x k matrices (nilpotent of class < k); the exact value is computed in Coq
    from openfermion.utils.bch_expansion import bch_expand
    from fractions import Fraction
    def cm(M): return '(' + clist(['(' + clist([cC(complex(x)) for x in r]) + ' : list C)' for r in M.tolist()]) + ' : list (list C))'
    for i in range(N(20, 120)):
        k = rng.choice([2, 3, 4, 5, 8] if ctx.quick else [2, 3, 4, 5, 6, 7, 8, 9]); nops = rng.choice([2, 2, 3, 4, 5])
        mats = []
        for _ in range(nops):
            M = np.zeros((k, k), dtype=complex)
            for a_ in range(k):
                for b_ in range(a_ + 1, k):
                    if rng.random() < 0.8: M[a_, b_] = dyc(rng)
            mats.append(M)
        order = max(rng.choice([k - 1, k, 6]), k - 1)      # any order >= k - 1 is exact on this algebra (orders 1 .. 9 occur)
        try:
            out = bch_expand(*mats, order=order)
        except Exception as e:
            ctx.violation('C07 bch_expand raised %s: %s' % (type(e).__name__, e), {'k': k, 'order': order}); continue
        add('bch_expand', '(bch_ok %s %s %s %s)' % (cQ(Fraction(1, 10 ** 16)), cnat(k), '(' + clist([cm(M) for M in mats]) + ' : list (list (list C)))', cm(np.asarray(out))),
            {'call': 'bch_expand', 'k': k, 'order': order, 'matrices': [repr(M.tolist()) for M in mats]}, key=(k, order, repr([M.tolist() for M in mats])))
    res = coq_eval_bools(ctx, 'c07', IMPORTS, items, chunk=120)
    judge(ctx, res, meta, 'C07')
