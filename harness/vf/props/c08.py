"""C08: tensor representations and conversions preserve the operator."""
import itertools, copy
from fractions import Fraction
import numpy as np
from ..core import *
from ..ops import *
from .c04 import judge, rand_hermitian_iop

IMPORTS = ('From OFV Require Import Base.Cplx Base.Lin Base.Mat Sem.PauliSem Sem.FermiSem Sem.BoseSem Model.SymbolicOp Model.QubitOp Model.LadderOp '
           'Model.JordanWigner Model.NormalOrder Model.Predicates Model.MajoranaOp Model.Program Check.DictEquiv Check.OpEquiv Check.Commutator Check.Conversions.\n')
NEEDS = ['Check/Conversions', 'Check/OpEquiv']
def cmat(M): return '(' + clist(['(' + clist([cC(complex(x)) for x in r]) + ' : vec)' for r in M]) + ' : mat)'
def coq_mop(terms): return '(' + clist([cpair('(' + clist([cN(i) for i in t]) + ' : list N)', cC(c)) for t, c in terms.items()]) + ' : mop)'

def spec_poly(tensors):
    """the FermionOperator a PolynomialTensor denotes: sum_key sum_index T[key][index] word(index, key)"""
    d = {}
    for key, T in tensors.items():
        if key == ():
            if T != 0: d[()] = d.get((), 0) + complex(T)
            continue
        T = np.asarray(T)
        for idx in itertools.product(range(T.shape[0]), repeat=len(key)):
            c = T[idx]
            if c != 0:
                t = tuple(zip(idx, key)); d[t] = d.get(t, 0) + complex(c)
    return {t: c for t, c in d.items() if c != 0}

def rand_tensor(rng, n, keys):
    d = {(): float(dy(rng))}
    for k in keys:
        T = np.zeros((n,) * len(k), dtype=complex)
        for _ in range(rng.randint(1, 4)): T[tuple(rng.randrange(n) for _ in k)] = dyc(rng)
        d[k] = T
    return d

def rational_unitary(rng, n):
    """exactly rational unitaries: phase permutations composed with Pythagorean Givens rotations"""
    U = np.eye(n, dtype=complex)
    perm = list(range(n)); rng.shuffle(perm)
    U = U[perm, :] * np.array([rng.choice([1, -1, 1j, -1j]) for _ in range(n)])[:, None]
    for _ in range(rng.randint(0, 2)):
        if n < 2: break
        i, j = rng.sample(range(n), 2); c, s = rng.choice([(0.6, 0.8), (0.8, 0.6), (0.28, 0.96), (0.0, 1.0)])
        G = np.eye(n, dtype=complex); G[i, i] = c; G[j, j] = c; G[i, j] = -s * rng.choice([1, 1j]); G[j, i] = -np.conj(G[i, j])
        U = G @ U
    return U

def run(ctx):
    from ..impl import of
    rng = ctx.rng
    items, meta = [], []
    def add(part, expr, replay, key=None):
        items.append(expr); meta.append((part, replay)); ctx.count(part, 1, nontrivial_key=key)
    N = (lambda q, t: q if ctx.quick else t)
    KEYS = [(1, 0), (1, 1, 0, 0), (0, 0, 1, 1), (1, 1), (0, 0), (0, 1), (1, 0, 1, 0)]
    # ---- arithmetic on PolynomialTensor <-> arithmetic on the denoted FermionOperators, equal and different key sets
    for i in range(N(150, 1200)):
        n = rng.choice([1, 2, 3])
        ka = rng.sample(KEYS, rng.randint(1, 3)); kb = rng.sample(KEYS, rng.randint(1, 3)) if rng.random() < 0.7 else list(ka)
        A, B = rand_tensor(rng, n, ka), rand_tensor(rng, n, kb)
        a, b = of.PolynomialTensor(copy.deepcopy(A)), of.PolynomialTensor(copy.deepcopy(B))
        sa, sb = spec_poly(A), spec_poly(B)
        k = rng.choice([2.0, -0.5, 1j, 4.0])
        rp = {'n': n, 'keys_a': [list(x) for x in ka], 'keys_b': [list(x) for x in kb], 'a': {repr(kk): repr(np.asarray(v).tolist()) for kk, v in A.items()}, 'b': {repr(kk): repr(np.asarray(v).tolist()) for kk, v in B.items()}}
        SA, SB = coq_fop_terms(sa), coq_fop_terms(sb)
        E = lambda t: coq_fop_terms(spec_poly(t.n_body_tensors))
        add('tensor_add', '(fermi_equiv %s (%s ++ %s))' % (E(a + b), SA, SB), dict(rp, call='a + b'), key=('add', repr(rp)))
        only_b = [kk for kk in kb if kk not in ka]
        add('tensor_sub', '(fermi_equiv %s (%s ++ iscale %s Cm1))' % (E(a - b), SA, SB), dict(rp, call='a - b', finding='D7' if only_b else None), key=('sub', repr(rp)))
        add('tensor_neg_scal_div', '(fermi_equiv %s (iscale %s Cm1) && fermi_equiv %s (iscale %s %s) && fermi_equiv %s (iscale %s %s) && fermi_equiv %s (iscale %s (Cinv %s)))' %
            (E(-a), SA, E(a * k), SA, cC(k), E(k * a), SA, cC(k), E(a / k), SA, cC(k)), dict(rp, call='-a, a*k, k*a, a/k', k=repr(k)), key=('scal', repr(rp), repr(k)))
        # in-place forms and aliasing: operands must keep their value
        a2 = of.PolynomialTensor(copy.deepcopy(A)); b2 = of.PolynomialTensor(copy.deepcopy(B))
        a2 += b2; a2 *= 2.0; a2 -= b2
        add('tensor_inplace_alias', '(fermi_equiv %s %s && fermi_equiv %s (iscale (%s ++ %s) (Cmk 2%%Z 1%%positive 0%%Z 1%%positive) ++ iscale %s Cm1))' % (E(b2), SB, E(a2), SA, SB, SB) ,
            dict(rp, call='a += b; a *= 2; a -= b  (b must be unchanged)', finding='D7' if only_b else None), key=('alias', repr(rp)))
        # indexing
        kk = rng.choice(ka); idx = tuple(rng.randrange(n) for _ in kk)
        got = a[tuple(zip(idx, kk))]
        if complex(got) != complex(np.asarray(A[kk])[idx]): ctx.violation('C08 tensor_getitem: wrong entry', dict(rp, key=list(kk), index=list(idx)))
        # scalars on either side (constant term), item assignment, projection onto index selections
        c0 = rng.choice([1.5, -2.0, 0.25j, 3])
        K0 = coq_fop_terms({(): complex(c0)})
        try:
            add('tensor_scalar_sides', '(fermi_equiv %s (%s ++ %s) && fermi_equiv %s (%s ++ %s) && fermi_equiv %s (%s ++ iscale %s Cm1) && fermi_equiv %s (iscale %s Cm1 ++ %s) && fermi_equiv %s (%s ++ %s))' %
                (E(a + c0), SA, K0, E(c0 + a), SA, K0, E(a - c0), SA, K0, E(c0 - a), SA, K0, E(sum([a, b])), SA, SB), dict(rp, call='a + c, c + a, a - c, c - a, sum([a, b])', c=repr(c0)), key=('sides', repr(rp), repr(c0)))
        except Exception as e:
            ctx.count('tensor_scalar_sides', 1); ctx.violation('C08 scalar arithmetic on a PolynomialTensor raised %s: %s' % (type(e).__name__, e), dict(rp, c=repr(c0)))
        a3 = of.PolynomialTensor(copy.deepcopy(A)); kk3 = rng.choice([x for x in ka if x] or [ka[0]])
        if kk3:
            idx3 = tuple(rng.randrange(n) for _ in kk3); v3 = dyc(rng)
            a3[tuple(zip(idx3, kk3))] = v3
            A3 = copy.deepcopy(A); A3[kk3] = np.asarray(A3[kk3], dtype=complex); A3[kk3][idx3] = v3
            add('tensor_setitem', '(fermi_equiv %s %s)' % (E(a3), coq_fop_terms(spec_poly(A3))), dict(rp, call='a[index] = v', key=list(kk3), index=list(idx3), v=repr(v3)), key=('set', repr(rp), idx3))
        for sel, exact in ((rng.randint(0, 3), rng.random() < 0.5), (set(rng.sample(range(n), rng.randint(0, n))), rng.random() < 0.5)):
            proj = a.projected_n_body_tensors(sel, exact)
            if isinstance(sel, int): pred = (lambda ix: len(set(ix)) == sel) if exact else (lambda ix: len(set(ix)) <= sel)
            else: pred = (lambda ix: set(ix) == sel) if exact else (lambda ix: set(ix) <= sel)
            want = {w: c_ for w, c_ in sa.items() if pred(tuple(j for j, _ in w))}
            add('tensor_projected', '(fermi_equiv %s %s)' % (coq_fop_terms(spec_poly(proj)), coq_fop_terms(want)), dict(rp, call='projected_n_body_tensors', selection=repr(sel), exact=exact), key=('proj', repr(rp), repr(sel), exact))
        if all(np.isrealobj(np.asarray(v)) or not np.any(np.imag(v)) for v in A.values()):
            md = rng.choice([2, 3, 0.75])
            Ar = {kk_: np.real(np.asarray(v)) for kk_, v in A.items()}
            ar = of.PolynomialTensor(copy.deepcopy(Ar))
            add('tensor_mod', '(fermi_equiv %s %s)' % (E(ar % md), coq_fop_terms(spec_poly({kk_: np.mod(v, md) for kk_, v in Ar.items()}))), dict(rp, call='a % m', m=md), key=('mod', repr(rp), md))
    # ---- the same arithmetic on the PolynomialTensor subclasses (own constructors / overrides, non-zero constant) and
    #      on DiagonalCoulombHamiltonian (separate class), judged through their denotation
    for i in range(N(60, 400)):
        n = rng.choice([1, 2, 3]); k = rng.choice([2.0, -0.5, 4.0, 1j])
        def mk(kind):
            const, one, two = rand_hermitian_iop(rng, n)
            const = const or 1.5
            if kind == 'iop': return of.InteractionOperator(const, one, two)
            if kind == 'qh':
                anti = np.zeros((n, n), dtype=complex)
                if n >= 2 and rng.random() < 0.5: anti[0, 1] = dyc(rng); anti[1, 0] = -anti[0, 1]
                return of.QuadraticHamiltonian(one, anti if np.any(anti) else None, const, rng.choice([0.0, 0.5]))
            tw = np.real(np.array([[two[p_, q_, q_, p_] for q_ in range(n)] for p_ in range(n)])); tw = (tw + tw.T) / 2
            return of.DiagonalCoulombHamiltonian(one, tw, const)
        kind = rng.choice(['iop', 'iop', 'qh', 'dch'])
        x, y = mk(kind), mk(kind)
        def den(t):
            if isinstance(t, of.DiagonalCoulombHamiltonian): return of.normal_ordered(of.get_fermion_operator(t)).terms
            return spec_poly(t.n_body_tensors)
        SX, SY = coq_fop_terms(den(x)), coq_fop_terms(den(y))
        ops = [('-x', lambda: -x, '(iscale %s Cm1)' % SX), ('x + y', lambda: x + y, '(%s ++ %s)' % (SX, SY)), ('x - y', lambda: x - y, '(%s ++ iscale %s Cm1)' % (SX, SY))]
        if not (kind == 'dch' and isinstance(k, complex)):
            ops += [('x * k', lambda: x * k, '(iscale %s %s)' % (SX, cC(k))), ('k * x', lambda: k * x, '(iscale %s %s)' % (SX, cC(k))), ('x / k', lambda: x / k, '(iscale %s (Cinv %s))' % (SX, cC(k)))]
        for name, fn, spec in ops:
            rp = {'call': '%s on %s' % (name, type(x).__name__), 'n': n, 'k': repr(k), 'x': repr({kk: np.asarray(v).tolist() for kk, v in (x.n_body_tensors.items() if hasattr(x, 'n_body_tensors') else {})})}
            if name == 'x - y' and hasattr(x, 'n_body_tensors') and any(kk not in x.n_body_tensors for kk in y.n_body_tensors): rp['finding'] = 'D7'   # a key only in the subtrahend (open finding D7)
            try: r = fn()
            except Exception as e:
                ctx.stat('subclass_arithmetic', 'raised_%s' % type(e).__name__); continue
            d = den(r)
            if not exact_terms_ok(d, lo=30): continue
            add('subclass_arithmetic', '(fermi_equiv %s %s)' % (coq_fop_terms(d), spec), rp, key=(kind, name, i))
    # ---- conversions
    for i in range(N(120, 900)):
        n = rng.choice([1, 2, 3, 4])
        const, one, two = rand_hermitian_iop(rng, n)
        iop = of.InteractionOperator(const, one, two)
        f = of.get_fermion_operator(iop)
        sp = spec_poly(iop.n_body_tensors)
        if not exact_terms_ok(f.terms) or not exact_terms_ok(sp): continue
        add('get_fermion_operator', '(fermi_equiv %s %s)' % (coq_fop(f), coq_fop_terms(sp)), {'call': 'get_fermion_operator(InteractionOperator)', 'n': n}, key=repr(sp))
        # FermionOperator -> InteractionOperator on non-normal-ordered spellings
        terms = {}
        for _ in range(rng.randint(1, 4)):
            k2 = rng.choice([1, 2]); cr = [rng.randrange(n) for _ in range(k2)]; an = [rng.randrange(n) for _ in range(k2)]
            t = [(c, 1) for c in cr] + [(a, 0) for a in an]; rng.shuffle(t); terms[tuple(t)] = dyc(rng)
        fop = mk_fermion(of, terms) + of.FermionOperator((), float(dy(rng)))
        back = of.get_interaction_operator(fop, n_qubits=n)
        sb = spec_poly(back.n_body_tensors)
        if exact_terms_ok(sb, lo=30):
            rt = of.normal_ordered(of.get_fermion_operator(back)); no = of.normal_ordered(fop)
            add('get_interaction_operator', '(fermi_equiv %s %s && dict_eqb lfactor lfeqb %s %s)' % (coq_fop_terms(sb), coq_fop(fop), coq_fop(rt), coq_fop(no)),
                {'call': 'get_interaction_operator + round trip', 'terms': {repr(t): repr(c) for t, c in fop.terms.items()}}, key=repr(fop.terms))
        # quadratic Hamiltonians (number conserving or not, chemical potential)
        M = np.zeros((n, n), dtype=complex); D = np.zeros((n, n), dtype=complex)
        for p in range(n):
            for q in range(p, n):
                if rng.random() < 0.7: c = dyc(rng, real=(p == q)); M[p, q] = c; M[q, p] = np.conj(c)
                if p != q and rng.random() < 0.5: c = dyc(rng); D[p, q] = c; D[q, p] = -c
        mu = rng.choice([0.0, 0.5, -1.25]); cst = float(dy(rng))
        qh = of.QuadraticHamiltonian(M, D if rng.random() < 0.7 else None, cst, mu)
        doc = {}
        def addt(t, c):
            if c != 0: doc[t] = doc.get(t, 0) + c
        addt((), cst)
        Dm = qh.antisymmetric_part
        for p in range(n):
            for q in range(n):
                addt(((p, 1), (q, 0)), M[p, q] - (mu if p == q else 0))
                addt(((p, 1), (q, 1)), 0.5 * Dm[p, q]); addt(((q, 0), (p, 0)), 0.5 * np.conj(Dm[p, q]))
        fq = of.get_fermion_operator(qh)
        if exact_terms_ok(fq.terms, lo=30) and exact_terms_ok(doc, lo=30):
            add('quadratic_hamiltonian', '(fermi_equiv %s %s)' % (coq_fop(fq), coq_fop_terms(doc)), {'call': 'get_fermion_operator(QuadraticHamiltonian) vs docstring form', 'M': repr(M.tolist()), 'Delta': repr(Dm.tolist()), 'mu': mu, 'constant': cst}, key=repr(doc))
            try:
                back = of.get_quadratic_hamiltonian(fq, chemical_potential=mu, n_qubits=n)
                fb = of.get_fermion_operator(back)
                add('get_quadratic_hamiltonian', '(fermi_equiv %s %s)' % (coq_fop(fb), coq_fop(fq)), {'call': 'get_quadratic_hamiltonian round trip', 'M': repr(M.tolist()), 'mu': mu}, key=('rt', repr(doc)))
            except Exception as e:
                ctx.violation('C08 get_quadratic_hamiltonian raised %s: %s on a quadratic Hermitian operator' % (type(e).__name__, e), {'M': repr(M.tolist()), 'Delta': repr(Dm.tolist()), 'mu': mu})
        # diagonal Coulomb
        one_r = np.zeros((n, n), dtype=complex); two_r = np.zeros((n, n))
        for p in range(n):
            for q in range(p, n):
                if rng.random() < 0.6: c = dyc(rng, real=(p == q)); one_r[p, q] = c; one_r[q, p] = np.conj(c)
                if rng.random() < 0.6: v = float(dy(rng)); two_r[p, q] = v; two_r[q, p] = v
        dch = of.DiagonalCoulombHamiltonian(one_r, two_r, cst)
        fd = of.get_fermion_operator(dch)
        if exact_terms_ok(fd.terms, lo=30):
            try:
                back = of.get_diagonal_coulomb_hamiltonian(fd, n_qubits=n)
                add('diagonal_coulomb_roundtrip', '(fermi_equiv %s %s)' % (coq_fop(of.get_fermion_operator(back)), coq_fop(fd)), {'call': 'get_diagonal_coulomb_hamiltonian round trip', 'one_body': repr(one_r.tolist()), 'two_body': repr(two_r.tolist())}, key=repr(fd.terms))
            except Exception as e:
                ctx.violation('C08 get_diagonal_coulomb_hamiltonian raised %s: %s' % (type(e).__name__, e), {'one_body': repr(one_r.tolist()), 'two_body': repr(two_r.tolist())})
        # Majorana <-> fermion
        fm = mk_fermion(of, rand_fermion_terms(rng, n, rng.randint(1, 3), maxlen=3))
        mo = of.get_majorana_operator(fm)
        back = of.get_fermion_operator(mo)
        if exact_terms_ok(mo.terms, lo=30) and exact_terms_ok(back.terms, lo=30):
            add('majorana_conversion', '(pauli_equiv (mjw0 %s) (jw0 %s) && fermi_equiv %s %s && dict_eqb lfactor lfeqb %s %s)' %
                (coq_mop(mo.terms), coq_fop(fm), coq_fop(back), coq_fop(fm), coq_fop(of.normal_ordered(back)), coq_fop(of.normal_ordered(fm))),
                {'call': 'get_majorana_operator / get_fermion_operator(MajoranaOperator)', 'terms': {repr(t): repr(c) for t, c in fm.terms.items()}}, key=repr(fm.terms))
    # ---- boson <-> quadrature with hbar/2 a rational square
    for i in range(N(60, 400)):
        hb, s = rng.choice([(2.0, 1.0), (8.0, 2.0), (0.5, 0.5)])
        modes = rng.choice([1, 2])
        bo = of.BosonOperator()
        for _ in range(rng.randint(1, 3)): bo += of.BosonOperator(tuple((rng.randrange(modes), rng.randint(0, 1)) for _ in range(rng.randint(0, 3))), dyc(rng))
        qo = of.get_quad_operator(bo, hbar=hb)
        qq = of.QuadOperator()
        for _ in range(rng.randint(1, 3)): qq += of.QuadOperator(tuple((rng.randrange(modes), rng.choice('qp')) for _ in range(rng.randint(0, 3))), dyc(rng))
        bb = of.get_boson_operator(qq, hbar=hb)
        if not all(exact_terms_ok(x.terms, lo=40, hi=40) for x in (qo, bb)): continue
        cq = lambda d: '(' + clist([cpair(coq_quadterm(t), cC(c)) for t, c in d.items()]) + ' : lop)'
        add('boson_quad', '(bose_quad_equiv_on %s %s 3 %s %s && bose_quad_equiv_on %s %s 3 %s %s)' % (cC(s), cnat(modes), coq_fop_terms(bo.terms), cq(qo.terms), cC(s), cnat(modes), coq_fop_terms(bb.terms), cq(qq.terms)),
            {'call': 'get_quad_operator / get_boson_operator', 'hbar': hb, 'boson': repr(bo.terms), 'quad': repr(qq.terms)}, key=(hb, repr(bo.terms), repr(qq.terms)))
    # ---- rotate_basis: substitution of rotated ladder operators, composition, spectrum
    for i in range(N(60, 400)):
        n = rng.choice([2, 3])
        const, one, two = rand_hermitian_iop(rng, n)
        if rng.random() < 0.5: two = np.zeros_like(two)
        t = of.InteractionOperator(const, one, two)
        U = rational_unitary(rng, n); V = rational_unitary(rng, n)
        r = copy.deepcopy(t); r.rotate_basis(U)
        sp0, sp1 = spec_poly(t.n_body_tensors), spec_poly(r.n_body_tensors)
        add('rotate_basis', '(fermi_close %s %s (subst_op %s %s %s))' % (cQ(Fraction(1, 10 ** 20)), coq_fop_terms(sp1), cmat(U.tolist()), cnat(n), coq_fop_terms(sp0)),
            {'call': 'rotate_basis', 'U': repr(U.tolist()), 'one_body': repr(one.tolist())}, key=(repr(U.tolist()), repr(sp0)))
        r2 = copy.deepcopy(r); r2.rotate_basis(V)
        r12 = copy.deepcopy(t); r12.rotate_basis(U @ V)
        a_, b_ = spec_poly(r2.n_body_tensors), spec_poly(r12.n_body_tensors)
        if True:
            add('rotate_compose', '(fermi_close %s %s %s)' % (cQ(Fraction(1, 10 ** 20)), coq_fop_terms(a_), coq_fop_terms(b_)), {'call': 'rotate(rotate(T,U),V) vs rotate(T, U V)', 'U': repr(U.tolist()), 'V': repr(V.tolist())}, key=(repr(U.tolist()), repr(V.tolist()), repr(sp0)))
        e0 = np.linalg.eigvalsh(of.get_sparse_operator(t).toarray()); e1 = np.linalg.eigvalsh(of.get_sparse_operator(r).toarray())
        ctx.count('rotate_spectrum_numeric', 1, nontrivial_key=repr(sp0))
        if not np.allclose(e0, e1, atol=1e-8): ctx.violation('C08 rotate_basis changes the spectrum', {'U': repr(U.tolist()), 'one_body': repr(one.tolist())})
    # general PolynomialTensor keys (annihilators before creators, mixed orders) under complex rotations
    for i in range(N(40, 300)):
        n = 2
        pool = [(0, 1), (1, 0), (1, 1), (0, 0), (1, 0, 1, 0), (0, 1, 1, 0), (1, 0, 0, 1), (0, 1, 0, 1), (1, 1, 0, 0), (0, 0, 1, 1), (1, 0, 0), (0, 1, 1)]
        ks = rng.sample(pool, rng.choice([1, 1, 2]))
        t = of.PolynomialTensor(rand_tensor(rng, n, ks))
        U = rational_unitary(rng, n)
        r = copy.deepcopy(t); r.rotate_basis(U)
        sp0, sp1 = spec_poly(t.n_body_tensors), spec_poly(r.n_body_tensors)
        add('rotate_basis_general_keys', '(fermi_close %s %s (subst_op %s %s %s))' % (cQ(Fraction(1, 10 ** 20)), coq_fop_terms(sp1), cmat(U.tolist()), cnat(n), coq_fop_terms(sp0)),
            {'call': 'PolynomialTensor.rotate_basis', 'keys': [list(k) for k in ks], 'U': repr(U.tolist()), 'tensors': repr({k: np.asarray(v).tolist() for k, v in t.n_body_tensors.items()})}, key=(repr(U.tolist()), repr(sp0)))
    # ---- DOCIHamiltonian from integrals: the pair-qubit operator equals the molecular Hamiltonian (and
    #      the stored parent tensors) restricted to doubly occupied configurations
    from openfermion.chem.molecular_data import spinorb_from_spatial
    from .c19 import rand_eri
    for i in range(N(25, 150)):
        n = rng.choice([1, 2, 3])
        h = np.zeros((n, n))
        for p in range(n):
            for q in range(p, n): h[p, q] = h[q, p] = rng.randint(-4, 4) / 4
        eri = rand_eri(rng, n); const = float(dy(rng))
        if i % 4 == 3:
            # integer-valued one-electron integrals handed over as an integer array (lattice models), non-integer two-electron integrals
            h = np.array([[int(rng.randint(-2, 2)) for _ in range(n)] for _ in range(n)]); h = h + h.T
            eri = eri + 0.25 * np.einsum('pq,rs->prsq', np.eye(n), np.eye(n))
        doci = of.DOCIHamiltonian.from_integrals(const, h, eri)
        q = doci.qubit_operator
        one, two = spinorb_from_spatial(h, eri)
        mol = spec_poly({(): const, (1, 0): one, (1, 1, 0, 0): 0.5 * two})
        nbt = doci.n_body_tensors
        # the stored two-body tensor follows the integral convention (factor 1/2), as the library's own tests use it
        par = spec_poly({(): nbt[()], (1, 0): nbt[(1, 0)], (1, 1, 0, 0): 0.5 * np.asarray(nbt[(1, 1, 0, 0)])})
        if exact_terms_ok(mol, lo=30) and exact_terms_ok(par, lo=30) and exact_terms_ok(q.terms, lo=30):
            add('doci', '(doci_ok %s %s %s && doci_ok %s %s %s)' % (cnat(n), coq_qop(q), coq_fop_terms(mol), cnat(n), coq_qop(q), coq_fop_terms(par)),
                {'call': 'DOCIHamiltonian.from_integrals: qubit_operator vs molecular Hamiltonian and vs n_body_tensors on doubly occupied states', 'one_body_integrals': h.tolist(), 'constant': const}, key=repr(mol))
        # DOCIHamiltonian arithmetic (own overrides acting on hc / hr1 / hr2): linear in the pair-qubit operator and in the stored tensors
        h2 = np.zeros((n, n))
        for p in range(n):
            for q_ in range(p, n): h2[p, q_] = h2[q_, p] = rng.randint(-4, 4) / 4
        eri2 = rand_eri(rng, n); k = rng.choice([2.0, -0.5, 4.0])
        x = of.DOCIHamiltonian.from_integrals(const, h, eri); y = of.DOCIHamiltonian.from_integrals(0.75, h2, eri2)
        qx, qy = coq_qop(x.qubit_operator), coq_qop(y.qubit_operator)
        dn = lambda t: coq_fop_terms(spec_poly(dict(t.n_body_tensors)))
        dx, dy_ = dn(x), dn(y)
        rpd = {'n': n, 'k': k, 'x': [const, h.tolist(), repr(eri.tolist())], 'y': [0.75, h2.tolist(), repr(eri2.tolist())]}
        for name, fn, qspec, fspec in (('x + y', lambda: x + y, '(qadd0 %s %s)' % (qx, qy), '(%s ++ %s)' % (dx, dy_)), ('x - y', lambda: x - y, '(qsub0 %s %s)' % (qx, qy), '(%s ++ iscale %s Cm1)' % (dx, dy_)),
                                       ('x * k', lambda: x * k, '(iscale %s %s)' % (qx, cC(k)), '(iscale %s %s)' % (dx, cC(k))), ('k * x', lambda: k * x, '(iscale %s %s)' % (qx, cC(k)), '(iscale %s %s)' % (dx, cC(k))),
                                       ('x / k', lambda: x / k, '(iscale %s (Cinv %s))' % (qx, cC(k)), '(iscale %s (Cinv %s))' % (dx, cC(k))), ('x + 1.5', lambda: x + 1.5, '(qadd0 %s %s)' % (qx, coq_qop(of.QubitOperator((), 1.5))), '(%s ++ %s)' % (dx, coq_fop_terms({(): 1.5})))):
            try: r = fn()
            except Exception as e:
                ctx.count('doci_arithmetic', 1); ctx.violation('C08 DOCIHamiltonian %s raised %s: %s' % (name, type(e).__name__, e), dict(rpd, call=name)); continue
            if not hasattr(r, 'qubit_operator'):
                ctx.count('doci_arithmetic', 1); ctx.violation('C08 DOCIHamiltonian %s does not return a DOCIHamiltonian' % name, dict(rpd, call=name)); continue
            add('doci_arithmetic', '(pauli_equiv %s %s && fermi_equiv %s %s)' % (coq_qop(r.qubit_operator), qspec, dn(r), fspec), dict(rpd, call='DOCIHamiltonian ' + name), key=(name, repr(rpd)))
        # operands keep their value
        add('doci_arithmetic', '(pauli_equiv %s %s && pauli_equiv %s %s)' % (coq_qop(x.qubit_operator), qx, coq_qop(y.qubit_operator), qy), dict(rpd, call='operands after arithmetic'), key=('after', repr(rpd)))
        # in-place edits of hc / hr1 / hr2 entries (the way the class asks users to modify it) after the tensors have been read:
        # tensors and pair-qubit operator must keep denoting the same operator
        z = of.DOCIHamiltonian.from_integrals(const, np.array(h, dtype=float), np.array(eri, dtype=float))
        _ = z.n_body_tensors; _ = (z == z)
        if n >= 1:
            z.hc[rng.randrange(n)] += 0.5
            if n >= 2:
                p_, q_ = rng.sample(range(n), 2); z.hr1[p_, q_] += 0.25; z.hr1[q_, p_] += 0.25; z.hr2[p_, q_] -= 0.5; z.hr2[q_, p_] -= 0.5
            nbz = z.n_body_tensors
            parz = spec_poly({(): nbz[()], (1, 0): nbz[(1, 0)], (1, 1, 0, 0): 0.5 * np.asarray(nbz[(1, 1, 0, 0)])})
            if exact_terms_ok(parz, lo=30) and exact_terms_ok(z.qubit_operator.terms, lo=30):
                add('doci_inplace_edit', '(doci_ok %s %s %s)' % (cnat(n), coq_qop(z.qubit_operator), coq_fop_terms(parz)), dict(rpd, call='DOCIHamiltonian: hc / hr1 / hr2 entries edited in place after n_body_tensors was read'), key=('edit', repr(rpd)))
        # (DOCIHamiltonian indexing is a view of hc / hr1 / hr2 pinned by the library's own tests, not of n_body_tensors: not judged here)
    res = coq_eval_bools(ctx, 'c08', IMPORTS, items, chunk=30)
    judge(ctx, res, meta, 'C08')
