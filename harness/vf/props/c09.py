"""C09: binary codes decode what they encode and transform operators faithfully."""
import itertools
import numpy as np
from ..core import *
from ..ops import *
from .c04 import judge

IMPORTS = ('From OFV Require Import Base.Cplx Base.Lin Sem.PauliSem Sem.FermiSem Model.SymbolicOp Model.QubitOp Model.LadderOp Model.BinaryPoly '
           'Check.DictEquiv Check.OpEquiv Check.CodeTransform Thm.C09.ParityCode.\n')
NEEDS = ['Thm/C09/EvalHom', 'Thm/C09/ParityCode', 'Check/CodeTransform']

def cmono(t): return '(' + clist([cnat(int(v)) for v in t if not isinstance(v, str)]) + ' : mono)'
def cpoly(p): return '(' + clist([cmono(t) for t in p.terms]) + ' : bpoly)'
def cNl(l): return '(' + clist([cN(int(x)) for x in l]) + ' : list N)'
def mask(bits): return sum(int(b) << i for i, b in enumerate(bits))
def rows_of(code):
    enc = np.asarray(code.encoder.toarray()) % 2
    return [mask(enc[j, :]) for j in range(enc.shape[0])]

def gen_expr(rng, depth, pool, BP):
    """returns (python BinaryPolynomial, coq expression of the specification model)"""
    if depth == 0 or rng.random() < 0.25:
        k = rng.random()
        if k < 0.15:
            c = rng.choice([0, 1, np.int64(1), np.int32(0), 3])
            return BP(int(c)) if False else (BP('1') * int(c) if int(c) % 2 else BP()), '(bconst %s)' % cbool(int(c) % 2 == 1)
        vs = [rng.choice(pool) for _ in range(rng.randint(1, 3))]
        form = rng.random()
        if form < 0.5: p = BP(' '.join('w%d' % v for v in vs))
        else: p = BP([tuple(vs)])
        return p, '([%s] : bpoly)' % cmono(vs)
    op = rng.choice(['add', 'add', 'mul', 'mul', 'iadd', 'imul', 'pow', 'shift', 'addint', 'mulint', 'iaddint', 'selfadd'])
    a, ca = gen_expr(rng, depth - 1, pool, BP)
    if op in ('add', 'mul', 'iadd', 'imul'):
        b, cb = gen_expr(rng, depth - 1, pool, BP)
        if op == 'add': return a + b, '(badd %s %s)' % (ca, cb)
        if op == 'mul': return a * b, '(bmul %s %s)' % (ca, cb)
        if op == 'iadd': a += b; return a, '(badd %s %s)' % (ca, cb)
        a *= b; return a, '(bmul %s %s)' % (ca, cb)
    if op == 'pow':
        n = rng.choice([1, 2, 3]); return a ** n, '(bpow %s %s)' % (ca, cnat(n))
    if op == 'shift':
        c = rng.choice([1, 2, 7]); a.shift(c); return a, '(bshift %s %s)' % (ca, cnat(c))
    k = rng.choice([0, 1, 2, 3, np.int64(1), np.int64(2), np.int32(1)])
    if op == 'addint':
        return (a + k if rng.random() < 0.5 else k + a), '(badd %s (bconst %s))' % (ca, cbool(int(k) % 2 == 1))
    if op == 'iaddint':
        a += k; return a, '(badd %s (bconst %s))' % (ca, cbool(int(k) % 2 == 1))
    if op == 'mulint':
        return (a * k if rng.random() < 0.5 else k * a), '(bmul %s (bconst %s))' % (ca, cbool(int(k) % 2 == 1))
    a += a; return a, '(badd %s %s)' % (ca, ca)

def run(ctx):
    from ..impl import of
    from openfermion.ops import BinaryPolynomial as BP, BinaryCode
    from openfermion.transforms.opconversions import binary_codes as bc
    from openfermion.transforms import binary_code_transform
    rng = ctx.rng
    items, meta = [], []
    def add(part, expr, replay, key=None):
        items.append(expr); meta.append((part, replay)); ctx.count(part, 1, nontrivial_key=key)
    N = (lambda q, t: q if ctx.quick else t)
    # ---- BinaryPolynomial expressions vs the GF(2) specification (structural modulo canonical form, and evaluate on all assignments)
    for i in range(N(400, 4000)):
        pool = rng.choice([[0, 1, 2], [0, 1, 2, 3, 4], [1, 8, 9, 12], [3, 10, 2]])
        try:
            p, spec = gen_expr(rng, rng.choice([1, 2, 3]), pool, BP)
        except Exception as e:
            ctx.violation('C09 binary_polynomial: expression raised %s: %s' % (type(e).__name__, e), {'error': repr(e)}); continue
        nv = max([v for t in p.terms for v in t if not isinstance(v, str)] + [max(pool) + 8]) + 1
        evs = []
        for _ in range(6):
            a = [rng.randint(0, 1) for _ in range(nv)]
            evs.append('Bool.eqb (beval %s %s) %s' % (cN(mask(a)), spec, cbool(p.evaluate(a) == 1)))
        add('binary_polynomial', '(bequiv %s %s && %s)' % (cpoly(p), spec, ' && '.join(evs)), {'call': 'BinaryPolynomial expression', 'spec': spec, 'terms': repr(p.terms)}, key=spec)
        if i < 2: ctx.sample({'part': 'binary_polynomial', 'spec_expression': spec, 'result_terms': repr(p.terms)})
    # ---- codes: decode(encode(v)) = v and injectivity on the whole domain
    def dom_all(n): return list(range(2 ** n))
    def weight(v): return bin(v).count('1')
    base = []
    for n in range(1, N(7, 11)):
        base += [('jordan_wigner_code(%d)' % n, bc.jordan_wigner_code(n), dom_all(n)), ('bravyi_kitaev_code(%d)' % n, bc.bravyi_kitaev_code(n), dom_all(n)),
                 ('parity_code(%d)' % n, bc.parity_code(n), dom_all(n))]
        if n >= 2:
            for odd in (0, 1): base.append(('checksum_code(%d,%d)' % (n, odd), bc.checksum_code(n, odd), [v for v in dom_all(n) if weight(v) % 2 == odd]))
        if n % 2 == 0: base.append(('interleaved_code(%d)' % n, bc.interleaved_code(n), dom_all(n)))
    for e in range(1, N(4, 5)): base.append(('weight_one_binary_addressing_code(%d)' % e, bc.weight_one_binary_addressing_code(e), [1 << k for k in range(2 ** e)]))
    base.append(('weight_one_segment_code()', bc.weight_one_segment_code(), [1, 2, 4]))
    base.append(('weight_two_segment_code()', bc.weight_two_segment_code(), [v for v in range(32) if weight(v) == 2]))
    def enc(code, v):
        bits = [(v >> i) & 1 for i in range(code.n_modes)]
        w = np.asarray(code.encoder.toarray()).dot(bits) % 2
        return mask(w)
    exprs = list(base)
    small = [b for b in base if b[1].n_modes <= 4 and len(b[2]) <= 16]
    for _ in range(N(40, 300)):
      try:
        (n1, c1, d1), (n2, c2, d2) = rng.choice(small), rng.choice(small)
        k = rng.random()
        if k < 0.4:
            exprs.append(('(%s + %s)' % (n1, n2), c1 + c2, [a | (b << c1.n_modes) for a in d1 for b in d2]))
        elif k < 0.6:
            f = rng.choice([2, 3, np.int64(2)])
            dom = d1
            for r in range(1, int(f)): dom = [a | (b << (r * c1.n_modes)) for a in dom for b in d1]
            exprs.append(('(%s * %d)' % (n1, int(f)) if rng.random() < 0.5 else '(%d * %s)' % (int(f), n1), (c1 * f if rng.random() < 0.5 else f * c1), dom))
        else:
            cands = [b for b in base if b[1].n_modes == c1.n_qubits and b[1].n_modes <= 6]
            if not cands: continue
            n2, c2, d2 = rng.choice(cands)
            dom = [v for v in d1 if enc(c1, v) in set(d2)]
            if not dom: continue
            exprs.append(('(%s * %s)' % (n1, n2), c1 * c2, dom))
      except Exception as e:
        ctx.count('code_validity', 1)
        ctx.violation('C09 combining valid codes %s and %s raised %s: %s' % (n1, n2, type(e).__name__, e), {'codes': [n1, n2], 'built_before': [b[0] for b in base]})
    # a code obtained earlier and then modified in place (+=, *=) must not influence what the constructors return afterwards
    ctors = [('jordan_wigner_code(%d)', bc.jordan_wigner_code), ('bravyi_kitaev_code(%d)', bc.bravyi_kitaev_code), ('parity_code(%d)', bc.parity_code)]
    for n in (2, 3, 4):
        for fmt, mk_ in ctors:
            try:
                first = mk_(n); first += bc.parity_code(2)
                second = mk_(n); second *= bc.jordan_wigner_code(second.n_qubits)
                third = mk_(n); third *= 2
                fresh = mk_(n)
                if fresh.n_modes != n: raise ValueError('constructor returns a code on %d modes' % fresh.n_modes)
                exprs.append((fmt % n + ' after in-place use of earlier instances', fresh, dom_all(n)))
            except Exception as e:
                ctx.count('code_validity', 1)
                ctx.violation('C09 %s requested after earlier instances were modified in place: %s: %s' % (fmt % n, type(e).__name__, e), {'call': fmt % n})
    for name, code, dom in exprs:
        if code.n_modes > 12 or len(dom) > 1100: continue
        rows = rows_of(code)
        add('code_validity', '(code_valid_on %s %s %s && injective_on %s %s)' % (cNl(rows), '(' + clist([cpoly(d) for d in code.decoder]) + ' : list bpoly)', cNl(dom), cNl(rows), cNl(dom)),
            {'call': name, 'n_modes': code.n_modes, 'n_qubits': code.n_qubits, 'domain_size': len(dom)}, key=name)
    # ---- built-in codes on many modes (tree links beyond the first levels): unit vectors, all-ones, random vectors
    big_ns = sorted(set([11, 12, 15, 16, 17, 20, 24, 31, 32, 33, 40] if ctx.quick else list(range(11, 66))))
    for n in big_ns:
        vecs = sorted(set([1 << k for k in range(n)] + [(1 << n) - 1] + [rng.getrandbits(n) for _ in range(N(12, 40))]))
        cands = [('jordan_wigner_code(%d)' % n, bc.jordan_wigner_code(n), vecs), ('bravyi_kitaev_code(%d)' % n, bc.bravyi_kitaev_code(n), vecs), ('parity_code(%d)' % n, bc.parity_code(n), vecs)]
        for odd in (0, 1): cands.append(('checksum_code(%d,%d)' % (n, odd), bc.checksum_code(n, odd), [v for v in vecs if weight(v) % 2 == odd]))
        if n % 2 == 0: cands.append(('interleaved_code(%d)' % n, bc.interleaved_code(n), vecs))
        for name, code, dom in cands:
            if not dom: continue
            rows = rows_of(code)
            add('code_validity_large', '(code_valid_on %s %s %s && injective_on %s %s)' % (cNl(rows), '(' + clist([cpoly(d) for d in code.decoder]) + ' : list bpoly)', cNl(dom), cNl(rows), cNl(dom)),
                {'call': name, 'n_modes': code.n_modes, 'n_qubits': code.n_qubits, 'domain_sample': len(dom)}, key=name)
    # ---- the implementation's parity / Jordan-Wigner codes are the models of the unbounded round-trip theorems
    for n in list(range(1, N(13, 25))) + [32, 40]:
        for nm_, mk_, chk in (('parity_code', bc.parity_code, 'code_is_parity'), ('jordan_wigner_code', bc.jordan_wigner_code, 'code_is_jw')):
            code = mk_(n)
            add('code_model_' + nm_, '(%s %s %s %s)' % (chk, cnat(n), cNl(rows_of(code)), '(' + clist([cpoly(d) for d in code.decoder]) + ' : list bpoly)'),
                {'call': '%s(%d)' % (nm_, n)}, key=(nm_, n))
    # ---- binary_code_transform acts on encoded states as the operator acts on occupation states
    for name, code, dom in exprs:
        if code.n_modes > 6 or code.n_qubits > 8 or len(dom) > 64: continue
        nm = code.n_modes
        full = (len(dom) == 2 ** nm)
        for _ in range(N(2, 6)):
            if full: terms = rand_fermion_terms(rng, nm, rng.randint(1, 3), maxlen=3)
            else:
                # operators that keep the domain invariant: number-conserving hops (fixed weight) / pair moves (fixed parity)
                terms = {}
                for _ in range(rng.randint(1, 2)):
                    p, q = rng.randrange(nm), rng.randrange(nm)
                    terms[((p, 1), (q, 0))] = dyc(rng)
            fop = mk_fermion(of, terms)
            try:
                out = binary_code_transform(fop, code)
            except Exception as e:
                ctx.violation('C09 binary_code_transform(%s) raised %s: %s' % (name, type(e).__name__, e), {'call': 'binary_code_transform', 'code': name, 'terms': repr(terms)}); continue
            if not exact_terms_ok(out.terms, lo=30): continue
            add('binary_code_transform', '(negb (preserves_domain %s %s) || code_transform_check %s %s %s %s)' % (cNl(dom), coq_fop(fop), cNl(rows_of(code)), cNl(dom), coq_fop(fop), coq_qop(out)),
                {'call': 'binary_code_transform', 'code': name, 'terms': {repr(t): repr(c) for t, c in fop.terms.items()}}, key=(name, repr(terms)))
    # ---- with the JW / BK codes: term for term equal to jordan_wigner / bravyi_kitaev
    for _ in range(N(40, 400)):
        nm = rng.choice([1, 2, 3, 4, 5, 6, 7])
        fop = mk_fermion(of, rand_fermion_terms(rng, nm, rng.randint(1, 3), maxlen=4))
        a = binary_code_transform(fop, bc.jordan_wigner_code(nm)); b = of.jordan_wigner(fop)
        c = binary_code_transform(fop, bc.bravyi_kitaev_code(nm)); d = of.bravyi_kitaev(fop, n_qubits=nm)
        if not all(exact_terms_ok(x.terms, lo=30) for x in (a, b, c, d)): continue
        add('reproduces_jw_bk', '(dict_eqb pfactor pfeqb %s %s && dict_eqb pfactor pfeqb %s %s)' % (coq_qop(a), coq_qop(b), coq_qop(c), coq_qop(d)),
            {'call': 'binary_code_transform vs jordan_wigner / bravyi_kitaev', 'n_modes': nm, 'terms': {repr(t): repr(c_) for t, c_ in fop.terms.items()}}, key=(nm, repr(fop.terms)))
    for _ in range(N(30, 200)):
        nm = rng.choice([9, 12, 15, 16, 17, 20, 31, 32, 33]) if ctx.quick else rng.randint(8, 48)
        terms = {}
        for _ in range(rng.randint(1, 2)):
            idx = [rng.choice([0, 1, nm - 1, nm - 2, rng.randrange(nm), rng.randrange(nm)]) for _ in range(rng.randint(1, 2))]
            terms[tuple((i, rng.randint(0, 1)) for i in idx)] = dyc(rng)
        fop = mk_fermion(of, terms)
        a = binary_code_transform(fop, bc.jordan_wigner_code(nm)); b = of.jordan_wigner(fop)
        c = binary_code_transform(fop, bc.bravyi_kitaev_code(nm)); d = of.bravyi_kitaev(fop, n_qubits=nm)
        if not all(exact_terms_ok(x.terms, lo=30) for x in (a, b, c, d)): continue
        add('reproduces_jw_bk_large', '(dict_eqb pfactor pfeqb %s %s && dict_eqb pfactor pfeqb %s %s)' % (coq_qop(a), coq_qop(b), coq_qop(c), coq_qop(d)),
            {'call': 'binary_code_transform vs jordan_wigner / bravyi_kitaev', 'n_modes': nm, 'terms': {repr(t): repr(c_) for t, c_ in fop.terms.items()}}, key=(nm, repr(fop.terms)))
    res = coq_eval_bools(ctx, 'c09', IMPORTS, items, chunk=40)
    judge(ctx, res, meta, 'C09')
