"""C10: symmetry-sector restrictions and basis-state helpers match the operators."""
import itertools
import numpy as np
import scipy.sparse
from ..core import *
from ..ops import *
from .c04 import judge

IMPORTS = ('From OFV Require Import Base.Cplx Base.Lin Sem.PauliSem Sem.FermiSem Model.SymbolicOp Model.LadderOp Model.QubitOp Model.JordanWigner Model.Conjugate Thm.C01.FermiHom Check.DictEquiv Check.OpEquiv Check.Commutator Check.Sectors Thm.C10.NumberIndices.\n')
NEEDS = ['Thm/C10/NumberOp', 'Thm/C10/NumberIndices', 'Check/Sectors']
def cNl(l): return '(' + clist([cN(int(x)) for x in l]) + ' : list N)'
def cmat(M): return '(' + clist(['(' + clist([cC(complex(x)) for x in row]) + ' : list C)' for row in M]) + ' : list (list C))'
def mask(bits): return sum((1 << i) for i, b in enumerate(bits) if b)

def rand_nc_op(of, rng, n, maxbody=2, real=False):
    """random number-conserving operator, normal ordered"""
    terms = {}
    for _ in range(rng.randint(1, 4)):
        k = rng.randint(0, maxbody)
        cr = rng.sample(range(n), min(k, n)); an = rng.sample(range(n), min(k, n))
        t = tuple([(c, 1) for c in cr] + [(a, 0) for a in an])
        terms[t] = dyc(rng, real=real)
    return of.normal_ordered(mk_fermion(of, terms))

def run(ctx):
    from ..impl import of
    from openfermion.linalg import sparse_tools as st
    rng = ctx.rng
    items, meta = [], []
    def add(part, expr, replay, key=None):
        items.append(expr); meta.append((part, replay)); ctx.count(part, 1, nontrivial_key=key)
    N = (lambda q, t: q if ctx.quick else t)
    nmax = N(7, 10)
    # ---- jw_number_indices / jw_sz_indices: complete for n_qubits <= nmax
    for n in range(1, nmax + 1):
        for ne in range(0, n + 1):
            l = st.jw_number_indices(ne, n)
            add('jw_number_indices', '(number_indices_ok %s %s %s && nlist_eqb (number_indices %s %s) %s)' % (cnat(n), cnat(ne), cNl(l), cnat(n), cnat(ne), cNl(l)), {'call': 'jw_number_indices', 'n_electrons': ne, 'n_qubits': n}, key=(n, ne))
        if n % 2 == 0:
            for sz2 in range(-n // 2, n // 2 + 1):
                for ne in [None] + list(range(0, n + 1)):
                    try:
                        l = st.jw_sz_indices(sz2 / 2.0, n, ne)
                    except ValueError:
                        ok = ne is not None and ((ne + sz2) % 2 != 0 or ne < abs(sz2))
                        ctx.count('jw_sz_indices', 1)
                        if not ok: ctx.violation('C10 jw_sz_indices raised ValueError on admissible input', {'call': 'jw_sz_indices', 'sz': sz2 / 2.0, 'n_qubits': n, 'n_electrons': ne})
                        continue
                    add('jw_sz_indices', '(sz_indices_ok %s %s %s %s)' % (cnat(n), cZ(sz2), '(@None nat)' if ne is None else '(Some %s)' % cnat(ne), cNl(l)),
                        {'call': 'jw_sz_indices', 'sz': sz2 / 2.0, 'n_qubits': n, 'n_electrons': ne}, key=(n, sz2, ne))
    ctx.parts['jw_number_indices']['exhaustive'] = 'all n_qubits <= %d, all electron numbers / S_z values' % nmax
    # ---- configuration / Hartree-Fock states
    for n in range(1, N(7, 10)):
        for _ in range(N(3, 8)):
            occ = sorted(rng.sample(range(n), rng.randint(0, n)))
            v = st.jw_configuration_state(occ, n)
            nz = np.nonzero(v)[0]
            add('jw_configuration_state', '(N.eqb %s (config_index %s %s) && N.eqb (mask_of_index %s %s) %s)' % (cN(int(nz[0])), cnat(n), '(' + clist([cnat(i) for i in occ]) + ' : list nat)', cnat(n), cN(int(nz[0])), cN(mask([i in occ for i in range(n)]))),
                {'call': 'jw_configuration_state', 'occupied': occ, 'n_qubits': n}, key=(n, tuple(occ)))
            if len(nz) != 1 or v[nz[0]] != 1: ctx.violation('C10 jw_configuration_state is not a basis vector', {'occupied': occ, 'n_qubits': n})
        ne = rng.randint(0, n)
        hf = st.jw_hartree_fock_state(ne, n)
        add('jw_hartree_fock_state', '(N.eqb %s (config_index %s %s))' % (cN(int(np.nonzero(hf)[0][0])), cnat(n), '(' + clist([cnat(i) for i in range(ne)]) + ' : list nat)'), {'call': 'jw_hartree_fock_state', 'n_electrons': ne, 'n_orbitals': n}, key=(n, ne))
    # ---- restricted operators = the Fock matrix on the index list (index convention of get_sparse_operator)
    for _ in range(N(40, 300)):
        n = rng.choice([2, 3, 4, 5]); ne = rng.randint(0, n)
        op = rand_nc_op(of, rng, n)
        if not exact_terms_ok(op.terms): continue
        full = of.get_sparse_operator(op, n)
        R = st.jw_number_restrict_operator(full, ne, n)
        idx = st.jw_number_indices(ne, n)
        add('jw_number_restrict_operator', '(number_indices_ok %s %s %s && restricted_matrix_ok %s %s %s %s)' % (cnat(n), cnat(ne), cNl(idx), cnat(n), cNl(idx), coq_fop(op), cmat(np.asarray(R.todense()).tolist())),
            {'call': 'jw_number_restrict_operator', 'n_qubits': n, 'n_electrons': ne, 'terms': {repr(t): repr(c) for t, c in op.terms.items()}}, key=(n, ne, repr(op.terms)))
        # restrict_state: projection of a vector = selecting the same indices
        vec = np.array([complex(dy(rng), dy(rng)) for _ in range(2 ** n)])
        rs = st.jw_number_restrict_state(vec, ne, n)
        if not np.array_equal(np.asarray(rs), vec[idx]): ctx.violation('C10 jw_number_restrict_state does not select the sector amplitudes', {'n_qubits': n, 'n_electrons': ne})
        if n % 2 == 0:
            sz2 = rng.randint(-n // 2, n // 2); ne2 = rng.choice([None] + [e for e in range(n + 1) if (e + sz2) % 2 == 0 and e >= abs(sz2)])
            R2 = st.jw_sz_restrict_operator(full, sz2 / 2.0, ne2, n)
            idx2 = st.jw_sz_indices(sz2 / 2.0, n, ne2)
            add('jw_sz_restrict_operator', '(restricted_matrix_ok %s %s %s %s)' % (cnat(n), cNl(idx2), coq_fop(op), cmat(np.asarray(R2.todense()).tolist())),
                {'call': 'jw_sz_restrict_operator', 'n_qubits': n, 'sz': sz2 / 2.0, 'n_electrons': ne2, 'terms': {repr(t): repr(c) for t, c in op.terms.items()}}, key=(n, sz2, ne2, repr(op.terms)))
    # ---- the number / spin operators themselves (hamiltonians/special_operators.py): documented expressions and su(2)
    from openfermion.hamiltonians.special_operators import (number_operator, sz_operator, sx_operator, sy_operator, s_plus_operator, s_minus_operator, s_squared_operator, majorana_operator)
    for n in range(1, N(5, 7)):
        for mode in [None] + list(range(n)):
            for cf in (1.0, float(dy(rng) or 2.0), complex(dyc(rng))):
                for par_ in (-1, 1):
                    if par_ == 1 and isinstance(cf, complex): continue
                    op = number_operator(n, mode, cf, par_)
                    spec = {((j, 1), (j, 0)): cf for j in (range(n) if mode is None else [mode])}
                    ok_cls = isinstance(op, of.FermionOperator if par_ == -1 else of.BosonOperator)
                    ctx.count('number_operator_expr', 1, nontrivial_key=(n, mode, repr(cf), par_))
                    if not ok_cls or {t: complex(c) for t, c in op.terms.items()} != {t: complex(c) for t, c in spec.items()}:
                        ctx.violation('C10 number_operator(%d, %r, %r, parity=%d) is not coefficient * sum of a+_j a_j' % (n, mode, cf, par_), {'call': 'number_operator', 'n_modes': n, 'mode': mode, 'coefficient': repr(cf), 'parity': par_, 'terms': repr(op.terms)})
    for k in range(1, N(3, 4)):
        sz, sx, sy, sp, sm, s2 = sz_operator(k), sx_operator(k), sy_operator(k), s_plus_operator(k), s_minus_operator(k), s_squared_operator(k)
        szs = {}
        for i in range(k): szs[((2 * i, 1), (2 * i, 0))] = 0.5; szs[((2 * i + 1, 1), (2 * i + 1, 0))] = -0.5
        sps = {((2 * i, 1), (2 * i + 1, 0)): 1.0 for i in range(k)}
        F_ = lambda d: coq_fop_terms(d)
        add('spin_operators', '(fermi_equiv %s %s && fermi_equiv %s %s && fermi_equiv %s (hc_fermi %s) && fcomm_check %s %s (iscale %s Ci) && fcomm_check %s %s (iscale %s Ci) && fcomm_check %s %s (iscale %s Ci) && fermi_equiv %s (fmul %s %s ++ fmul %s %s ++ fmul %s %s) && fcomm_zero %s %s)' %
            (coq_fop(sz), F_(szs), coq_fop(sp), F_(sps), coq_fop(sm), coq_fop(sp),
             coq_fop(sx), coq_fop(sy), coq_fop(sz), coq_fop(sy), coq_fop(sz), coq_fop(sx), coq_fop(sz), coq_fop(sx), coq_fop(sy),
             coq_fop(s2), coq_fop(sx), coq_fop(sx), coq_fop(sy), coq_fop(sy), coq_fop(sz), coq_fop(sz), coq_fop(s2), coq_fop(sz)),
            {'call': 'sz/sx/sy/s_plus/s_minus/s_squared operators', 'n_spatial_orbitals': k}, key=k)
    for mode in (0, 2, 5):
        for ty, lab in ((0, 'c'), (1, 'd')):
            cf = float(dy(rng) or 1.0)
            for arg in ((mode, ty), '%s%d' % (lab, mode)):
                op = majorana_operator(arg, cf)
                spec = {((mode, 1),): cf, ((mode, 0),): cf} if ty == 0 else {((mode, 1),): 1j * cf, ((mode, 0),): -1j * cf}
                ctx.count('majorana_operator_expr', 1, nontrivial_key=(mode, ty, repr(arg)))
                if {t: complex(c) for t, c in op.terms.items()} != {t: complex(c) for t, c in spec.items()}:
                    ctx.violation('C10 majorana_operator(%r) differs from its documented expression' % (arg,), {'call': 'majorana_operator', 'term': repr(arg), 'terms': repr(op.terms)})
    # ---- custom spin-orbital conventions (up_index / down_index arguments): indices, restricted operator and state
    convs = {'up_then_down': (lambda m: (lambda i: i), lambda m: (lambda i: i + m)), 'odd_up': (lambda m: (lambda i: 2 * i + 1), lambda m: (lambda i: 2 * i)),
             'down_then_up': (lambda m: (lambda i: i + m), lambda m: (lambda i: i))}
    for _ in range(N(30, 200)):
        n = rng.choice([2, 4]) if ctx.quick else rng.choice([2, 4, 6]); m = n // 2
        cname = rng.choice(sorted(convs)); upf, dnf = convs[cname][0](m), convs[cname][1](m)
        sz2 = rng.randint(-m, m); ne2 = rng.choice([None] + [e for e in range(n + 1) if (e + sz2) % 2 == 0 and e >= abs(sz2)])
        def occ_of(k): return [(k >> (n - 1 - j)) & 1 for j in range(n)]          # mode j on bit n-1-j (get_sparse_operator convention)
        want = [k for k in range(2 ** n) if sum(occ_of(k)[upf(i)] for i in range(m)) - sum(occ_of(k)[dnf(i)] for i in range(m)) == sz2 and (ne2 is None or sum(occ_of(k)) == ne2)]
        rp = {'call': 'jw_sz_* with custom up_index/down_index', 'convention': cname, 'n_qubits': n, 'sz': sz2 / 2.0, 'n_electrons': ne2}
        got = list(st.jw_sz_indices(sz2 / 2.0, n, ne2, up_index=upf, down_index=dnf))
        ctx.count('jw_sz_custom_convention', 1, nontrivial_key=(cname, n, sz2, ne2))
        if sorted(got) != want:
            ctx.violation('C10 jw_sz_indices(custom convention) does not enumerate the S_z sector exactly once', dict(rp, got=got, want=want)); continue
        op = rand_nc_op(of, rng, n)
        full = of.get_sparse_operator(op, n)
        R2 = st.jw_sz_restrict_operator(full, sz2 / 2.0, ne2, n, up_index=upf, down_index=dnf)
        Fd = np.asarray(full.todense())
        if R2.shape != (len(got), len(got)) or not np.array_equal(np.asarray(R2.todense()), Fd[np.ix_(got, got)]):
            ctx.violation('C10 jw_sz_restrict_operator(custom convention) is not the projection onto the S_z sector', dict(rp, terms=repr(op.terms)))
        vec = np.array([complex(dy(rng), dy(rng)) for _ in range(2 ** n)])
        rs = st.jw_sz_restrict_state(vec, sz2 / 2.0, ne2, n, up_index=upf, down_index=dnf)
        if not np.array_equal(np.asarray(rs), vec[got]):
            ctx.violation('C10 jw_sz_restrict_state(custom convention) does not select the sector amplitudes', rp)
    # ---- jw_get_ground_state_at_particle_number: eigenpair inside the sector, lowest sector eigenvalue, same bit
    #      convention as get_sparse_operator (numerical: dense reference built from the Coq-tied sparse matrix)
    for _ in range(N(12, 80)):
        n = rng.choice([2, 3, 4, 5]); op = rand_nc_op(of, rng, n); H = op + of.hermitian_conjugated(op)
        full = of.get_sparse_operator(H, n); Fd = np.asarray(full.todense())
        for ne in range(0, n + 1):
            sector = [k for k in range(2 ** n) if bin(k).count('1') == ne]
            rp = {'call': 'jw_get_ground_state_at_particle_number', 'n_qubits': n, 'particle_number': ne, 'terms': {repr(t): repr(c) for t, c in H.terms.items()}}
            try: e0, psi = st.jw_get_ground_state_at_particle_number(full, ne)
            except Exception as e:
                # scipy's ARPACK refuses an identically zero sector block ("Starting vector is zero"); the property only
                # speaks about the convention of the returned state, so such degenerate blocks are skipped, not judged
                if not np.any(Fd[np.ix_(sector, sector)]): ctx.stat('ground_state_at_particle_number', 'skipped_zero_block'); continue
                ctx.violation('C10 jw_get_ground_state_at_particle_number raised %s: %s' % (type(e).__name__, e), rp); continue
            ref = np.linalg.eigvalsh(Fd[np.ix_(sector, sector)])[0]
            outside = [k for k in range(2 ** n) if k not in sector]
            ok = (abs(e0 - ref) < 1e-8 and abs(np.linalg.norm(psi) - 1) < 1e-8 and np.linalg.norm(psi[outside]) < 1e-9 and np.linalg.norm(Fd @ psi - e0 * psi) < 1e-7)
            ctx.count('ground_state_at_particle_number', 1, nontrivial_key=(n, ne, repr(H.terms)))
            if not ok:
                ctx.violation('C10 jw_get_ground_state_at_particle_number: not the normalised lowest eigenpair of the sector (energy %r, reference %r)' % (float(np.real(e0)), float(ref)), rp)
    # ---- expectation_computational_basis_state: lists and sparse vectors, all basis states of n qubits
    for _ in range(N(30, 200)):
        n = rng.choice([2, 3, 4])
        terms = {}
        for _ in range(rng.randint(1, 5)):
            k = rng.random(); i, j = rng.randrange(n), rng.randrange(n)
            if k < 0.4: terms[((i, 1), (i, 0))] = float(dy(rng) or 1.0)
            elif k < 0.8 and i != j: terms[((max(i, j), 1), (min(i, j), 1), (max(i, j), 0), (min(i, j), 0))] = float(dy(rng) or 1.0)
            elif i != j: terms[((i, 1), (j, 0))] = float(dy(rng) or 1.0)
            else: terms[()] = float(dy(rng))
        op = of.normal_ordered(mk_fermion(of, terms))
        for occ in itertools.product([0, 1], repeat=n):
            v1 = st.expectation_computational_basis_state(op, list(occ))
            k = int(st.jw_configuration_state([i for i in range(n) if occ[i]], n).nonzero()[0][0])
            sv = scipy.sparse.csc_matrix(([1.0], ([k], [0])), shape=(2 ** n, 1))
            v2 = st.expectation_computational_basis_state(op, sv)
            add('expectation_computational_basis_state', '(expectation_ok %s %s %s && expectation_ok %s %s %s)' % (coq_fop(op), cN(mask(occ)), cC(v1), coq_fop(op), cN(mask(occ)), cC(v2)),
                {'call': 'expectation_computational_basis_state', 'occupation': list(occ), 'vector_index': k, 'terms': {repr(t): repr(c) for t, c in op.terms.items()}, 'returned': [repr(v1), repr(v2)]}, key=(repr(op.terms), occ))
    # ---- get_number_preserving_sparse_operator: basis and matrix, all references / levels / spin flags for n <= nref
    nref = N(4, 6)
    for n in range(2, nref + 1):
        refs = list(itertools.product([False, True], repeat=n))
        if ctx.quick: refs = [r for r in refs if rng.random() < 0.6]
        for ref in refs:
            ne = sum(ref)
            for level in ([None] + list(range(0, ne + 1))):
                for spin in ((False, True) if n % 2 == 0 else (False,)):
                    if rng.random() < N(0.5, 0.0): continue
                    op = rand_nc_op(of, rng, n)
                    if not exact_terms_ok(op.terms): continue
                    rp = {'call': 'get_number_preserving_sparse_operator', 'n_qubits': n, 'reference': [bool(x) for x in ref], 'excitation_level': level, 'spin_preserving': spin, 'terms': {repr(t): repr(c) for t, c in op.terms.items()}}
                    try:
                        M = st.get_number_preserving_sparse_operator(op, n, ne, spin_preserving=spin, reference_determinant=list(ref), excitation_level=level)
                    except Exception as e:
                        ctx.count('number_preserving_sparse_operator', 1)
                        ctx.violation('C10 get_number_preserving_sparse_operator raised %s: %s on admissible input' % (type(e).__name__, e), dict(rp, error=repr(e))); continue
                    lv = ne if level is None else level
                    basis = [mask(d) for d in st._iterate_basis_(np.asarray(ref), lv, spin)]
                    add('number_preserving_sparse_operator', '(det_basis_ok %s %s %s %s %s && fock_matrix_ok %s %s %s)' % (cnat(n), cN(mask(ref)), cnat(lv), cbool(spin), cNl(basis), cNl(basis), coq_fop(op), cmat(np.asarray(M.todense()).tolist())),
                        rp, key=(n, ref, level, spin, repr(op.terms)))
    res = coq_eval_bools(ctx, 'c10', IMPORTS, items, chunk=40)
    judge(ctx, res, meta, 'C10')
