"""C11: Givens decompositions reconstruct their input."""
import itertools, math, cmath
from fractions import Fraction
import numpy as np
from ..core import *
from .c04 import judge

IMPORTS = 'From OFV Require Import Base.Cplx Base.Mat Model.Givens Check.GivensCheck.\n'
NEEDS = ['Thm/C11/Schedules', 'Thm/C11/SchedulesF', 'Check/GivensCheck']
LEVEL = 'translation_validation'
EPS2 = cQ(Fraction(1, 10 ** 16)); EPS = cQ(Fraction(1, 10 ** 8))
def cvec(v): return '(' + clist([cC(complex(x)) for x in v]) + ' : vec)'
def cmat(M): return '(' + clist([cvec(r) for r in np.asarray(M).tolist()]) + ' : mat)'
def crot(op):
    i, j, th, ph = op
    return '(mkrot %s %s %s %s %s)' % (cnat(int(i)), cnat(int(j)), cC(math.cos(th)), cC(math.sin(th)), cC(cmath.exp(1j * ph)))
def crots(layers): return '(' + clist([crot(op) for layer in layers for op in layer]) + ' : list rot)'
def cpairs(layers): return '(' + clist(['(' + clist(['(%s, %s)' % (cnat(int(op[0])), cnat(int(op[1]))) for op in layer if not isinstance(op, str)]) + ' : list (nat * nat))' for layer in layers]) + ' : list (list (nat * nat)))'

def haar(rs, n):
    z = (rs.randn(n, n) + 1j * rs.randn(n, n)) / math.sqrt(2)
    q, r = np.linalg.qr(z); d = np.diag(r); return q * (d / np.abs(d))
def structured_unitaries(rng, rs, n):
    out = [('identity', np.eye(n, dtype=complex))]
    perm = list(range(n)); rng.shuffle(perm)
    out.append(('permutation', np.eye(n, dtype=complex)[perm]))
    out.append(('phase_permutation', np.eye(n, dtype=complex)[perm] * np.array([rng.choice([1, -1, 1j, -1j]) for _ in range(n)])[:, None]))
    q, _ = np.linalg.qr(rs.randn(n, n)); out.append(('real_orthogonal', q.astype(complex)))
    if n >= 2:
        k = rng.randint(1, n - 1); B = np.zeros((n, n), dtype=complex); B[:k, :k] = haar(rs, k); B[k:, k:] = haar(rs, n - k); out.append(('block_diagonal', B))
        G = np.eye(n, dtype=complex); i = rng.randrange(n - 1); G[i, i] = 0.6; G[i + 1, i + 1] = 0.6; G[i, i + 1] = -0.8; G[i + 1, i] = 0.8; out.append(('single_rotation', G))
        out.append(('reversal', np.eye(n, dtype=complex)[::-1]))
    out.append(('haar', haar(rs, n)))
    return out
def bogoliubov_structured(rng, rs, n):
    out = [('zero_left_block', np.hstack([np.zeros((n, n)), haar(rs, n)])), ('zero_right_block', np.hstack([haar(rs, n), np.zeros((n, n))])),
           ('identity_right', np.hstack([np.zeros((n, n)), np.eye(n)]).astype(complex))]
    if n >= 2:
        W1 = np.zeros((n, n), dtype=complex); W2 = np.eye(n, dtype=complex)
        a, b = n - 2, n - 1
        W2[a, a] = W2[b, b] = 0.6; W1[a, b] = 0.8; W1[b, a] = -0.8
        out.append(('pairing_rotation_last_two', np.hstack([W1, W2])))
        W1 = np.zeros((n, n), dtype=complex); W2 = np.eye(n, dtype=complex)
        W2[0, 0] = W2[1, 1] = 0.8; W1[0, 1] = 0.6; W1[1, 0] = -0.6
        out.append(('pairing_rotation_first_two', np.hstack([W1, W2])))
    return out

def run(ctx):
    from ..impl import of
    from openfermion.linalg.givens_rotations import givens_decomposition, givens_decomposition_square, fermionic_gaussian_decomposition
    rng = ctx.rng; rs = np.random.RandomState(ctx.seed + 11)
    items, meta = [], []
    def add(part, expr, replay, key=None):
        items.append(expr); meta.append((part, replay)); ctx.count(part, 1, nontrivial_key=key)
    N = (lambda q, t: q if ctx.quick else t)
    nmax = N(5, 8)
    # ---- square unitaries: Q = D U, schedule structure, correspondence of the schedule with always_insert
    for n in range(1, nmax + 1):
        for name, Q in structured_unitaries(rng, rs, n) + [('haar', haar(rs, n)) for _ in range(N(1, 3))]:
            rp = {'call': 'givens_decomposition_square', 'kind': name, 'matrix': repr(np.round(Q, 12).tolist())}
            try:
                dec, D = givens_decomposition_square(Q)
            except Exception as e:
                ctx.violation('C11 givens_decomposition_square raised %s: %s' % (type(e).__name__, e), rp); continue
            add('square', '(square_ok %s %s %s %s %s && layers_ok %d %s)' % (EPS2, EPS, cmat(Q), crots(dec), cvec(D), max(2 * (n - 1) - 1, 0), cpairs(dec)), rp, key=(n, name, repr(np.round(Q, 9).tolist())))
            if n > N(5, 6): continue      # always_insert applies all n(n-1)/2 rotations: exact reconstruction beyond 6 x 6 exceeds the evaluation budget
            dec2, D2 = givens_decomposition_square(Q, always_insert=True)
            add('square_always_insert', '(square_ok %s %s %s %s %s)' % (EPS2, EPS, cmat(Q), crots(dec2), cvec(D2)), dict(rp, always_insert=True), key=('ai', n, name, repr(np.round(Q, 9).tolist())))
            add('square_schedule', '(let a := %s in let b := pairs_of_square %s in forallb (fun xy => forallb (fun pq => entry_eqb (fst pq) (snd pq)) (combine (fst xy) (snd xy)) && Nat.eqb (length (fst xy)) (length (snd xy))) (combine a (filter (fun l => negb (Nat.eqb (length l) 0)) b)) && Nat.eqb (length a) (length (filter (fun l => negb (Nat.eqb (length l) 0)) b)))' % (cpairs(dec2), cnat(n)),
                {'call': 'givens_decomposition_square(always_insert=True) schedule', 'n': n, 'kind': name}, key=('s', n, name))
    # ---- m x n isometries: V Q U^dagger = (D | 0)
    for n in range(1, nmax + 1):
        for m in range(1, n + 1):
            mats = [(nm, U[:m, :]) for nm, U in structured_unitaries(rng, rs, n)]
            if ctx.quick: mats = [x for x in mats if rng.random() < 0.6]
            for name, Q in mats:
                rp = {'call': 'givens_decomposition', 'shape': [m, n], 'kind': name, 'matrix': repr(np.round(Q, 12).tolist())}
                try:
                    dec, V, D = givens_decomposition(Q)
                except Exception as e:
                    ctx.violation('C11 givens_decomposition raised %s: %s' % (type(e).__name__, e), rp); continue
                add('isometry', '(givens_ok %s %s %s %s %s %s && layers_ok %d %s)' % (EPS2, EPS, cmat(Q), cmat(V), crots(dec), cvec(D), n - 1 if m < n else 0, cpairs(dec)), rp, key=(m, n, name, repr(np.round(Q, 9).tolist())))
                if m < n and n <= N(5, 6):
                    dec2, V2, D2 = givens_decomposition(Q, always_insert=True)
                    add('isometry_always_insert', '(givens_ok %s %s %s %s %s %s)' % (EPS2, EPS, cmat(Q), cmat(V2), crots(dec2), cvec(D2)), dict(rp, always_insert=True), key=('ai', m, n, name, repr(np.round(Q, 9).tolist())))
                    add('isometry_schedule', '(let a := %s in let b := filter (fun l => negb (Nat.eqb (length l) 0)) (pairs_of_rect %s %s) in Nat.eqb (length a) (length b) && forallb (fun xy => Nat.eqb (length (fst xy)) (length (snd xy)) && forallb (fun pq => entry_eqb (fst pq) (snd pq)) (combine (fst xy) (snd xy))) (combine a b))' % (cpairs(dec2), cnat(m), cnat(n)),
                        {'call': 'givens_decomposition(always_insert=True) schedule', 'shape': [m, n], 'kind': name}, key=('s', m, n, name))
    # ---- N x 2N Bogoliubov matrices: V W U^dagger = (0 | D)
    for n in range(1, N(5, 7)):
        mats = bogoliubov_structured(rng, rs, n)
        for _ in range(N(2, 5)):
            # admissible random matrices from a random quadratic Hamiltonian
            M = rs.randn(n, n) + 1j * rs.randn(n, n); M = M + M.conj().T
            Dl = rs.randn(n, n) + 1j * rs.randn(n, n); Dl = Dl - Dl.T
            if rng.random() < 0.4: M = np.diag(rs.randn(n)).astype(complex)
            if rng.random() < 0.3: Dl[:, 0] = 0; Dl[0, :] = 0
            _, W, _ = of.QuadraticHamiltonian(M, Dl).diagonalizing_bogoliubov_transform()
            if W.shape == (n, 2 * n): mats.append(('from_quadratic_hamiltonian', W))
        for name, W in mats:
            rp = {'call': 'fermionic_gaussian_decomposition', 'n': n, 'kind': name, 'matrix': repr(np.round(W, 12).tolist())}
            try:
                dec, ldec, D, LD = fermionic_gaussian_decomposition(W)
            except Exception as e:
                ctx.violation('C11 fermionic_gaussian_decomposition raised %s: %s on an admissible matrix' % (type(e).__name__, e), rp); continue
            ops = '(' + clist(['Pht' if isinstance(op, str) else '(Dbl %s)' % crot(op) for layer in dec for op in layer]) + ' : list gop)'
            add('bogoliubov', '(gaussian_ok %s %s %s %s %s %s %s %s && layers_ok %d %s)' % (EPS2, EPS, cnat(n), cmat(W), ops, crots(ldec), cvec(D), cvec(LD), 2 * n - 1, cpairs(dec)),
                rp, key=(n, name, repr(np.round(W, 9).tolist())))
    ctx.sample({'part': 'isometry', 'note': 'identity, permutation, phase permutation, real orthogonal, block diagonal, single rotation, reversal and Haar-random inputs for every shape m <= n <= %d' % nmax})
    res = coq_eval_bools(ctx, 'c11', IMPORTS, items, chunk=20)
    judge(ctx, res, meta, 'C11')
