"""C12: quadratic Hamiltonians are diagonalised and Gaussian states are eigenstates."""
import itertools, math
from fractions import Fraction
import numpy as np
from ..core import *
from ..ops import *
from .c04 import judge

IMPORTS = ('From OFV Require Import Base.Cplx Base.Lin Base.Mat Sem.FermiSem Model.SymbolicOp Model.LadderOp Check.OpEquiv Check.MatrixOf Check.Quadratic.\n')
NEEDS = ['Check/Quadratic', 'Thm/C12/DiagSpectrum']
LEVEL = 'translation_validation'
T2 = cQ(Fraction(1, 10 ** 16))
def cvec(v): return '(' + clist([cC(complex(x)) for x in np.asarray(v).reshape(-1)]) + ' : vec)'
def cmat(M): return '(' + clist([cvec(r) for r in np.asarray(M)]) + ' : mat)'

def rand_qh(of, rng, rs, n, force=None):
    kind = force or rng.choice(['conserving_real', 'conserving_complex', 'spin_block', 'half_block', 'chain', 'sign_sparse', 'diagonal', 'degenerate', 'pairing_real', 'pairing_complex', 'bcs_diagonal', 'pairing_sparse', 'paired_plus_block', 'paired_plus_block'])
    M = np.zeros((n, n), dtype=complex); D = np.zeros((n, n), dtype=complex)
    def herm(cplx): 
        A = rs.randn(n, n) + (1j * rs.randn(n, n) if cplx else 0); return (A + A.conj().T) / 2
    def anti(cplx):
        A = rs.randn(n, n) + (1j * rs.randn(n, n) if cplx else 0); return (A - A.T) / 2
    if kind == 'conserving_real': M = herm(False).astype(complex)
    elif kind == 'conserving_complex': M = herm(True)
    elif kind == 'spin_block':
        M = herm(rng.random() < 0.5).astype(complex)
        for p in range(n):
            for q in range(n):
                if (p + q) % 2: M[p, q] = 0
    elif kind == 'half_block':
        # block diagonal in (first half, second half) - the structure the implementation's spin-block shortcut looks for
        M = herm(rng.random() < 0.5).astype(complex); h = n // 2
        M[:h, h:] = 0; M[h:, :h] = 0
    elif kind == 'chain':
        # tight-binding chain / ring with hopping of either sign, optional staggered on-site energies
        t = rng.choice([-1.0, -0.5, 1.0, 2.0, -2.0])
        for p in range(n - 1): M[p, p + 1] = M[p + 1, p] = t
        if n > 2 and rng.random() < 0.5: M[0, n - 1] = M[n - 1, 0] = t
        if rng.random() < 0.4:
            for p in range(n): M[p, p] = rng.choice([0.0, 0.5, -0.5]) * (-1) ** p
    elif kind == 'sign_sparse':
        # few off-diagonal entries, all of one sign (so that max and max-of-abs differ), many exact zeros
        sg = rng.choice([-1.0, 1.0])
        for _ in range(rng.randint(1, n)):
            p, q = rng.sample(range(n), 2) if n >= 2 else (0, 0)
            if p != q: M[p, q] = M[q, p] = sg * rng.choice([0.5, 1.0, 1.5])
        for p in range(n): M[p, p] = rng.choice([0.0, 0.0, 1.0, -1.0])
    elif kind == 'diagonal': M = np.diag([float(rng.choice([-2, -1, -0.5, 0.5, 1, 3])) for _ in range(n)]).astype(complex)
    elif kind == 'degenerate': M = np.diag([float(rng.choice([-1, 1])) for _ in range(n)]).astype(complex)
    elif kind == 'pairing_real': M = herm(False).astype(complex); D = anti(False).astype(complex)
    elif kind == 'pairing_complex': M = herm(True); D = anti(True)
    elif kind == 'paired_plus_block' and n >= 3:
        # pairing confined to the first k modes; the remaining >= 2 modes form a decoupled number-conserving (complex) hopping block,
        # so several Bogoliubov rows have no weight in one ladder-operator block (rank-deficient left block of the decomposition)
        k = (2 if n >= 5 else rng.choice([1, 2])) if n >= 4 else 1
        cplx = rng.random() < 0.8
        M = herm(cplx).astype(complex); M[:k, k:] = 0; M[k:, :k] = 0
        A = anti(cplx).astype(complex); D[:k, :k] = A[:k, :k]
        if k == 1: M[0, 0] = M[0, 0].real
        if k == 1 and n >= 4 and rng.random() < 0.5:
            M[:2, 2:] = 0; M[2:, :2] = 0; D[0, 1] = A[0, 1]; D[1, 0] = -A[0, 1]
    elif kind == 'bcs_diagonal':
        M = np.diag([float(rng.choice([0.0, 0.5, 1.0, -1.0])) for _ in range(n)]).astype(complex)
        if n >= 2:
            p, q = rng.sample(range(n), 2); D[p, q] = 0.5; D[q, p] = -0.5
    else:
        M = herm(False).astype(complex)
        if n >= 2:
            p, q = rng.sample(range(n), 2); D[p, q] = rs.randn(); D[q, p] = -D[p, q]
    mu = rng.choice([0.0, 0.0, 0.7, -0.3]); c = rng.choice([0.0, 1.25, -2.0])
    return kind, of.QuadraticHamiltonian(M, D if np.any(D) or rng.random() < 0.2 else None, c, mu)

def run(ctx):
    from ..impl import of
    from openfermion.circuits.slater_determinants import jw_get_gaussian_state, jw_slater_determinant
    rng = ctx.rng; rs = np.random.RandomState(ctx.seed + 12)
    items, meta = [], []
    def add(part, expr, replay, key=None):
        items.append(expr); meta.append((part, replay)); ctx.count(part, 1, nontrivial_key=key)
    N = (lambda q, t: q if ctx.quick else t)
    for i in range(N(40, 300)):
        n = rng.choice([1, 2, 3, 4] if ctx.quick else [1, 2, 3, 4, 4, 5])
        kind, qh = rand_qh(of, rng, rs, n)
        if i % 8 == 7:
            # five modes: a paired pair next to a three-mode hopping block (smallest size with a left block rank-deficient by two)
            n = 5; kind, qh = rand_qh(of, rng, rs, n, force='paired_plus_block')
        H = of.get_fermion_operator(qh)
        rp = {'kind': kind, 'n': n, 'M': repr(np.round(qh.hermitian_part, 12).tolist()), 'Delta': repr(None if qh.antisymmetric_part is None else np.round(qh.antisymmetric_part, 12).tolist()),
              'chemical_potential': qh.chemical_potential, 'constant': qh.constant}
        try:
            eps, W, const = qh.diagonalizing_bogoliubov_transform()
        except Exception as e:
            ctx.violation('C12 diagonalizing_bogoliubov_transform raised %s: %s' % (type(e).__name__, e), rp); continue
        add('bogoliubov_transform', '(canonical_constraints %s %s %s && bogoliubov_ok %s %s %s %s %s %s)' % (T2, cnat(n), cmat(W), T2, cnat(n), coq_fop(H), cmat(W), cvec(eps), cC(const)),
            dict(rp, call='diagonalizing_bogoliubov_transform'), key=(kind, repr(rp)))
        # spectrum = subset sums; ground energy = minimum (numerical, dense)
        if n <= 4:
            Hm = of.get_sparse_operator(H, n).toarray()
            ev = np.sort(np.linalg.eigvalsh(Hm))
            sums = np.sort([const + sum(eps[j] for j in S) for r in range(n + 1) for S in itertools.combinations(range(n), r)])
            ctx.count('spectrum_numeric', 1, nontrivial_key=repr(rp))
            if not np.allclose(ev, sums, atol=1e-7): ctx.violation('C12 spectrum: subset sums of the orbital energies differ from the many-body spectrum', dict(rp, spectrum=ev.tolist(), subset_sums=sums.tolist()))
            if abs(qh.ground_energy() - ev[0]) > 1e-7: ctx.violation('C12 ground_energy differs from the lowest eigenvalue', dict(rp, ground_energy=float(qh.ground_energy()), lowest=float(ev[0])))
        # the same object, changed after it has been diagonalised once (chemical potential, in-place scaling): everything derived from
        # it must follow the change
        if n <= 4 and i % 2 == 0:
            import copy as _copy
            q2 = _copy.deepcopy(qh); _ = q2.diagonalizing_bogoliubov_transform(); _ = q2.ground_energy()
            dmu = rng.choice([0.4, -0.7]); q2.add_chemical_potential(dmu)
            if rng.random() < 0.5: q2 *= 2.0
            try:
                e2, W2, c2 = q2.diagonalizing_bogoliubov_transform()
                H2m = of.get_sparse_operator(of.get_fermion_operator(q2), n).toarray(); ev2 = np.sort(np.linalg.eigvalsh(H2m))
                sums2 = np.sort([c2 + sum(e2[j] for j in S) for r in range(n + 1) for S in itertools.combinations(range(n), r)])
                ctx.count('spectrum_after_change', 1, nontrivial_key=repr(rp))
                if not np.allclose(ev2, sums2, atol=1e-7) or abs(q2.ground_energy() - ev2[0]) > 1e-7:
                    ctx.violation('C12 after add_chemical_potential / scaling of an already diagonalised QuadraticHamiltonian the orbital energies no longer generate its spectrum', dict(rp, added_chemical_potential=dmu))
                E2, psi2 = jw_get_gaussian_state(q2)
                if np.linalg.norm(H2m @ psi2 - E2 * psi2) > 1e-6 or abs(E2 - ev2[0]) > 1e-7:
                    ctx.violation('C12 after add_chemical_potential / scaling of an already diagonalised QuadraticHamiltonian jw_get_gaussian_state is not its ground state', dict(rp, added_chemical_potential=dmu))
            except Exception as e:
                ctx.violation('C12 changed QuadraticHamiltonian: %s: %s' % (type(e).__name__, e), dict(rp, added_chemical_potential=dmu))
        A, mc = qh.majorana_form()
        add('majorana_form', '(majorana_form_ok %s %s %s %s %s)' % (T2, cnat(n), coq_fop(H), cmat(A), cC(mc)), dict(rp, call='majorana_form'), key=('m', repr(rp)))
        # Gaussian states: default (ground) and every occupied subset for small n
        if n <= 4:
            occs = [None] + [list(S) for r in range(n + 1) for S in itertools.combinations(range(n), r)]
            if ctx.quick and len(occs) > 6: occs = [None] + rng.sample(occs[1:], 5)
            oe, oc = qh.orbital_energies()
            for occ in occs:
                try:
                    E, psi = jw_get_gaussian_state(qh, occ)
                except Exception as e:
                    ctx.violation('C12 jw_get_gaussian_state raised %s: %s' % (type(e).__name__, e), dict(rp, occupied_orbitals=occ)); continue
                rq = dict(rp, call='jw_get_gaussian_state', occupied_orbitals=occ)
                add('gaussian_state', '(eigen_ok %s %s %s %s %s)' % (T2, cnat(n), coq_fop(H), cvec(psi), cC(float(np.real(E)))), rq, key=(repr(rp), repr(occ)))
                exp = oc + (sum(oe[j] for j in occ) if occ is not None else sum(x for x in oe if x < 0))
                ctx.count('gaussian_energy', 1)
                if abs(E - exp) > 1e-8: ctx.violation('C12 jw_get_gaussian_state: returned energy %r differs from constant + occupied orbital energies %r' % (E, exp), rq)
                if occ is None and abs(E - qh.ground_energy()) > 1e-8: ctx.violation('C12 jw_get_gaussian_state: default occupation does not give the ground energy', rq)
        elif n == 5:
            # five modes: numerical eigen-residual (the exact Coq check is kept to n <= 4)
            Hm = of.get_sparse_operator(H, n).toarray()
            allocc = [list(S) for r in range(n + 1) for S in itertools.combinations(range(n), r)]
            oe, oc = qh.orbital_energies()
            for occ in [None] + rng.sample(allocc, 6):
                rq = dict(rp, call='jw_get_gaussian_state', occupied_orbitals=occ)
                ctx.count('gaussian_state_numeric', 1, nontrivial_key=(repr(rp), repr(occ)))
                try: E, psi = jw_get_gaussian_state(qh, occ)
                except Exception as e:
                    ctx.violation('C12 jw_get_gaussian_state raised %s: %s' % (type(e).__name__, e), rq); continue
                exp = oc + (sum(oe[j] for j in occ) if occ is not None else sum(x for x in oe if x < 0))
                if abs(np.linalg.norm(psi) - 1) > 1e-8 or np.linalg.norm(Hm @ psi - E * psi) > 1e-7 or abs(E - exp) > 1e-8:
                    ctx.violation('C12 jw_get_gaussian_state: the returned state is not a normalised eigenstate with the returned energy (residual %.3g)' % np.linalg.norm(Hm @ psi - E * psi), rq)
    # antisymmetric_canonical_form
    from openfermion.ops.representations.quadratic_hamiltonian import antisymmetric_canonical_form
    for i in range(N(20, 150)):
        n = rng.choice([1, 2, 3])
        A = rs.randn(2 * n, 2 * n); A = A - A.T
        if rng.random() < 0.3: A[0, :] = 0; A[:, 0] = 0
        try:
            can, O = antisymmetric_canonical_form(A)
        except Exception as e:
            ctx.violation('C12 antisymmetric_canonical_form raised %s: %s' % (type(e).__name__, e), {'A': repr(A.tolist())}); continue
        ok_shape = all(abs(can[p, q]) < 1e-8 for p in range(2 * n) for q in range(2 * n) if not (q == p + n or p == q + n))
        ctx.count('antisymmetric_canonical_form_shape', 1)
        if not ok_shape: ctx.violation('C12 antisymmetric_canonical_form: result is not of the block form [[0, diag], [-diag, 0]]', {'A': repr(A.tolist())})
        add('antisymmetric_canonical_form', '(rows_orthonormal %s %s && mat_close %s (mmul (mmul %s %s) (mtrans %s)) %s)' % (T2, cmat(O), T2, cmat(O), cmat(A), cmat(O), cmat(can)), {'call': 'antisymmetric_canonical_form', 'A': repr(np.round(A, 12).tolist())}, key=repr(A.tolist()))
    # Slater determinants: b+_1 .. b+_eta |vac> up to a phase (exact minors, numerically)
    for i in range(N(30, 200)):
        n = rng.choice([1, 2, 3, 4, 4, 5, 5]); eta = rng.randint(1, n)
        if i % 3 == 0: n = rng.choice([4, 5, 6]); eta = rng.randint(2, n - 2)      # layers with several simultaneous rotations
        Z = rs.randn(n, n) + 1j * rs.randn(n, n)
        if rng.random() < 0.3: Z = rs.randn(n, n).astype(complex)
        Qf, _ = np.linalg.qr(Z); Q = Qf[:eta, :] if rng.random() < 0.7 else np.eye(n, dtype=complex)[rng.sample(range(n), eta)]
        psi = jw_slater_determinant(Q)
        ref = np.zeros(2 ** n, dtype=complex)
        for S in itertools.combinations(range(n), eta):
            ref[sum(1 << (n - 1 - j) for j in S)] = np.linalg.det(Q[:, list(S)])
        ov = np.vdot(ref, psi)
        ctx.count('slater_determinant_numeric', 1, nontrivial_key=repr(np.round(Q, 9).tolist()))
        if abs(abs(ov) - 1) > 1e-8 or abs(np.linalg.norm(psi) - 1) > 1e-8:
            ctx.violation('C12 jw_slater_determinant is not b+_1..b+_eta|vac> up to a phase (overlap %r)' % abs(ov), {'Q': repr(np.round(Q, 12).tolist())})
    ctx.sample({'part': 'gaussian_state', 'note': 'H psi = E psi is decided in Coq on the exact Fock matrix of the Hamiltonian and the exact float amplitudes'})
    res = coq_eval_bools(ctx, 'c12', IMPORTS, items, chunk=10, timeout=1500)
    judge(ctx, res, meta, 'C12')
