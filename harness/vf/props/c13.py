"""C13: model Hamiltonian generators produce the documented physical Hamiltonian."""
import itertools
from fractions import Fraction
import numpy as np
from ..core import *
from ..ops import *
from .c04 import judge

IMPORTS = ('From OFV Require Import Base.Cplx Base.Lin Sem.PauliSem Sem.FermiSem Sem.BoseSem Model.SymbolicOp Model.QubitOp Model.LadderOp Model.JordanWigner '
           'Model.Hubbard Model.Conjugate Check.DictEquiv Check.OpEquiv Check.Commutator Thm.C07.Adjoint.\n')
NEEDS = ['Thm/C13/Bonds', 'Thm/C13/BondsF', 'Thm/C13/BondsG', 'Thm/C13/GenTie', 'Check/OpEquiv']
EPS2 = cQ(Fraction(1, 10 ** 18))

def number_op(n): return {((j, 1), (j, 0)): 1.0 for j in range(n)}
def sz_op(n): return {((j, 1), (j, 0)): (0.5 if j % 2 == 0 else -0.5) for j in range(n)}

def run(ctx):
    from ..impl import of
    from openfermion.hamiltonians import (fermi_hubbard, bose_hubbard, mean_field_dwave, FermiHubbardModel, RichardsonGaudin,
                                          jellium_model, dual_basis_jellium_model, jordan_wigner_dual_basis_jellium, plane_wave_hamiltonian)
    from openfermion.utils.lattice import HubbardSquareLattice
    from openfermion.hamiltonians import hubbard as hub
    rng = ctx.rng
    items, meta = [], []
    def add(part, expr, replay, key=None):
        items.append(expr); meta.append((part, replay)); ctx.count(part, 1, nontrivial_key=key)
    N = (lambda q, t: q if ctx.quick else t)
    dims = list(itertools.product(range(1, N(4, 6)), repeat=2)) + ([(1, 6), (6, 1), (2, 5), (5, 2)] if ctx.quick else [])
    # ---- neighbour enumeration vs the transcription, and Hubbard Hamiltonians vs the edge-list specification
    for x, y in dims:
        for periodic in (True, False):
            rows = []
            for s in range(x * y):
                r, b = hub._right_neighbor(s, x, y, periodic), hub._bottom_neighbor(s, x, y, periodic)
                opt = lambda v: '(@None nat)' if v is None else '(Some %s)' % cnat(v)
                rows.append('(match right_neighbor %s %s %s %s, %s with Some a, Some b => Nat.eqb a b | None, None => true | _, _ => false end && match bottom_neighbor %s %s %s %s, %s with Some a, Some b => Nat.eqb a b | None, None => true | _, _ => false end)' %
                            (cnat(s), cnat(x), cnat(y), cbool(periodic), opt(r), cnat(s), cnat(x), cnat(y), cbool(periodic), opt(b)))
            add('neighbors', '(forallb (fun b : bool => b) %s)' % clist(rows), {'call': '_right_neighbor/_bottom_neighbor', 'x': x, 'y': y, 'periodic': periodic}, key=(x, y, periodic))
            for spinless, ph in itertools.product((True, False), repeat=2):
                if x * y * (1 if spinless else 2) > N(18, 24): continue
                t, U, mu, h = (float(dy(rng) or 1.0) for _ in range(4))
                if spinless: h = 0.0
                H = fermi_hubbard(x, y, t, U, mu, h, periodic, spinless, ph)
                n = x * y * (1 if spinless else 2)
                spec = ('hubbard_spinless_spec (spec_edges %s %s %s) %s %s %s %s %s' % (cnat(x), cnat(y), cbool(periodic), cnat(x * y), cC(t), cC(U), cC(mu), cbool(ph)) if spinless else
                        'hubbard_spinful_spec (spec_edges %s %s %s) %s %s %s %s %s %s' % (cnat(x), cnat(y), cbool(periodic), cnat(x * y), cC(t), cC(U), cC(mu), cC(h), cbool(ph)))
                cons = 'fcomm_zero %s %s' % (coq_fop(H), coq_fop_terms(number_op(n)))
                if not spinless: cons += ' && fcomm_zero %s %s' % (coq_fop(H), coq_fop_terms(sz_op(n)))
                add('fermi_hubbard', '(fermi_equiv %s (%s) && fermi_equiv %s (hc_map %s) && %s)' % (coq_fop(H), spec, coq_fop(H), coq_fop(H), cons),
                    {'call': 'fermi_hubbard', 'args': [x, y, t, U, mu, h, periodic, spinless, ph]}, key=(x, y, periodic, spinless, ph))
                if (not ph) or (mu == 0 and h == 0) or True:
                    # particle-hole convention of the general model replaces every n by n - 1/2 (also in
                    # the potential / field terms), fermi_hubbard only in the interaction: they coincide for mu = h = 0
                    if ph:
                        mu_, h_ = 0.0, 0.0
                        H = fermi_hubbard(x, y, t, U, mu_, h_, periodic, spinless, ph)
                    else: mu_, h_ = mu, h
                    lat = HubbardSquareLattice(x, y, periodic=periodic, spinless=spinless)
                    G = FermiHubbardModel(lat, tunneling_parameters=(('neighbor', (0, 0), t),), interaction_parameters=(('neighbor' if spinless else 'onsite', (0, 0), U),),
                                          potential_parameters=((0, mu_),), magnetic_field=h_, particle_hole_symmetry=ph).hamiltonian()
                    add('general_hubbard', '(fermi_equiv %s %s)' % (coq_fop(G), coq_fop(H)), {'call': 'FermiHubbardModel vs fermi_hubbard', 'args': [x, y, t, U, mu_, h_, periodic, spinless, ph]}, key=(x, y, periodic, spinless, ph))
            if x * y <= 6:
                t, U, mu, V = (float(dy(rng) or 1.0) for _ in range(4))
                B = bose_hubbard(x, y, t, U, mu, V, periodic)
                add('bose_hubbard', '(bose_equiv_on bapply1 %s 2 %s (bose_hubbard_spec (spec_edges %s %s %s) %s %s %s %s %s))' %
                    (cnat(x * y), coq_fop_terms(B.terms), cnat(x), cnat(y), cbool(periodic), cnat(x * y), cC(t), cC(U), cC(mu), cC(V)),
                    {'call': 'bose_hubbard', 'args': [x, y, t, U, mu, V, periodic]}, key=(x, y, periodic))
            if x * y <= 12:
                t, delta, mu = (float(dy(rng) or 1.0) for _ in range(3))
                D = mean_field_dwave(x, y, t, delta, mu, periodic)
                add('mean_field_dwave', '(fermi_equiv %s (dwave_spec %s %s %s %s %s %s) && fermi_equiv %s (hc_map %s))' % (coq_fop(D), cnat(x), cnat(y), cbool(periodic), cC(t), cC(delta), cC(mu), coq_fop(D), coq_fop(D)),
                    {'call': 'mean_field_dwave', 'args': [x, y, t, delta, mu, periodic]}, key=(x, y, periodic))
    # ---- multi-band FermiHubbardModel against the docstring Hamiltonian assembled here from coordinates
    from openfermion.utils.lattice import SpinPairs, Spin
    def nbr_pairs(x, y, periodic):
        out = []
        for cy in range(y):
            for cx in range(x):
                if cx + 1 < x: out.append(((cx, cy), (cx + 1, cy)))
                elif periodic and x > 2: out.append(((cx, cy), (0, cy)))
                if cy + 1 < y: out.append(((cx, cy), (cx, cy + 1)))
                elif periodic and y > 2: out.append(((cx, cy), (cx, 0)))
        return out
    for _ in range(N(40, 300)):
        x, y = rng.choice([(1, 2), (2, 1), (2, 2), (1, 3), (3, 1), (2, 3), (3, 2)]); periodic = rng.random() < 0.5; spinless = rng.random() < 0.4; k = rng.choice([1, 2, 2])
        if x * y * k * (1 if spinless else 2) > 16: continue
        lat = HubbardSquareLattice(x, y, n_dofs=k, periodic=periodic, spinless=spinless)
        spins = [None] if spinless else [Spin.UP, Spin.DOWN]
        so = lambda site, a, s: lat.to_spin_orbital_index(lat.to_site_index(site), a, 0 if s is None else s)
        sites = [(cx, cy) for cy in range(y) for cx in range(x)]; nb = nbr_pairs(x, y, periodic)
        spec = {}
        def addt(t, c):
            if c != 0: spec[t] = spec.get(t, 0) + c
        def hopp(i, j, c): addt(((i, 1), (j, 0)), c); addt(((j, 1), (i, 0)), c)
        def nn(i, j, c): addt(((i, 1), (i, 0), (j, 1), (j, 0)), c)
        tun, inter, pot = [], [], []
        dofp = [(a, b) for a in range(k) for b in range(a, k)]
        for et in ('onsite', 'neighbor'):
            for a, b in dofp:
                if et == 'onsite' and a == b: continue
                if rng.random() < 0.6:
                    c = float(dy(rng) or 1.0); tun.append((et, (a, b), c))
                    pairs = [(s, s) for s in sites] if et == 'onsite' else (nb if a == b else nb + [(j, i) for i, j in nb])
                    for i, j in pairs:
                        for s in spins: hopp(so(i, a, s), so(j, b, s), -c)
        for et in ('onsite', 'neighbor'):
            for a, b in dofp:
                if spinless and et == 'onsite' and a == b: continue
                if rng.random() < 0.6:
                    c = float(dy(rng) or 1.0)
                    sp = SpinPairs.ALL if spinless else rng.choice([SpinPairs.SAME, SpinPairs.DIFF, SpinPairs.ALL])
                    if et == 'onsite' and a == b: sp = SpinPairs.DIFF
                    inter.append((et, (a, b), c, sp))
                    pairs = [(s, s) for s in sites] if et == 'onsite' else (nb if a == b else nb + [(j, i) for i, j in nb])
                    for i, j in pairs:
                        if spinless: nn(so(i, a, None), so(j, b, None), c); continue
                        if et == 'onsite' and a == b: nn(so(i, a, Spin.UP), so(i, a, Spin.DOWN), c); continue
                        for s1 in spins:
                            for s2 in spins:
                                if (sp == SpinPairs.SAME and s1 != s2) or (sp == SpinPairs.DIFF and s1 == s2): continue
                                nn(so(i, a, s1), so(j, b, s2), c)
        for a in range(k):
            if rng.random() < 0.6:
                c = float(dy(rng) or 1.0); pot.append((a, c))
                for i in sites:
                    for s in spins: addt(((so(i, a, s), 1), (so(i, a, s), 0)), -c)
        hfield = 0.0 if spinless else float(rng.choice([0.0, 0.5, -1.25]))
        if hfield:
            for i in sites:
                for a in range(k):
                    addt(((so(i, a, Spin.UP), 1), (so(i, a, Spin.UP), 0)), -hfield); addt(((so(i, a, Spin.DOWN), 1), (so(i, a, Spin.DOWN), 0)), hfield)
        try:
            G = FermiHubbardModel(lat, tunneling_parameters=tun, interaction_parameters=inter, potential_parameters=pot, magnetic_field=hfield).hamiltonian()
        except Exception as e:
            ctx.violation('C13 general_hubbard_multiband: %s: %s' % (type(e).__name__, e), {'call': 'FermiHubbardModel', 'lattice': [x, y, k, periodic, spinless], 'tunneling': tun, 'interaction': repr(inter), 'potential': pot}); continue
        n = lat.n_spin_orbitals
        add('general_hubbard_multiband', '(fermi_equiv %s %s && fermi_equiv %s (hc_map %s) && fcomm_zero %s %s)' % (coq_fop(G), coq_fop_terms(spec), coq_fop(G), coq_fop(G), coq_fop(G), coq_fop_terms(number_op(n))),
            {'call': 'FermiHubbardModel (multi-band) vs docstring Hamiltonian', 'lattice': [x, y, k, periodic, spinless], 'tunneling': tun, 'interaction': repr(inter), 'potential': pot, 'magnetic_field': hfield},
            key=(x, y, k, periodic, spinless, repr(tun), repr(inter), repr(pot)))
    ctx.sample({'part': 'fermi_hubbard', 'example': str(fermi_hubbard(2, 2, 1.0, 2.0, 0.5, 0.25, True, False, False))[:400]})
    # ---- RichardsonGaudin: sum_p 2(p+1) N_p + g/2 sum_{p<q} (X_p X_q + Y_p Y_q)
    for n in range(1, N(6, 9)):
        g = float(dy(rng) or 0.5)
        q = RichardsonGaudin(g, n).qubit_operator
        spec = {(): float(sum(p + 1 for p in range(n)))}
        for p in range(n): spec[((p, 'Z'),)] = -float(p + 1)
        for p, r in itertools.combinations(range(n), 2):
            spec[((p, 'X'), (r, 'X'))] = g / 2; spec[((p, 'Y'), (r, 'Y'))] = g / 2
        zsum = {((p, 'Z'),): 1.0 for p in range(n)}
        add('richardson_gaudin', '(pauli_equiv %s %s && qcomm_zero %s %s)' % (coq_qop(q), coq_qop_terms(spec), coq_qop(q), coq_qop_terms(zsum)), {'call': 'RichardsonGaudin', 'g': g, 'n_qubits': n}, key=n)
    # ---- jellium family (float coefficients): structure, constants, equivalent constructions
    def dual_spec(A, lengths, grid, spinless, non_periodic=False, period_cutoff=None):
        """dual-basis jellium of arXiv:1706.00023 built from the cell matrix A (cell vectors = columns) alone:
        sum_{a,b,s} T(b-a) a+_{a s} a_{b s} + sum_{(a,s) != (b,s')} V(b-a) n_{a s} n_{b s'}, with
        T(d) = sum_{k != 0} k^2 cos(k.r_d) / (2N), V(d) = (2 pi / Omega) sum_{k != 0} cos(k.r_d) / k^2,
        k_v = sum_i (v_i - N_i // 2) B[:, i], B = 2 pi (A^-1)^T, k_v . r_d = 2 pi sum_i (v_i - N_i // 2) d_i / N_i"""
        import numpy as np
        dimn = len(lengths); Np = int(np.prod(lengths)); B = 2 * np.pi * np.linalg.inv(A).T; omega = abs(np.linalg.det(A))
        pts = list(itertools.product(*[range(L) for L in lengths]))
        ks = [(v, sum((v[i] - lengths[i] // 2) * B[:, i] for i in range(dimn))) for v in pts]
        spins = [None] if spinless else [0, 1]
        d = {}
        for a in pts:
            for b in pts:
                T = V = 0.0
                for v, k in ks:
                    k2 = float(k.dot(k))
                    if k2 == 0: continue
                    ph = 2 * np.pi * sum((v[i] - lengths[i] // 2) * (b[i] - a[i]) / lengths[i] for i in range(dimn))
                    fac = 1.0
                    if non_periodic: fac = 1.0 - np.cos((period_cutoff if period_cutoff is not None else omega ** (1.0 / dimn)) * np.sqrt(k2))   # truncated Coulomb kernel of the docstring option
                    T += k2 * np.cos(ph) / (2.0 * Np); V += fac * (2 * np.pi / omega) * np.cos(ph) / k2
                for sa in spins:
                    oa, ob = grid.orbital_id(a, sa), grid.orbital_id(b, sa)
                    d[((oa, 1), (ob, 0))] = d.get(((oa, 1), (ob, 0)), 0.0) + T
                    for sb in spins:
                        ob2 = grid.orbital_id(b, sb)
                        if oa == ob2: continue
                        t = ((oa, 1), (oa, 0), (ob2, 1), (ob2, 0)); d[t] = d.get(t, 0.0) + V
        return d
    import numpy as _np
    grids = [(1, 2, 'f'), (1, 3, 'f'), (1, 4, 'm'), (2, 2, 'f'), (2, 2, 's'), (2, (3, 3), 's'), (2, (2, 3), 's')] + ([] if ctx.quick else [(1, 5, 'f'), (2, 3, 'f'), (3, 2, 'f'), (2, (3, 4), 's'), (3, 2, 's'), (2, (4, 2), 'd')])
    for dim, length, kind in grids:
        for spinless in (True, False):
            if kind == 'f': scale = rng.choice([1.0, 2.0, 0.75])
            elif kind == 'm': scale = _np.array([[rng.choice([1.5, 2.0])]])
            elif kind == 'd': scale = _np.diag([rng.choice([1.0, 1.5, 2.0]) for _ in range(dim)])
            else:
                # sheared, non-symmetric cell
                scale = _np.diag([rng.choice([1.0, 1.25, 2.0]) for _ in range(dim)]).astype(float)
                scale[0, 1] = rng.choice([0.5, 0.25, -0.5])
                if dim == 3: scale[1, 2] = rng.choice([0.5, -0.25])
            grid = of.Grid(dim, length, scale)
            nq = grid.num_points * (1 if spinless else 2)
            if nq > N(9, 12): continue
            lengths = list(grid.length)
            A = scale * _np.eye(dim) if isinstance(scale, float) else scale
            # geometry: position vectors are combinations of the COLUMNS of the cell matrix; reciprocal relation
            geo_ok = True
            for m in itertools.product(*[range(L) for L in lengths]):
                r = sum(((m[i] - lengths[i] // 2) / lengths[i]) * A[:, i] for i in range(dim))
                if not _np.allclose(grid.position_vector(m), r, atol=1e-12): geo_ok = False
                for v in itertools.product(*[range(L) for L in lengths]):
                    want = 2 * _np.pi * sum((v[i] - lengths[i] // 2) * (m[i] - lengths[i] // 2) / lengths[i] for i in range(dim))
                    if abs(float(grid.momentum_vector(v).dot(grid.position_vector(m))) - want) > 1e-9: geo_ok = False
            ctx.count('grid_geometry', 1, nontrivial_key=(dim, repr(length), kind))
            if not geo_ok:
                ctx.violation('C13 grid_geometry: position / momentum vectors do not satisfy r_m = sum_i (m_i - s_i)/N_i A[:, i], k_v . r_m = 2 pi sum_i (v_i - s_i)(m_i - s_i)/N_i',
                              {'call': 'Grid.position_vector / momentum_vector', 'grid': [dim, repr(length)], 'scale': repr(A.tolist())})
            spec = dual_spec(A, lengths, grid, spinless)
            dualm = jellium_model(grid, spinless, False, False)
            add('dual_basis_docstring', '(fermi_close %s %s %s)' % (EPS2, coq_fop(of.normal_ordered(dualm)), coq_fop(of.normal_ordered(mk_fermion(of, spec)))),
                {'call': 'jellium_model(plane_wave=False) vs arXiv:1706.00023 formula from the cell matrix', 'grid': [dim, repr(length)], 'scale': repr(A.tolist()), 'spinless': spinless}, key=(dim, repr(length), kind, spinless))
            # options: non_periodic (truncated Coulomb kernel, default and explicit period_cutoff) and e_cutoff
            from openfermion.hamiltonians import plane_wave_kinetic
            for rc in (None, 1.5):
                dnp = jellium_model(grid, spinless, False, False, None, True, rc)
                add('dual_basis_docstring_non_periodic', '(fermi_close %s %s %s)' % (EPS2, coq_fop(of.normal_ordered(dnp)), coq_fop(of.normal_ordered(mk_fermion(of, dual_spec(A, lengths, grid, spinless, True, rc))))),
                    {'call': 'jellium_model(plane_wave=False, non_periodic=True)', 'grid': [dim, repr(length), kind], 'scale': repr(A.tolist()), 'spinless': spinless, 'period_cutoff': rc}, key=(dim, repr(length), kind, spinless, rc))
                pnp = jellium_model(grid, spinless, True, False, None, True, rc)
                d24np = (kind == 's' and any(L % 2 == 0 for L in lengths) and any(L > 2 for L in lengths))
                add('fourier_pairing_non_periodic', '(fermi_close %s %s %s)' % (EPS2, coq_fop(of.normal_ordered(of.fourier_transform(pnp, grid, spinless))), coq_fop(of.normal_ordered(dnp))),
                    {'call': 'fourier_transform(jellium plane wave, non_periodic) vs dual basis', 'grid': [dim, repr(length), kind], 'scale': repr(A.tolist()), 'spinless': spinless, 'period_cutoff': rc, 'finding': 'D24' if d24np else None},
                    key=(dim, repr(length), kind, spinless, rc))
            Bm = 2 * _np.pi * _np.linalg.inv(A).T
            k2s = {v: float(sum((v[i] - lengths[i] // 2) * Bm[:, i] for i in range(dim)).dot(sum((v[i] - lengths[i] // 2) * Bm[:, i] for i in range(dim)))) for v in itertools.product(*[range(L) for L in lengths])}
            for ecut in (None, sorted(k2s.values())[len(k2s) // 2] / 2.0 + 1e-6, max(k2s.values()) / 2.0 + 1.0):
                kin = plane_wave_kinetic(grid, spinless, ecut)
                spec_k = {}
                for v, k2 in k2s.items():
                    if ecut is not None and k2 / 2.0 > ecut: continue
                    for sp in ([None] if spinless else [0, 1]):
                        o = grid.orbital_id(v, sp); spec_k[((o, 1), (o, 0))] = spec_k.get(((o, 1), (o, 0)), 0.0) + k2 / 2.0
                add('plane_wave_kinetic_cutoff', '(fermi_close %s %s %s)' % (EPS2, coq_fop(kin), coq_fop_terms({t: c for t, c in spec_k.items() if c != 0})),
                    {'call': 'plane_wave_kinetic', 'grid': [dim, repr(length), kind], 'scale': repr(A.tolist()), 'spinless': spinless, 'e_cutoff': ecut}, key=(dim, repr(length), kind, spinless, ecut))
            madelung = 2.8372 / grid.volume_scale() ** (1.0 / dim)
            for pw in (True, False):
                a = jellium_model(grid, spinless, pw, True); b = jellium_model(grid, spinless, pw, False)
                d = a - b
                okc = (set(d.terms) <= {()} and abs(d.terms.get((), 0.0) - madelung) < 1e-9)
                ctx.count('jellium_constant', 1, nontrivial_key=(dim, repr(length), kind, spinless, pw))
                if not okc:
                    ctx.violation('C13 jellium_constant: include_constant changes the operator by %r instead of the Madelung constant %r once' % (d.terms, madelung),
                                  {'call': 'jellium_model', 'grid': [dim, repr(length)], 'kind': kind, 'spinless': spinless, 'plane_wave': pw})
                add('jellium_structure', '(fermi_close %s %s (hc_map %s) && fcomm_zero %s %s%s)' % (EPS2, coq_fop(b), coq_fop(b), coq_fop(b), coq_fop_terms(number_op(nq)),
                    '' if spinless else ' && fcomm_zero %s %s' % (coq_fop(b), coq_fop_terms(sz_op(nq)))),
                    {'call': 'jellium_model hermitian / conserving', 'grid': [dim, repr(length), kind], 'spinless': spinless, 'plane_wave': pw}, key=(dim, repr(length), kind, spinless, pw))
            for const in (True, False):
                jq = jordan_wigner_dual_basis_jellium(grid, spinless, const)
                fm = jellium_model(grid, spinless, False, const)
                add('jw_dual_basis_jellium', '(fermi_pauli_close %s %s %s)' % (EPS2, coq_fop(fm), coq_qop(jq)),
                    {'call': 'jordan_wigner_dual_basis_jellium vs jordan_wigner(jellium_model(plane_wave=False))', 'grid': [dim, repr(length), kind], 'spinless': spinless, 'include_constant': const}, key=(dim, repr(length), kind, spinless, const))
            pwm = jellium_model(grid, spinless, True, False); dual = jellium_model(grid, spinless, False, False)
            ft = of.fourier_transform(pwm, grid, spinless)
            # known finding D24: for a non-orthogonal cell with an even number of points along an axis (and not all
            # lengths 2) the truncated momentum set is not closed under negation with equal |k|, and the library's
            # momentum-space and position-space jellium are not Fourier pairs (nor isospectral) there
            d24 = (kind == 's' and any(L % 2 == 0 for L in lengths) and any(L > 2 for L in lengths))
            add('fourier_pairing', '(fermi_close %s %s %s)' % (EPS2, coq_fop(of.normal_ordered(ft)), coq_fop(of.normal_ordered(dual))),
                {'call': 'fourier_transform(jellium plane wave) vs dual basis', 'grid': [dim, repr(length), kind], 'scale': repr(A.tolist()), 'spinless': spinless, 'finding': 'D24' if d24 else None},
                key=(dim, repr(length), kind, spinless))
            # Grid index bijection
            for k in range(nq):
                spin = None if spinless else k % 2
                idx = grid.grid_indices(k, spinless)
                if grid.orbital_id(idx, spin) != k:
                    ctx.violation('C13 grid_indices: orbital_id(grid_indices(%d)) != %d' % (k, k), {'call': 'Grid.orbital_id/grid_indices', 'grid': [dim, repr(length), kind], 'spinless': spinless, 'k': k})
            ctx.count('grid_bijection', nq)
    # ---- plane_wave_hamiltonian family with nuclei: momentum-space and position-space forms are Fourier pairs, also
    #      with the non_periodic kernel; Hermitian and number conserving
    from openfermion.hamiltonians import plane_wave_hamiltonian, plane_wave_external_potential, dual_basis_external_potential
    for dim, length in ([(1, 3), (1, 4), (2, 2)] + ([] if ctx.quick else [(1, 5), (2, (2, 3)), (2, 3)])):
        grid = of.Grid(dim, length, rng.choice([1.0, 1.5, 2.0]))
        geometry = [(rng.choice(['H', 'He']), tuple(round(rng.uniform(-0.4, 0.4), 3) for _ in range(dim))), (rng.choice(['Li', 'Be']), tuple(round(rng.uniform(-0.4, 0.4), 3) for _ in range(dim)))]
        for spinless in (True, False):
            nq = grid.num_points * (1 if spinless else 2)
            if nq > N(8, 12): continue
            for npd, rc in ((False, None), (True, None), (True, 1.5)):
                rp = {'call': 'plane_wave_hamiltonian family', 'grid': [dim, repr(length)], 'geometry': repr(geometry), 'spinless': spinless, 'non_periodic': npd, 'period_cutoff': rc}
                pwx = plane_wave_external_potential(grid, geometry, spinless, None, npd, rc); dux = dual_basis_external_potential(grid, geometry, spinless, npd, rc)
                add('external_potential_fourier_pairing', '(fermi_close %s %s %s)' % (EPS2, coq_fop(of.normal_ordered(of.fourier_transform(pwx, grid, spinless))), coq_fop(of.normal_ordered(dux))),
                    rp, key=(dim, repr(length), repr(geometry), spinless, npd, rc))
                hp = plane_wave_hamiltonian(grid, geometry, spinless, True, False, None, npd, rc); hd = plane_wave_hamiltonian(grid, geometry, spinless, False, False, None, npd, rc)
                if not npd:
                    from openfermion.hamiltonians import jordan_wigner_dual_basis_hamiltonian
                    jq = jordan_wigner_dual_basis_hamiltonian(grid, geometry, spinless, False)
                    add('jw_dual_basis_hamiltonian', '(fermi_pauli_close %s %s %s)' % (EPS2, coq_fop(hd), coq_qop(jq)), dict(rp, call='jordan_wigner_dual_basis_hamiltonian vs jordan_wigner(plane_wave_hamiltonian(plane_wave=False))'),
                        key=('jq', dim, repr(length), repr(geometry), spinless))
                add('plane_wave_hamiltonian_fourier_pairing', '(fermi_close %s %s %s && fermi_close %s %s (hc_map %s) && fcomm_zero %s %s)' %
                    (EPS2, coq_fop(of.normal_ordered(of.fourier_transform(hp, grid, spinless))), coq_fop(of.normal_ordered(hd)), EPS2, coq_fop(hd), coq_fop(hd), coq_fop(hd), coq_fop_terms(number_op(nq))),
                    rp, key=('h', dim, repr(length), repr(geometry), spinless, npd, rc))
    res = coq_eval_bools(ctx, 'c13', IMPORTS, items, chunk=(6 if ctx.quick else 2), timeout=1500)
    judge(ctx, res, meta, 'C13')
