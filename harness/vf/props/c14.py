"""C14: circuit primitives and gates implement their documented unitaries."""
import itertools, math, cmath, functools
from fractions import Fraction
import numpy as np
import scipy.linalg
from ..core import *
from ..ops import *
from .c04 import judge

IMPORTS = ('From OFV Require Import Base.Cplx Base.Mat Sem.FermiSem Model.SymbolicOp Model.LadderOp Model.SwapNetwork Check.MatrixOf.\n')
NEEDS = ['Thm/C14/SwapNetworkB', 'Thm/C14/SwapNetworkF', 'Check/MatrixOf']
LEVEL = 'proof'
def cmat(M): return '(' + clist(['(' + clist([cC(complex(x)) for x in r]) + ' : vec)' for r in np.asarray(M).tolist()]) + ' : mat)'

I2 = np.eye(2); X = np.array([[0, 1], [1, 0]], dtype=complex); Y = np.array([[0, -1j], [1j, 0]]); Z = np.diag([1.0, -1.0]).astype(complex)
def kron(*ms): return functools.reduce(np.kron, ms)
def ladder(n, j, dag):
    """JW matrix of a_j (or a+_j), qubit 0 most significant: Z..Z (X + iY)/2"""
    low = (X + 1j * Y) / 2
    m = kron(*([Z] * j + [low] + [I2] * (n - j - 1))) if n > 0 else np.eye(1)
    return m.conj().T if dag else m
def fermion_matrix(n, terms):
    M = np.zeros((2 ** n, 2 ** n), dtype=complex)
    for t, c in terms.items():
        m = np.eye(2 ** n, dtype=complex) * c
        for j, a in t: m = m @ ladder(n, j, a == 1)
        M += m
    return M
def phase_equal(a, b, tol=1e-8):
    a = np.asarray(a).reshape(-1); b = np.asarray(b).reshape(-1)
    k = np.argmax(np.abs(b))
    if abs(b[k]) < 1e-12: return np.allclose(a, b, atol=tol)
    ph = a[k] / b[k]
    return abs(abs(ph) - 1) < tol and np.allclose(a, ph * b, atol=tol)
def haar(rs, n):
    z = (rs.randn(n, n) + 1j * rs.randn(n, n)) / math.sqrt(2); q, r = np.linalg.qr(z); d = np.diag(r); return q * (d / np.abs(d))

def run(ctx):
    import cirq
    from ..impl import of
    from openfermion.circuits import (swap_network, bogoliubov_transform, prepare_gaussian_state, prepare_slater_determinant, ffft, optimal_givens_decomposition)
    from openfermion.circuits.gates import common_gates as cg, fermionic_simulation as fs
    rng = ctx.rng; rs = np.random.RandomState(ctx.seed + 14)
    items, meta = [], []
    def add(part, expr, replay, key=None):
        items.append(expr); meta.append((part, replay)); ctx.count(part, 1, nontrivial_key=key)
    def num(part, ok, what, replay, key=None):
        ctx.count(part, 1, nontrivial_key=key)
        if not ok: ctx.violation('C14 %s: %s' % (part, what), dict(replay, part=part))
    N = (lambda q, t: q if ctx.quick else t)
    # ---- swap network: recorded callback events against the Coq model and the pairs-once / adjacent / reversal checker
    for n in range(0, N(13, 31)):
        for offset in (False, True):
            for fermionic in (False, True):
                ev = []
                qs = cirq.LineQubit.range(n)
                def cb(p, q, a, b): ev.append((p, q, a.x, b.x)); return ()
                ops = swap_network(qs, cb, fermionic=fermionic, offset=offset)
                gates_ok = all(isinstance(op.gate, type(of.FSWAP if fermionic else cirq.SWAP)) or op.gate == (of.FSWAP if fermionic else cirq.SWAP) for op in ops) and len(ops) == len(ev)
                lit = '(' + clist(['(%s, %s, %s)' % (cnat(p), cnat(q), cnat(i)) for p, q, i, j in ev]) + ' : list (nat * nat * nat))'
                adj = all(j == i + 1 for _, _, i, j in ev)
                add('swap_network', '(%s && let m := swap_network %s %s in events_ok %s %s (fst m) && Nat.eqb (length (snd m)) (length %s) && forallb (fun ab => let \'(p, q, i) := fst ab in let \'(p2, q2, i2) := snd ab in Nat.eqb p p2 && Nat.eqb q q2 && Nat.eqb i i2) (combine (snd m) %s))' %
                    (cbool(adj and gates_ok), cnat(n), cbool(offset), cnat(n), lit, lit, lit), {'call': 'swap_network', 'n': n, 'offset': offset, 'fermionic': fermionic}, key=(n, offset, fermionic))
    # ---- the harness's Jordan-Wigner matrices agree with the Coq Fock semantics (ties the numerical oracle to the model)
    for n in (1, 2, 3):
        terms = rand_fermion_terms(rng, n, 3, maxlen=3)
        add('oracle_tie', '(mat_close %s (fermi_matrix %s %s) %s)' % (cQ(Fraction(1, 10 ** 20)), cnat(n), coq_fop_terms(terms), cmat(fermion_matrix(n, terms))), {'call': 'harness JW matrix vs Coq fermi_matrix', 'terms': repr(terms)}, key=repr(terms))
    # ---- two-qubit gate families against their documented generators
    XX, YY, ZZ, YX, XY = kron(X, X), kron(Y, Y), kron(Z, Z), kron(Y, X), kron(X, Y)
    for _ in range(N(40, 300)):
        th = rng.choice([0.0, math.pi / 2, math.pi, -math.pi / 4, 0.37, rng.uniform(-7, 7)])
        rp = {'angle': th}
        num('gate_Rxxyy', np.allclose(cirq.unitary(cg.Rxxyy(th)), scipy.linalg.expm(-1j * th * (XX + YY) / 2), atol=1e-8), 'Rxxyy differs from exp(-i t (XX+YY)/2)', rp, key=('xxyy', th))
        num('gate_Ryxxy', np.allclose(cirq.unitary(cg.Ryxxy(th)), scipy.linalg.expm(-1j * th * (YX - XY) / 2), atol=1e-8), 'Ryxxy differs from exp(-i t (YX-XY)/2)', rp, key=('yxxy', th))
        num('gate_Rzz', np.allclose(cirq.unitary(cg.Rzz(th)), scipy.linalg.expm(-1j * th * ZZ), atol=1e-8), 'Rzz differs from exp(-i t ZZ)', rp, key=('zz', th))
        num('gate_rot11', np.allclose(cirq.unitary(cg.rot11(th)), np.diag([1, 1, 1, cmath.exp(1j * th)]), atol=1e-8), 'rot11 does not phase |11> by e^{i t}', rp, key=('rot11', th))
        t = rng.choice([1.0, 0.5, -0.5, 2.0, 0.0, rng.uniform(-3, 3)])
        c, s, g, p = math.cos(math.pi * t / 2), math.sin(math.pi * t / 2), cmath.exp(1j * math.pi * t / 2), cmath.exp(1j * math.pi * t)
        ref = np.array([[1, 0, 0, 0], [0, g * c, -1j * g * s, 0], [0, -1j * g * s, g * c, 0], [0, 0, 0, p]])
        num('gate_FSWAP', np.allclose(cirq.unitary(of.FSWAP ** t), ref, atol=1e-8), 'FSWAP**t differs from its documented matrix', {'exponent': t}, key=('fswap', t))
    F = cirq.unitary(of.FSWAP)
    num('gate_FSWAP', np.allclose(F @ ladder(2, 0, True) @ F.conj().T, ladder(2, 1, True), atol=1e-9) and np.allclose(F @ ladder(2, 1, True) @ F.conj().T, ladder(2, 0, True), atol=1e-9), 'FSWAP does not exchange adjacent fermionic modes', {}, key='fswap-modes')
    # ---- fermionic simulation gates: unitary = exp(-i exponent generator), decomposition = gate
    for _ in range(N(40, 300)):
        for cls, nw, nq in ((fs.QuadraticFermionicSimulationGate, 2, 2), (fs.CubicFermionicSimulationGate, 3, 3), (fs.QuarticFermionicSimulationGate, 3, 4)):
            w = tuple(rng.choice([complex(rs.randn(), rs.randn()), float(rs.randn()), 1.0, 0.0, 0.0, 1j]) for _ in range(nw))
            if cls is fs.QuadraticFermionicSimulationGate: w = (w[0], float(np.real(w[1])))
            elif cls is fs.CubicFermionicSimulationGate: w = tuple(w)
            ex = rng.choice([1.0, 0.5, -1.0, 0.0, rng.uniform(-2, 2)])
            try:
                gate = cls(w, exponent=ex)
                U = cirq.unitary(gate)
            except Exception as e:
                ctx.violation('C14 fermionic_simulation_gate %s raised %s: %s' % (cls.__name__, type(e).__name__, e), {'weights': repr(w), 'exponent': ex}); continue
            G = fermion_matrix(nq, of.normal_ordered(gate.fermion_generator).terms)
            rp = {'gate': cls.__name__, 'weights': repr(w), 'exponent': ex}
            num('fermionic_simulation_gate', np.allclose(U, scipy.linalg.expm(-1j * ex * G), atol=1e-8), 'unitary differs from exp(-i exponent generator)', rp, key=(cls.__name__, repr(w), ex))
            # the same gate acting inside a circuit / a simulator (the gates' own apply-unitary code path)
            try:
                qs_ = cirq.LineQubit.range(nq); Uc_ = cirq.Circuit(gate(*qs_)).unitary(qubit_order=qs_)
                num('fermionic_simulation_in_circuit', np.allclose(Uc_, U, atol=1e-8), 'the gate applied inside a circuit differs from its own unitary', rp, key=('c', cls.__name__, repr(w), ex))
            except Exception as e:
                ctx.violation('C14 fermionic_simulation_gate %s inside a circuit raised %s: %s' % (cls.__name__, type(e).__name__, e), rp)
            dec = cirq.decompose_once(gate(*cirq.LineQubit.range(nq)), default=None)
            if dec is not None:
                num('fermionic_simulation_decomposition', np.allclose(cirq.unitary(cirq.Circuit(dec)) if nq == len(cirq.Circuit(dec).all_qubits()) else cirq.Circuit(dec).unitary(qubit_order=cirq.LineQubit.range(nq)), U, atol=1e-8), 'decomposition differs from the gate', rp, key=('d', cls.__name__, repr(w), ex))
    # ---- fermionic_simulation_gates_from_interaction_operator: G_I = exp(i H_I), H_I = the terms of H on exactly the modes I
    #      (tensors symmetrised, normal-ordered, or holding a coefficient in one of several equivalent slots)
    from .c04 import rand_hermitian_iop
    for it in range(N(20, 120)):
        n = rng.choice([2, 3, 4]); const, one, two = rand_hermitian_iop(rng, n)
        if it % 3 == 0:
            # density-density terms stored in one slot only (upper / lower triangular V n_p n_q as a+_p a+_q a_q a_p)
            two = np.zeros((n,) * 4, dtype=complex)
            for p_ in range(n):
                for q_ in range(p_ + 1, n):
                    v = float(rs.randn()); (pp, qq) = (p_, q_) if it % 2 else (q_, p_); two[pp, qq, qq, pp] += v
        iop = of.InteractionOperator(float(const), one, two)
        Hf = of.normal_ordered(of.get_fermion_operator(iop))
        rp = {'call': 'fermionic_simulation_gates_from_interaction_operator', 'n': n, 'one_body': repr(one.tolist()), 'two_body_nonzero': {repr(k_): repr(two[k_]) for k_ in zip(*np.nonzero(two))}}
        try: gates = fs.fermionic_simulation_gates_from_interaction_operator(iop)
        except Exception as e:
            ctx.violation('C14 fermionic_simulation_gates_from_interaction_operator raised %s: %s' % (type(e).__name__, e), rp); continue
        groups = {}
        for t, c in Hf.terms.items(): groups.setdefault(tuple(sorted(set(j for j, _ in t))), {})[t] = c
        okk = True; why = ''
        for I, terms_I in groups.items():
            if len(I) == 0:
                if abs(complex(gates.get((), 0.0)) - complex(terms_I.get((), 0.0))) > 1e-9: okk = False; why = 'constant'
                continue
            relab = {m: k_ for k_, m in enumerate(I)}
            HI = fermion_matrix(len(I), {tuple((relab[j], a) for j, a in t): c for t, c in terms_I.items()})
            if np.allclose(HI, 0, atol=1e-12) and I not in gates: continue
            if I not in gates: okk = False; why = 'no gate for modes %r' % (I,); break
            U = cirq.unitary(gates[I])
            if not np.allclose(U, scipy.linalg.expm(1j * HI), atol=1e-8): okk = False; why = 'gate on modes %r differs from exp(i H_I)' % (I,); break
        for I in gates:
            if I != () and I not in groups and not np.allclose(cirq.unitary(gates[I]), np.eye(2 ** len(I)), atol=1e-8): okk = False; why = 'spurious gate on modes %r' % (I,)
        num('gates_from_interaction_operator', okk, 'the returned gates are not exp(i H_I) of the terms on exactly the modes I (%s)' % why, rp, key=(n, it))
        # and back: the sum of the gate generators is the operator
        try:
            back = fs.sum_of_interaction_operator_gate_generators(n, gates)
            d = of.normal_ordered(of.get_fermion_operator(back)) - Hf
            num('gate_generators_sum', all(abs(c) < 1e-8 for c in d.terms.values()), 'sum_of_interaction_operator_gate_generators(gates_from(H)) differs from H', rp, key=('b', n, it))
        except Exception as e:
            ctx.violation('C14 sum_of_interaction_operator_gate_generators raised %s: %s' % (type(e).__name__, e), rp)
    # ---- bogoliubov_transform: U a+_p U^-1 = sum_q W_pq a+_q (+ W_p,N+q a_q)
    for _ in range(N(25, 200)):
        n = rng.choice([1, 2, 3, 4] if ctx.quick else [1, 2, 3, 4, 5])
        kind = rng.choice(['haar', 'real', 'block_diagonal', 'identity', 'permutation', 'bogoliubov', 'bogoliubov', 'bogoliubov_pairing'])
        if kind == 'haar': W = haar(rs, n)
        elif kind == 'real': W = np.linalg.qr(rs.randn(n, n))[0].astype(complex)
        elif kind == 'identity': W = np.eye(n, dtype=complex)
        elif kind == 'permutation': W = np.eye(n, dtype=complex)[rng.sample(range(n), n)]
        elif kind == 'block_diagonal':
            if n % 2: continue
            W = np.zeros((n, n), dtype=complex); W[:n // 2, :n // 2] = haar(rs, n // 2); W[n // 2:, n // 2:] = haar(rs, n // 2)
        elif kind == 'bogoliubov':
            M = rs.randn(n, n) + 1j * rs.randn(n, n); M = M + M.conj().T; D = rs.randn(n, n) + 1j * rs.randn(n, n); D = D - D.T
            _, W, _ = of.QuadraticHamiltonian(M, D).diagonalizing_bogoliubov_transform()
            if W.shape != (n, 2 * n): continue
        else:
            if n < 4: continue
            W1 = np.zeros((n, n), dtype=complex); W2 = np.eye(n, dtype=complex)
            W2[n - 2, n - 2] = W2[n - 1, n - 1] = 0.6; W1[n - 2, n - 1] = 0.8; W1[n - 1, n - 2] = -0.8
            W = np.hstack([W1, W2])
        qs = cirq.LineQubit.range(n)
        rp = {'call': 'bogoliubov_transform', 'kind': kind, 'n': n, 'W': repr(np.round(W, 10).tolist())}
        try:
            U = cirq.Circuit(bogoliubov_transform(qs, W)).unitary(qubit_order=qs)
        except Exception as e:
            ctx.violation('C14 bogoliubov_transform raised %s: %s on an admissible matrix' % (type(e).__name__, e), rp); continue
        ok = True
        for p in range(n):
            lhs = U @ ladder(n, p, True) @ U.conj().T
            rhs = sum(W[p, q] * ladder(n, q, True) for q in range(n))
            if W.shape[1] == 2 * n: rhs = rhs + sum(W[p, n + q] * ladder(n, q, False) for q in range(n))
            ok = ok and np.allclose(lhs, rhs, atol=1e-7)
        num('bogoliubov_transform', ok, 'U a+_p U^-1 differs from the prescribed combination of ladder operators', rp, key=repr(rp))
        # initial_state: the specialised circuit must agree with the general one on that basis state (up to a global phase)
        for _ in range(2):
            init = rng.randrange(2 ** n)
            try:
                Ui = cirq.Circuit(bogoliubov_transform(qs, W, initial_state=init)).unitary(qubit_order=qs)
            except Exception as e:
                ctx.violation('C14 bogoliubov_transform(initial_state) raised %s: %s' % (type(e).__name__, e), dict(rp, initial_state=init)); continue
            num('bogoliubov_initial_state', phase_equal(Ui[:, init], U[:, init]), 'specialised circuit differs from the general one on its initial state', dict(rp, initial_state=init), key=(repr(rp), init))
    # ---- state preparation circuits against the reference states
    from openfermion.circuits.slater_determinants import jw_get_gaussian_state, jw_slater_determinant
    for _ in range(N(20, 150)):
        n = rng.choice([1, 2, 3, 4])
        M = rs.randn(n, n) + 1j * rs.randn(n, n); M = M + M.conj().T
        D = rs.randn(n, n) + 1j * rs.randn(n, n); D = D - D.T
        qh = of.QuadraticHamiltonian(M, D if rng.random() < 0.6 else None)
        occ = rng.choice([None, sorted(rng.sample(range(n), rng.randint(0, n)))])
        qs = cirq.LineQubit.range(n)
        for init in (0, rng.randrange(2 ** n)):
            try:
                st = cirq.Circuit(prepare_gaussian_state(qs, qh, occ, initial_state=init)).final_state_vector(initial_state=init, qubit_order=qs)
                E, ref = jw_get_gaussian_state(qh, occ)
            except Exception as e:
                ctx.violation('C14 prepare_gaussian_state raised %s: %s' % (type(e).__name__, e), {'n': n, 'occupied': occ, 'initial_state': init}); continue
            num('prepare_gaussian_state', phase_equal(st, ref, 1e-6), 'prepared state differs from jw_get_gaussian_state up to a phase', {'n': n, 'occupied': occ, 'initial_state': init, 'M': repr(np.round(M, 8).tolist())}, key=(repr(np.round(M, 8).tolist()), repr(occ), init))
        eta = rng.randint(1, n); Q = haar(rs, n)[:eta, :]
        st = cirq.Circuit(prepare_slater_determinant(qs, Q)).final_state_vector(qubit_order=qs)
        num('prepare_slater_determinant', phase_equal(st, jw_slater_determinant(Q), 1e-6), 'prepared state differs from jw_slater_determinant up to a phase', {'Q': repr(np.round(Q, 8).tolist())}, key=repr(np.round(Q, 8).tolist()))
    # ---- ffft and optimal_givens_decomposition
    for n in (range(1, N(7, 10))):
        qs = cirq.LineQubit.range(n)
        U = cirq.Circuit(ffft(qs)).unitary(qubit_order=qs) if n > 1 else np.eye(2)
        ok = True
        for k in range(n):
            # convention fixed by the docstring's equivalent construction bogoliubov_transform(qubits, F) with
            # F[k][n] = exp(-2 pi i k n / N) / sqrt(N), i.e. U a+_k U^-1 = sum_n F[k][n] a+_n
            lhs = U @ ladder(n, k, True) @ U.conj().T
            rhs = sum(cmath.exp(-2j * math.pi * m * k / n) * ladder(n, m, True) for m in range(n)) / math.sqrt(n)
            ok = ok and np.allclose(lhs, rhs, atol=1e-7)
        num('ffft', ok, 'FFFT a+_k FFFT^-1 differs from the discrete Fourier combination of the documented equivalent bogoliubov_transform', {'n': n}, key=n)
    # larger sizes (odd prime factors, n >= 15) through the vacuum and the single-particle sector: U a+_p |vac> = e^{i theta} sum_q F[p][q] a+_q |vac>
    sim = cirq.Simulator(dtype=np.complex128)
    for n in ([9, 12, 15] if ctx.quick else [9, 10, 12, 14, 15, 16, 18]):
        # decomposed to one- and two-qubit gates (the mode permutations are otherwise dense 2^n x 2^n matrices)
        qs = cirq.LineQubit.range(n); circ = cirq.Circuit(cirq.decompose(ffft(qs), keep=lambda op: len(op.qubits) <= 2))
        vac = sim.simulate(circ, qubit_order=qs, initial_state=0).final_state_vector
        th = vac[0]; ok = abs(abs(th) - 1) < 1e-7
        for p_ in (range(n) if n <= 15 else rng.sample(range(n), 6)):
            out = sim.simulate(circ, qubit_order=qs, initial_state=1 << (n - 1 - p_)).final_state_vector
            amp = np.array([out[1 << (n - 1 - q_)] for q_ in range(n)])
            want = th * np.array([cmath.exp(-2j * math.pi * p_ * q_ / n) for q_ in range(n)]) / math.sqrt(n)
            ok = ok and np.allclose(amp, want, atol=1e-6)
        num('ffft_single_particle', ok, 'FFFT does not map a+_p |vac> to the documented Fourier mode (vacuum and single-particle sector)', {'n': n}, key=n)
    for _ in range(N(15, 100)):
        n = rng.choice([2, 3, 4]); v = haar(rs, n) if rng.random() < 0.7 else np.linalg.qr(rs.randn(n, n))[0].astype(complex)
        qs = cirq.LineQubit.range(n)
        U = cirq.Circuit(optimal_givens_decomposition(qs, v.copy())).unitary(qubit_order=qs)
        L = scipy.linalg.logm(v)
        ref = scipy.linalg.expm(sum(L[p, q] * ladder(n, p, True) @ ladder(n, q, False) for p in range(n) for q in range(n)))
        num('optimal_givens_decomposition', np.allclose(U, ref, atol=1e-6), 'circuit differs from exp(sum log(v)_pq a+_p a_q)', {'v': repr(np.round(v, 8).tolist())}, key=repr(np.round(v, 8).tolist()))
    ctx.sample({'part': 'swap_network', 'note': 'events (p, q, position) recorded by a callback are compared with the Coq model for every n up to %d, both offsets and swap kinds' % N(12, 30)})
    res = coq_eval_bools(ctx, 'c14', IMPORTS, items, chunk=10)
    judge(ctx, res, meta, 'C14')
