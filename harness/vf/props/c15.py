"""C15: Trotter simulation circuits are product formulas of the promised order."""
import itertools, math, cmath, functools
from fractions import Fraction
import numpy as np
import scipy.linalg
from ..core import *
from ..ops import *
from .c04 import judge
from .c14 import ladder, fermion_matrix, phase_equal, cmat
from .c19 import rand_eri

IMPORTS = ('From OFV Require Import Base.Cplx Base.Mat Sem.FermiSem Model.SymbolicOp Model.LadderOp Check.MatrixOf.\n')
NEEDS = ['Thm/C15/Suzuki', 'Thm/C15/SuzukiR', 'Check/MatrixOf']
TRUSTED = ['standard-library axioms used by ONE theorem (C15_suzuki_split_cancels, stated over Coq.Reals): ClassicalDedekindReals.sig_forall_dec, ClassicalDedekindReals.sig_not_dec (if listed), FunctionalExtensionality.functional_extensionality_dep - as reported by Print Assumptions in coverage.print_assumptions; every other theorem of the development is closed under the global context']
LEVEL = 'translation_validation'

def reversal_unitary(n):
    """fermionic mode reversal: the unitary of a fermionic swap network (maps mode j to n-1-j)"""
    import cirq
    from ..impl import of
    qs = cirq.LineQubit.range(n)
    return cirq.Circuit(of.swap_network(qs, fermionic=True)).unitary(qubit_order=qs) if n > 1 else np.eye(2)

def run(ctx):
    import cirq
    from ..impl import of
    from openfermion.circuits import simulate_trotter
    from openfermion.circuits.trotter import LINEAR_SWAP_NETWORK, SPLIT_OPERATOR, LOW_RANK
    from openfermion.chem.molecular_data import spinorb_from_spatial
    rng = ctx.rng; rs = np.random.RandomState(ctx.seed + 15)
    items, meta = [], []
    def add(part, expr, replay, key=None):
        items.append(expr); meta.append((part, replay)); ctx.count(part, 1, nontrivial_key=key)
    def num(part, ok, what, replay, key=None):
        ctx.count(part, 1, nontrivial_key=key)
        if not ok: ctx.violation('C15 %s: %s' % (part, what), dict(replay, part=part))
    N = (lambda q, t: q if ctx.quick else t)
    # tie of the numerical Hamiltonian matrices to the Coq Fock semantics
    terms = rand_fermion_terms(rng, 3, 3, maxlen=4)
    add('oracle_tie', '(mat_close %s (fermi_matrix 3 %s) %s)' % (cQ(Fraction(1, 10 ** 20)), coq_fop_terms(terms), cmat(fermion_matrix(3, terms))), {'call': 'harness JW matrix vs Coq fermi_matrix'}, key=repr(terms))
    def dch(n, commuting=False):
        one = np.zeros((n, n), dtype=complex); two = np.zeros((n, n))
        for p in range(n):
            one[p, p] = rs.randn()
            for q in range(p + 1, n):
                if not commuting:
                    # real, complex, purely imaginary (Peierls phase pi/2) and absent hoppings
                    kind = rng.random()
                    c = rs.randn() + (1j * rs.randn() if kind < 0.3 else 0)
                    if 0.3 <= kind < 0.45: c = 1j * rs.randn()
                    elif 0.45 <= kind < 0.5 and n > 2: c = 0.0
                    one[p, q] = c; one[q, p] = np.conj(c)
                v = rs.randn(); two[p, q] = two[q, p] = v
        return of.DiagonalCoulombHamiltonian(one, two, float(rs.randn()))
    def iop(nsp):
        h = rs.randn(nsp, nsp); h = (h + h.T) / 2
        eri = rand_eri(rng, nsp) * rs.rand()
        k_ = rng.random()
        if k_ < 0.35: eri = eri - rand_eri(rng, nsp) * rs.rand()      # indefinite interaction matrix (pq|rs): negative eigenvalues
        elif k_ < 0.5: eri = -eri                                      # attractive interaction: negative semidefinite
        one, two = spinorb_from_spatial(h, eri)
        return of.InteractionOperator(float(rs.randn()), one, 0.5 * two)
    def Hmat(ham, n): return of.get_sparse_operator(of.get_fermion_operator(ham), n).toarray()
    class Unsupported(Exception): pass
    def circuit_unitary(qs, ham, t, **kw):
        try:
            c = cirq.Circuit(simulate_trotter(qs, ham, t, **kw))
        except ValueError as e:
            if 'does not support' in str(e): raise Unsupported(str(e))     # documented: formula not offered by this algorithm
            raise
        return c.unitary(qubit_order=qs)
    def dist(U, V):
        """spectral-norm distance up to one global phase (uncontrolled circuits drop the constant's phase)"""
        tr = np.trace(V.conj().T @ U)
        ph = tr / abs(tr) if abs(tr) > 1e-12 else 1.0
        return np.linalg.norm(U - ph * V, 2)
    cases = []
    for _ in range(N(6, 40)):
        n = rng.choice([2, 3, 4]); cases.append(('LSN', LINEAR_SWAP_NETWORK, dch(n), n))
        cases.append(('SPLIT', SPLIT_OPERATOR, dch(n), n))
    for _ in range(N(3, 20)):
        cases.append(('LOW_RANK', LOW_RANK, iop(rng.choice([1, 2])), None))
    for name, alg, ham, n in cases:
        n = n or ham.one_body_tensor.shape[0]
        qs = cirq.LineQubit.range(n); H = Hmat(ham, n); R = reversal_unitary(n)
        t = rng.choice([0.1, 0.25, 0.05])
        rp0 = {'algorithm': name, 'n': n, 'time': t}
        exact = scipy.linalg.expm(-1j * t * H)
        # --- convergence order: error falls as n_steps^-p, p = 1, 2, 4
        for order, p in ((0, 1), (1, 2), (2, 4)):
            errs = []
            for steps in (1, 2, 4):
                try:
                    U = circuit_unitary(qs, ham, t, n_steps=steps, order=order, algorithm=alg)
                except Unsupported:
                    errs = None; break
                except Exception as e:
                    ctx.violation('C15 simulate_trotter raised %s: %s' % (type(e).__name__, e), dict(rp0, order=order, n_steps=steps)); errs = None; break
                num('unitarity', np.allclose(U @ U.conj().T, np.eye(2 ** n), atol=1e-8), 'circuit is not unitary', dict(rp0, order=order, n_steps=steps))
                errs.append(dist(U, exact))
            if not errs: continue
            ok = True
            for a, b in ((errs[0], errs[1]), (errs[1], errs[2])):
                if a < 1e-9: continue                    # already exact at this resolution
                ratio = a / max(b, 1e-300)
                ok = ok and (2 ** p / 2.2 <= ratio <= 2 ** p * 2.2)
            num('convergence_order', (ok and errs[2] < errs[0]) or max(errs) < 1e-9, 'error ratios under step doubling %r do not match order p = %d' % ([float(e) for e in errs], p), dict(rp0, order=order), key=(name, n, order, repr(rp0), float(errs[0])))
        # --- final mode assignment: omit_final_swaps leaves the modes reversed exactly for an odd number of asymmetric LSN steps
        for order in (0, 1):
            for steps in (1, 2, 3):
                try:
                    U0 = circuit_unitary(qs, ham, t, n_steps=steps, order=order, algorithm=alg)
                    U1 = circuit_unitary(qs, ham, t, n_steps=steps, order=order, algorithm=alg, omit_final_swaps=True)
                except Unsupported:
                    continue
                # documented: the asymmetric (order 0) steps reverse the mode order, so after an odd number of steps the
                # modes are reversed unless the final swaps are applied (fermionic swaps for LSN, qubit swaps otherwise)
                # documented: with the final swaps the modes end in their original positions (checked against exp(-iHt) above);
                # without them they are either in place or fully reversed (fermionic swaps for LSN, qubit swaps otherwise),
                # and never reversed after an even number of steps
                reversed_expected = 'identity or full reversal'
                Rq = cirq.Circuit(of.swap_network(qs)).unitary(qubit_order=qs) if n > 1 else np.eye(2)
                same = np.allclose(U1, U0, atol=1e-7)
                ok = same or np.allclose(R @ U1, U0, atol=1e-7) or np.allclose(Rq @ U1, U0, atol=1e-7)
                if steps % 2 == 0: ok = same
                num('final_assignment', ok, 'omit_final_swaps does not differ from the full circuit by exactly the documented mode reversal (expected reversed: %s)' % reversed_expected, dict(rp0, order=order, n_steps=steps), key=(name, n, order, steps, repr(rp0)))
    # ---- exactness when all pieces commute (diagonal one-body part): exp(-iHt) to machine precision
    for _ in range(N(6, 40)):
        n = rng.choice([2, 3, 4]); ham = dch(n, commuting=True); qs = cirq.LineQubit.range(n); H = Hmat(ham, n); t = rng.choice([0.3, 1.7, -0.9])
        for alg, name in ((LINEAR_SWAP_NETWORK, 'LSN'), (SPLIT_OPERATOR, 'SPLIT')):
            for order in (0, 1, 2):
                try: U = circuit_unitary(qs, ham, t, n_steps=rng.choice([1, 2, 3]), order=order, algorithm=alg)
                except Unsupported: continue
                num('commuting_exact', dist(U, scipy.linalg.expm(-1j * t * H)) < 1e-8, 'circuit differs from exp(-iHt) although all pieces commute', {'algorithm': name, 'n': n, 'order': order, 'time': t}, key=(name, n, order, t, repr(ham.two_body.tolist())))
    # ---- exactness for free fermions (no two-body part: the split-operator / low-rank pieces commute trivially)
    for _ in range(N(5, 30)):
        n = rng.choice([2, 3, 4]); ham = dch(n); ham = of.DiagonalCoulombHamiltonian(ham.one_body if rng.random() < 0.6 else np.real(ham.one_body), np.zeros((n, n)), ham.constant)
        qs = cirq.LineQubit.range(n); H = Hmat(ham, n); t = rng.choice([0.3, 1.7, -0.9])
        for order in (0, 1, 2):
            for steps in (1, 2, 3):
                try: U = circuit_unitary(qs, ham, t, n_steps=steps, order=order, algorithm=SPLIT_OPERATOR)
                except Unsupported: continue
                num('free_fermion_exact', dist(U, scipy.linalg.expm(-1j * t * H)) < 1e-8, 'SPLIT_OPERATOR circuit differs from exp(-iHt) for a Hamiltonian without two-body part (pieces commute)',
                    {'algorithm': 'SPLIT', 'n': n, 'order': order, 'n_steps': steps, 'time': t, 'one_body': repr(ham.one_body.tolist())}, key=(n, order, steps, t, repr(ham.one_body.tolist())))
    # ---- the recursion itself, for every order (also >= 3, where convergence rates are too steep to measure): a recording
    #      TrotterStep observes the sub-step times; they must be n_steps copies of the Suzuki leaves with split factor
    #      1 / (4 - 4^(1/(2k-1))) at level k (the factor of C15_suzuki_split_cancels), in order
    from openfermion.circuits.trotter.trotter_algorithm import TrotterAlgorithm, TrotterStep
    rec_log = []
    class _RecStep(TrotterStep):
        def trotter_step(self, qubits, time, control_qubit=None):
            rec_log.append(time); return []
    class _RecAlg(TrotterAlgorithm):
        supported_types = {of.DiagonalCoulombHamiltonian}
        def symmetric(self, hamiltonian): return _RecStep(hamiltonian)
        def asymmetric(self, hamiltonian): return _RecStep(hamiltonian)
        def controlled_symmetric(self, hamiltonian): return _RecStep(hamiltonian)
        def controlled_asymmetric(self, hamiltonian): return _RecStep(hamiltonian)
    def leaves_spec(k, t):
        if k <= 1: return [t]
        sp = t / (4 - 4 ** (1 / (2 * k - 1)))
        return leaves_spec(k - 1, sp) * 2 + leaves_spec(k - 1, t - 4 * sp) + leaves_spec(k - 1, sp) * 2
    ham0 = of.DiagonalCoulombHamiltonian(np.eye(2), np.zeros((2, 2)))
    for order in range(0, N(5, 6)):
        for steps in (1, 2, 3):
            for ctrl in (False, True):
                t = rng.choice([1.0, 0.37, -2.5]); del rec_log[:]
                qs2 = cirq.LineQubit.range(3)
                try:
                    list(cirq.flatten_op_tree(of.simulate_trotter(qs2[:2], ham0, t, n_steps=steps, order=order, algorithm=_RecAlg(), control_qubit=(qs2[2] if ctrl else None))))
                except Exception as e:
                    ctx.violation('C15 recursion: simulate_trotter raised %s: %s' % (type(e).__name__, e), {'order': order, 'n_steps': steps, 'controlled': ctrl}); continue
                want = leaves_spec(order, t / steps) * steps
                ok = len(rec_log) == len(want) and all(abs(a_ - b_) <= 1e-12 * max(1.0, abs(b_)) for a_, b_ in zip(rec_log, want))
                num('suzuki_recursion_times', ok, 'the sub-step times differ from the Suzuki recursion with split factor 1/(4 - 4^(1/(2k-1)))',
                    {'order': order, 'n_steps': steps, 'time': t, 'controlled': ctrl, 'observed_first': rec_log[:6], 'expected_first': want[:6]}, key=(order, steps, t, ctrl))
    # ---- controlled variants: identity for control 0, same evolution with the constant's phase for control 1
    for _ in range(N(6, 40)):
        n = rng.choice([2, 3]); name, alg, ham = rng.choice([('LSN', LINEAR_SWAP_NETWORK, dch(n)), ('SPLIT', SPLIT_OPERATOR, dch(n)), ('LOW_RANK', LOW_RANK, iop(1))])
        n = n if name != 'LOW_RANK' else 2
        qs = cirq.LineQubit.range(n); ctrl = cirq.LineQubit(-1); H = Hmat(ham, n); t = rng.choice([0.1, 0.2])
        for order in (0, 1):
            steps = rng.choice([1, 2])
            rp = {'algorithm': name, 'n': n, 'order': order, 'n_steps': steps, 'time': t}
            try:
                Uc = cirq.Circuit(simulate_trotter(qs, ham, t, n_steps=steps, order=order, algorithm=alg, control_qubit=ctrl)).unitary(qubit_order=[ctrl] + list(qs))
            except ValueError as e:
                ctx.count('controlled', 1); continue          # documented: formula not supported with a control qubit
            try: U = circuit_unitary(qs, ham, t, n_steps=steps, order=order, algorithm=alg)
            except Unsupported: continue
            d = 2 ** n
            B0, B1 = Uc[:d, :d], Uc[d:, d:]
            off = np.abs(Uc[:d, d:]).max() + np.abs(Uc[d:, :d]).max()
            k0 = B0[0, 0]
            ok0 = off < 1e-8 and abs(abs(k0) - 1) < 1e-8 and np.allclose(B0, k0 * np.eye(d), atol=1e-7)
            # relative to the control-0 branch, the control-1 branch is the uncontrolled evolution (which contains exp(-i c t))
            # and it must carry the constant's phase: B1 / k0 = exp(-i c t) * (uncontrolled circuit up to ITS dropped phase)
            ok1 = dist(B1 / k0, U) < 1e-6 and dist(B1 / k0, scipy.linalg.expm(-1j * t * H)) < 10 * max(dist(U, scipy.linalg.expm(-1j * t * H)), 1e-7)
            if ok1:
                # phase of the constant: relative phase between the branches must be that of exp(-iHt) itself (not only up to a phase)
                E = scipy.linalg.expm(-1j * t * H); trr = np.trace(E.conj().T @ (B1 / k0)); ok1 = abs(trr / abs(trr) - 1) < 0.05
            num('controlled', ok0 and ok1, 'controlled circuit is not identity (control 0) / the same evolution including the constant phase (control 1) up to one global phase', rp, key=repr(rp) + repr(H[0, 0]))
            # final mode assignment of controlled circuits: with omit_final_swaps the control-1 branch differs from the full circuit by
            # nothing or by the documented full reversal of the modes (never after an even number of steps); the control-0 branch stays the identity
            for steps2 in (1, 2, 3):
                try:
                    Uf = cirq.Circuit(simulate_trotter(qs, ham, t, n_steps=steps2, order=order, algorithm=alg, control_qubit=ctrl)).unitary(qubit_order=[ctrl] + list(qs))
                    Uo = cirq.Circuit(simulate_trotter(qs, ham, t, n_steps=steps2, order=order, algorithm=alg, control_qubit=ctrl, omit_final_swaps=True)).unitary(qubit_order=[ctrl] + list(qs))
                except ValueError: break
                F1, O1, O0 = Uf[d:, d:], Uo[d:, d:], Uo[:d, :d]
                Rf = cirq.Circuit(of.swap_network(qs, fermionic=True)).unitary(qubit_order=qs) if n > 1 else np.eye(2)
                Rq2 = cirq.Circuit(of.swap_network(qs)).unitary(qubit_order=qs) if n > 1 else np.eye(2)
                same = np.allclose(O1, F1, atol=1e-7)
                okf = same or np.allclose(Rf @ O1, F1, atol=1e-7) or np.allclose(Rq2 @ O1, F1, atol=1e-7)
                if steps2 % 2 == 0: okf = same
                id0 = np.allclose(O0, O0[0, 0] * np.eye(d), atol=1e-7) or np.allclose(Rf @ O0, (Rf @ O0)[0, 0] * np.eye(d), atol=1e-7) or np.allclose(Rq2 @ O0, (Rq2 @ O0)[0, 0] * np.eye(d), atol=1e-7)
                num('final_assignment_controlled', okf and id0, 'controlled circuit with omit_final_swaps does not differ from the full circuit by exactly the documented mode reversal', dict(rp, n_steps=steps2), key=(repr(rp), steps2, repr(H[0, 0])))
    ctx.sample({'part': 'convergence_order', 'note': 'spectral-norm error of the cirq unitary against scipy expm of the tied JW matrix for n_steps = 1, 2, 4'})
    res = coq_eval_bools(ctx, 'c15', IMPORTS, items, chunk=10)
    judge(ctx, res, meta, 'C15')
