"""C16: qubit and orbital reductions preserve the physics of the kept sector."""
import itertools, math
from fractions import Fraction
import numpy as np
from ..core import *
from ..ops import *
from .c04 import judge

IMPORTS = ('From OFV Require Import Base.Cplx Base.Lin Sem.PauliSem Sem.FermiSem Model.SymbolicOp Model.QubitOp Model.LadderOp Model.JordanWigner '
           'Model.Program Check.DictEquiv Check.OpEquiv Check.Commutator Check.Reductions.\n')
NEEDS = ['Check/Reductions', 'Thm/C16/SectorSound']
def cNl(l): return '(' + clist([cN(int(x)) for x in l]) + ' : list N)'
def cbl(l): return '(' + clist([cbool(bool(x)) for x in l]) + ' : list bool)'
def cqops(l): return '(' + clist(l) + ' : list qop)'

def commute(a, b):
    da, db = dict(a), dict(b)
    return sum(1 for q in da if q in db and da[q] != db[q]) % 2 == 0
def symplectic(t, n):
    v = [0] * (2 * n)
    for q, p in t:
        if p in 'XY': v[q] = 1
        if p in 'ZY': v[n + q] = 1
    return v
def gf2_rank(rows):
    rows = [r[:] for r in rows]; rank = 0
    for c in range(len(rows[0]) if rows else 0):
        piv = next((i for i in range(rank, len(rows)) if rows[i][c]), None)
        if piv is None: continue
        rows[rank], rows[piv] = rows[piv], rows[rank]
        for i in range(len(rows)):
            if i != rank and rows[i][c]: rows[i] = [(x + y) % 2 for x, y in zip(rows[i], rows[rank])]
        rank += 1
    return rank
def rand_pauli(rng, n, minw=1):
    while True:
        t = tuple((q, rng.choice('XYZ')) for q in range(n) if rng.random() < 0.55)
        if len(t) >= minw: return t

def run(ctx):
    from ..impl import of
    from openfermion.transforms.repconversions import qubit_tapering_from_stabilizer as qt
    from openfermion.transforms.repconversions.qubit_operator_transforms import project_onto_sector, projection_error, rotate_qubit_by_pauli
    from openfermion.transforms.repconversions.operator_tapering import freeze_orbitals, prune_unused_indices
    rng = ctx.rng
    items, meta = [], []
    def add(part, expr, replay, key=None):
        items.append(expr); meta.append((part, replay)); ctx.count(part, 1, nontrivial_key=key)
    N = (lambda q, t: q if ctx.quick else t)
    Q = of.QubitOperator
    # ---- reduce_number_of_terms / taper_off_qubits
    made = 0; tries = 0
    while made < N(60, 500) and tries < 20000:
        tries += 1
        n = rng.choice([2, 3, 4, 5]); k = rng.randint(1, min(2, n - 1)) if n > 2 else 1
        stabs = []
        for _ in range(50):
            if len(stabs) == k: break
            t = rand_pauli(rng, n)
            if all(commute(t, s) for s in stabs) and gf2_rank([symplectic(s, n) for s in stabs] + [symplectic(t, n)]) == len(stabs) + 1: stabs.append(t)
        if len(stabs) != k: continue
        signs = [rng.choice([1, -1]) for _ in stabs]
        terms = {}
        for _ in range(rng.randint(2, 6)):
            for _ in range(40):
                t = rand_pauli(rng, n, 0) if rng.random() < 0.9 else ()
                if all(commute(t, s) for s in stabs): terms[t] = float(dy(rng) or 1.0); break
        H = mk_qubit(of, terms)
        if not H.terms: continue
        S = [Q(s, float(sg)) for s, sg in zip(stabs, signs)]
        if rng.random() < 0.6:
            # strings related by a (signed) stabilizer product, with unrelated coefficients, listed before or after their partner:
            # they must be merged with the correct relative sign
            Hp = of.QubitOperator()
            for t, c_ in list(H.terms.items())[:rng.choice([1, 2, 3])]:
                prod = of.QubitOperator(t, 1.0) * rng.choice(S)
                (t2, ph), = prod.terms.items()
                if abs(complex(ph).imag) > 1e-12 or t2 in H.terms: continue
                Hp += of.QubitOperator(t2, float(dy(rng) or 0.5))
            H = (Hp + H) if rng.random() < 0.5 else (H + Hp)
        rp = {'call': 'taper_off_qubits / reduce_number_of_terms', 'n_qubits': n, 'hamiltonian': {repr(t): repr(c) for t, c in H.terms.items()}, 'stabilizers': [str(s) for s in S]}
        try:
            red, pos = qt.reduce_number_of_terms(H, S, output_fixed_positions=True)
            tap, rem = qt.taper_off_qubits(H, S, output_tapered_positions=True)
        except Exception as e:
            ctx.violation('C16 tapering raised %s: %s on admissible stabilizers' % (type(e).__name__, e), dict(rp, error=repr(e))); made += 1; continue
        made += 1
        if not exact_terms_ok(red.terms, lo=30) or not exact_terms_ok(tap.terms, lo=30): continue
        stl = cqops([coq_qop(s) for s in S])
        add('reduce_number_of_terms', '(stabilizers_admissible %s %s && agrees_on_sector %s %s %s && single_letter_on %s %s)' % (coq_qop(H), stl, coq_qop(H), coq_qop(red), stl, cNl(pos), coq_qop(red)), rp, key=repr(rp))
        add('taper_off_qubits', '(dict_eqb pfactor pfeqb %s (taper_model %s %s) && Nat.leb (N.to_nat (qop_width %s)) %d)' % (coq_qop(tap), cNl(sorted(rem)), coq_qop(red), coq_qop(tap), n - k), rp, key=('t', repr(rp)))
        # manual fixed positions (any qubit in the support of each stabilizer; inadmissible choices raise StabilizerError
        # by contract and are skipped) and maintain_length=True: the same sector statement must hold
        for attempt in range(2):
            # admissible manual positions: stabilizer i, after the earlier stabilizers have been used to clear it from the earlier
            # fixed positions (documented convention: a generator acting as X or Y (Z) on the fixed qubit constrains the other
            # strings to Z (X) or the identity there), must act non-trivially on position i
            def pmul(a, b):
                da, db = dict(a), dict(b); out = {}
                for q_ in set(da) | set(db):
                    x, y = da.get(q_), db.get(q_)
                    if x is None or y is None: out[q_] = x or y
                    elif x != y: out[q_] = ({'X', 'Y', 'Z'} - {x, y}).pop()
                return tuple(sorted(out.items()))
            cur = list(stabs); man = []
            for i_ in range(len(cur)):
                supp = [q for q, _ in cur[i_] if q not in man]
                if not supp: man = None; break
                p_i = rng.choice(supp); man.append(p_i)
                keep = {'X': 'Z', 'Y': 'Z', 'Z': 'X'}[dict(cur[i_])[p_i]]
                for j_ in range(i_ + 1, len(cur)):
                    if dict(cur[j_]).get(p_i) not in (None, keep): cur[j_] = pmul(cur[j_], cur[i_])
            if man is None or len(set(man)) != len(man): continue
            try:
                red_m, pos_m = qt.reduce_number_of_terms(H, S, manual_input=True, fixed_positions=list(man), output_fixed_positions=True)
                tap_m, rem_m = qt.taper_off_qubits(H, S, manual_input=True, fixed_positions=list(man), output_tapered_positions=True)
            except qt.StabilizerError:
                ctx.stat('taper_manual_positions', 'rejected_by_contract'); continue
            except Exception as e:
                ctx.violation('C16 tapering (manual positions) raised %s: %s' % (type(e).__name__, e), dict(rp, fixed_positions=man)); continue
            if not exact_terms_ok(red_m.terms, lo=30) or not exact_terms_ok(tap_m.terms, lo=30): continue
            rpm = dict(rp, manual_fixed_positions=man)
            add('taper_manual_positions', '(agrees_on_sector %s %s %s && single_letter_on %s %s && dict_eqb pfactor pfeqb %s (taper_model %s %s))' %
                (coq_qop(H), coq_qop(red_m), stl, cNl(pos_m), coq_qop(red_m), coq_qop(tap_m), cNl(sorted(rem_m)), coq_qop(red_m)), rpm, key=('m', repr(rpm)))
            if sorted(pos_m) != sorted(man):
                ctx.violation('C16 reduce_number_of_terms ignored the manual fixed positions', rpm)
            # the caller's list object, reused for a second call (e.g. a second observable): it must not have been reordered,
            # and the second result must be the first one
            shared = list(man)
            try:
                tap_a = qt.taper_off_qubits(H, S, manual_input=True, fixed_positions=shared)
                red_b = qt.reduce_number_of_terms(H, S, manual_input=True, fixed_positions=shared)
                tap_b = qt.taper_off_qubits(H, S, manual_input=True, fixed_positions=shared)
                ctx.count('taper_manual_positions_reused', 1, nontrivial_key=repr(rpm))
                if shared != list(man) or tap_a != tap_m or tap_b != tap_m or red_b != red_m:
                    ctx.violation('C16 tapering with a reused fixed_positions list: the list was modified (%r -> %r) or the repeated call returns a different operator' % (man, shared), rpm)
            except Exception as e:
                ctx.violation('C16 tapering with a reused fixed_positions list raised %s: %s (a fresh list is accepted)' % (type(e).__name__, e), rpm)
        try:
            red_l = qt.reduce_number_of_terms(H, S, maintain_length=True)
            if exact_terms_ok(red_l.terms, lo=30):
                add('reduce_maintain_length', '(agrees_on_sector %s %s %s)' % (coq_qop(H), coq_qop(red_l), stl), dict(rp, maintain_length=True), key=('l', repr(rp)))
        except Exception as e:
            ctx.violation('C16 reduce_number_of_terms(maintain_length=True) raised %s: %s' % (type(e).__name__, e), rp)
        # spectral claim, numerically: spectrum of the tapered operator = spectrum of H on the joint +1 eigenspace
        Hm = of.get_sparse_operator(H, n).toarray(); P = np.eye(2 ** n, dtype=complex)
        for s in S: P = P @ (np.eye(2 ** n) + of.get_sparse_operator(s, n).toarray()) / 2
        w, v = np.linalg.eigh((P + P.conj().T) / 2)
        B = v[:, w > 0.5]
        e_sector = np.sort(np.linalg.eigvalsh(B.conj().T @ Hm @ B))
        nt = n - k
        e_tap = np.sort(np.linalg.eigvalsh(of.get_sparse_operator(tap, nt).toarray())) if nt > 0 else np.array([tap.terms.get((), 0.0)]).real
        ctx.count('taper_spectrum_numeric', 1, nontrivial_key=repr(rp))
        if len(e_sector) != len(e_tap) or not np.allclose(e_sector, e_tap, atol=1e-8):
            ctx.violation('C16 taper_off_qubits: spectrum of the tapered operator differs from H on the stabilizer sector', dict(rp, sector=e_sector.tolist(), tapered=e_tap.tolist()))
        if made <= 2: ctx.sample({'part': 'taper', 'H': str(H), 'stabilizers': [str(s) for s in S], 'tapered': str(tap), 'removed': [int(x) for x in rem]})
    # ---- project_onto_sector
    for i in range(N(80, 600)):
        n = rng.choice([2, 3, 4, 5]); k = rng.randint(1, n - 1)
        qubits = sorted(rng.sample(range(n), k)); 
        if rng.random() < 0.3: rng.shuffle(qubits)
        sectors = [rng.randint(0, 1) for _ in qubits]
        H = mk_qubit(of, rand_qubit_terms(rng, n, rng.randint(1, 6)))
        Hp = project_onto_sector(H, list(qubits), list(sectors))
        if not exact_terms_ok(Hp.terms, lo=30): continue
        add('project_onto_sector', '(project_ok %s %s %s %s %s)' % (cnat(n), cNl(qubits), cbl(sectors), coq_qop(H), coq_qop(Hp)),
            {'call': 'project_onto_sector', 'n_qubits': n, 'qubits': qubits, 'sectors': sectors, 'terms': {repr(t): repr(c) for t, c in H.terms.items()}}, key=(repr(H.terms), tuple(qubits), tuple(sectors)))
        err = projection_error(H, list(qubits), list(sectors))
        ref = math.sqrt(sum(abs(c) ** 2 for t, c in H.terms.items() if any(q in qubits and p in 'XY' for q, p in t)))
        if abs(err - ref) > 1e-9: ctx.violation('C16 projection_error differs from the norm of the discarded terms', {'qubits': qubits, 'terms': repr(H.terms)})
    # ---- freeze_orbitals (+ pruning)
    for i in range(N(80, 600)):
        n = rng.choice([2, 3, 4, 5]); kf = rng.randint(1, n - 1)
        frozen = sorted(rng.sample(range(n), kf)); occv = [rng.randint(0, 1) for _ in frozen]
        occupied = [f for f, o in zip(frozen, occv) if o]; unocc = [f for f, o in zip(frozen, occv) if not o]
        H = mk_fermion(of, rand_fermion_terms(rng, n, rng.randint(1, 4), maxlen=4))
        if not exact_terms_ok(H.terms): continue
        try:
            Hf = freeze_orbitals(H, occupied, unocc if unocc else None, prune=True)
        except Exception as e:
            ctx.violation('C16 freeze_orbitals raised %s: %s' % (type(e).__name__, e), {'occupied': occupied, 'unoccupied': unocc, 'terms': repr(H.terms)}); continue
        # pruning renumbers only the indices that remain in use: compare on the full remaining register via an explicit monotone map
        used = sorted({j for t in Hf.terms for j, _ in t})
        rest = [j for j in range(n) if j not in frozen]
        # undo 'prune' (which compacts used indices) by mapping compact index -> the m-th smallest used remaining orbital
        Hn = freeze_orbitals(H, occupied, unocc if unocc else None, prune=False)
        used_np = sorted({j for t in Hn.terms for j, _ in t})
        mp = {c: rest.index(o) for c, o in enumerate(used_np)}
        if len(used) > len(used_np): ctx.violation('C16 freeze_orbitals(prune=True) uses more indices than the unpruned result', {'terms': repr(H.terms)}); continue
        Hr = {tuple((mp[j], a) for j, a in t): c for t, c in Hf.terms.items()}
        add('freeze_orbitals', '(freeze_ok %s %s %s %s %s)' % (cnat(n), cNl(frozen), cbl(occv), coq_fop(H), coq_fop_terms(Hr)),
            {'call': 'freeze_orbitals', 'n_modes': n, 'occupied': occupied, 'unoccupied': unocc, 'terms': {repr(t): repr(c) for t, c in H.terms.items()}}, key=(repr(H.terms), tuple(frozen), tuple(occv)))
    # ---- rotate_qubit_by_pauli = e^{-i theta P} Q e^{i theta P}
    for i in range(N(80, 600)):
        n = rng.choice([1, 2, 3, 4])
        Qo = mk_qubit(of, rand_qubit_terms(rng, n, rng.randint(1, 4)))
        P = Q(rand_pauli(rng, n))
        th = rng.choice([0.0, math.pi / 4, math.pi / 2, 0.3, -1.1, 2.5, rng.uniform(-3, 3)])
        R = rotate_qubit_by_pauli(Qo, P, th)
        add('rotate_qubit_by_pauli', '(rotate_ok %s %s %s %s %s %s)' % (cQ(Fraction(1, 10 ** 18)), cC(math.cos(th)), cC(math.sin(th)), coq_qop(Qo), coq_qop(P), coq_qop(R)),
            {'call': 'rotate_qubit_by_pauli', 'angle': th, 'Q': repr(Qo.terms), 'P': repr(P.terms)}, key=(repr(Qo.terms), repr(P.terms), th))
    # ---- symmetry_conserving_bravyi_kitaev: sector spectrum (numerical, supporting)
    for i in range(N(6, 40)):
        norb = rng.choice([2, 4] if ctx.quick else [2, 4, 6]); 
        terms = {}
        for _ in range(rng.randint(2, 5)):
            p, q = rng.randrange(norb // 2), rng.randrange(norb // 2); c = float(dy(rng) or 1.0)
            for sp in (0, 1):
                # spin-asymmetric on odd rounds: different amplitudes for up (even modes) and down (odd modes)
                cs = c if (i % 2 == 0 or sp == 0) else float(dy(rng) or 0.5)
                terms[((2 * p + sp, 1), (2 * q + sp, 0))] = cs; terms[((2 * q + sp, 1), (2 * p + sp, 0))] = cs
        if i % 2 == 1:
            p = rng.randrange(norb // 2); terms[((2 * p, 1), (2 * p, 0))] = terms.get(((2 * p, 1), (2 * p, 0)), 0.0) + float(dy(rng) or 1.0)   # Zeeman-like
        p, q = rng.randrange(norb // 2), rng.randrange(norb // 2); u = float(dy(rng) or 1.0)
        terms[((2 * p, 1), (2 * p, 0), (2 * q + 1, 1), (2 * q + 1, 0))] = u
        H = of.normal_ordered(mk_fermion(of, terms))
        for ne in range(1, norb):
            try:
                qop = of.symmetry_conserving_bravyi_kitaev(H, norb, ne)
            except Exception as e:
                ctx.violation('C16 symmetry_conserving_bravyi_kitaev raised %s: %s' % (type(e).__name__, e), {'active_orbitals': norb, 'active_fermions': ne, 'terms': repr(H.terms)}); continue
            ctx.count('scbk_numeric', 1, nontrivial_key=(repr(H.terms), ne))
            Hm = of.get_sparse_operator(H, norb).toarray()
            e_red = np.sort(np.linalg.eigvalsh(of.get_sparse_operator(qop, norb - 2).toarray())) if norb > 2 else np.array([qop.terms.get((), 0.0)]).real
            # two Z2 symmetries are used (parity of the electron number and of the spin-up number): the reduced
            # operator must have exactly the spectrum of H on the states with N = ne (mod 2) and one spin-up parity,
            # namely the one of the documented ground sectors (n_up = ne/2 rounded up or down)
            ok = False
            # the parity table of the implementation's docstring reference (arXiv:1704.05018) fixes n_up = ceil(ne / 2)
            for pup in {((ne + 1) // 2) % 2}:
                idx = [k for k in range(2 ** norb) if bin(k).count('1') % 2 == ne % 2 and
                       sum((k >> (norb - 1 - j)) & 1 for j in range(0, norb, 2)) % 2 == pup]
                e_sec = np.sort(np.linalg.eigvalsh(Hm[np.ix_(idx, idx)]))
                if len(e_sec) == len(e_red) and np.allclose(e_sec, e_red, atol=1e-7): ok = True
            if not ok:
                ctx.violation('C16 symmetry_conserving_bravyi_kitaev: the reduced operator does not have the spectrum of H on the (N parity, N_up parity) sector', {'active_orbitals': norb, 'active_fermions': ne, 'terms': repr(H.terms)})
    res = coq_eval_bools(ctx, 'c16', IMPORTS, items, chunk=30)
    judge(ctx, res, meta, 'C16')
