"""C17: chemistry reductions keep matrix elements: low rank, active space, RDMs."""
import os, itertools, tempfile
from fractions import Fraction
import numpy as np
from ..core import *
from ..ops import *
from .c04 import judge
from .c08 import spec_poly, cmat
from .c19 import rand_eri

IMPORTS = ('From OFV Require Import Base.Cplx Base.Lin Base.Mat Sem.PauliSem Sem.FermiSem Model.SymbolicOp Model.QubitOp Model.LadderOp Model.JordanWigner '
           'Check.DictEquiv Check.OpEquiv Check.Reductions Check.Conversions Thm.C01.FermiHom Thm.C17.RDMIdentities.\n')
NEEDS = ['Check/Reductions', 'Check/Conversions', 'Thm/C17/RDMIdentities']
LEVEL = 'translation_validation'
EPS2 = cQ(Fraction(1, 10 ** 16))
def cNl(l): return '(' + clist([cN(int(x)) for x in l]) + ' : list N)'
def cbl(l): return '(' + clist([cbool(bool(x)) for x in l]) + ' : list bool)'
def one_body_terms(g):
    g = np.asarray(g); d = {}
    for p in range(g.shape[0]):
        for q in range(g.shape[1]):
            if g[p, q] != 0: d[((p, 1), (q, 0))] = complex(g[p, q])
    return d

def run(ctx):
    from ..impl import of
    from openfermion.chem.molecular_data import spinorb_from_spatial
    from openfermion.circuits.low_rank import low_rank_two_body_decomposition, prepare_one_body_squared_evolution, get_chemist_two_body_coefficients
    from openfermion.ops.representations.interaction_operator import get_active_space_integrals, get_tensors_from_integrals
    from openfermion.transforms.repconversions.operator_tapering import freeze_orbitals
    rng = ctx.rng
    items, meta = [], []
    def add(part, expr, replay, key=None):
        items.append(expr); meta.append((part, replay)); ctx.count(part, 1, nontrivial_key=key)
    N = (lambda q, t: q if ctx.quick else t)
    def rand_h(n):
        h = np.zeros((n, n))
        for p in range(n):
            for q in range(p, n): h[p, q] = h[q, p] = rng.randint(-4, 4) / 4
        return h
    # ---- low rank decomposition at full rank reconstructs the two-body operator; truncation value = discarded weight
    for i in range(N(25, 200)):
        n = rng.choice([1, 2, 2])      # 3 spatial orbitals (6 modes: 46k-term substitutions with 53-bit fractions) exceed the evaluation budget
        eri = rand_eri(rng, n); _, two = spinorb_from_spatial(np.zeros((n, n)), eri); T = 0.5 * two
        # every third case passes the spatial tensor h[p,q,r,s] = T[2p,2q+1,2r+1,2s] with spin_basis=False: same spin-summed operator
        spatial = (i % 3 == 2)
        try:
            if spatial: lam, g, corr, tv = low_rank_two_body_decomposition(0.5 * eri, truncation_threshold=0.0, final_rank=n * n, spin_basis=False)
            else: lam, g, corr, tv = low_rank_two_body_decomposition(T, truncation_threshold=0.0, final_rank=n * n)
            if len(lam) != n * n or np.shape(g) != (n * n, 2 * n, 2 * n) or np.shape(corr) != (2 * n, 2 * n): raise ValueError('shapes %r %r %r' % (np.shape(lam), np.shape(g), np.shape(corr)))
        except Exception as e:
            ctx.count('low_rank_full', 1)
            ctx.violation('C17 low_rank_two_body_decomposition(spin_basis=%s) on %d spatial orbitals at full rank: %s: %s' % (not spatial, n, type(e).__name__, e), {'n_spatial': n, 'spin_basis': not spatial, 'eri': repr(eri.tolist())})
            continue
        target = spec_poly({(1, 1, 0, 0): T})
        parts = []
        for l in range(len(lam)):
            G = coq_fop_terms(one_body_terms(g[l]))
            parts.append('iscale (fmul %s %s) %s' % (G, G, cC(float(lam[l]))))
        parts.append(coq_fop_terms(one_body_terms(corr)))
        add('low_rank_full', '(fermi_close %s %s (%s))' % (EPS2, coq_fop_terms(target), ' ++ '.join(parts)),
            {'call': 'low_rank_two_body_decomposition (full rank, spin_basis=%s)' % (not spatial), 'n_spatial': n, 'eri': repr(eri.tolist())}, key=repr(eri.tolist()))
        if spatial:
            c_s, chem_s = get_chemist_two_body_coefficients(0.5 * eri, False); c_t, chem_t = get_chemist_two_body_coefficients(T, True)
            ctx.count('chemist_coefficients_spatial', 1, nontrivial_key=repr(eri.tolist()))
            if chem_s.shape != chem_t.shape or not np.allclose(chem_s, chem_t, atol=1e-12) or not np.allclose(c_s, c_t, atol=1e-12):
                ctx.violation('C17 get_chemist_two_body_coefficients: the spatial tensor with spin_basis=False and its spin-orbital expansion with spin_basis=True give different chemist tensors / corrections', {'n_spatial': n, 'eri': repr(eri.tolist())})
        # truncation bookkeeping for every rank: reported value = sum of the weights of the discarded terms
        _, chem = get_chemist_two_body_coefficients(T, True)
        ev, vec = np.linalg.eigh(chem.reshape(n * n, n * n))
        w = np.sort(np.array([abs(ev[l]) * np.sum(np.abs(np.kron(vec[:, l].reshape(n, n), np.eye(2)))) ** 2 for l in range(n * n)]))[::-1]
        for rank in range(1, n * n + 1):
            lam_r, g_r, _, tv_r = low_rank_two_body_decomposition(T, final_rank=rank)
            ctx.count('low_rank_truncation', 1, nontrivial_key=(repr(eri.tolist()), rank))
            if len(lam_r) != rank or abs(tv_r - np.sum(w[rank:])) > 1e-9:
                ctx.violation('C17 low_rank truncation value %r differs from the discarded weight %r (rank %d)' % (tv_r, float(np.sum(w[rank:])), rank), {'n_spatial': n, 'rank': rank, 'eri': repr(eri.tolist())})
        for thr in (1e-3, 0.5, 5.0):
            lam_t, g_t, _, tv_t = low_rank_two_body_decomposition(T, truncation_threshold=thr)
            ctx.count('low_rank_truncation', 1)
            if tv_t > thr + 1e-12 and len(lam_t) < n * n:
                ctx.violation('C17 low_rank: reported truncation value %r exceeds the threshold %r' % (tv_t, thr), {'n_spatial': n, 'eri': repr(eri.tolist())})
        # one-body squared evolution: (sum h a+a)^2 = R^dagger (sum V n n) R
        hm = rand_h(n); hso = np.kron(hm, np.eye(2))
        V, R = prepare_one_body_squared_evolution(hso, spin_basis=True)
        G = coq_fop_terms(one_body_terms(hso))
        nn = {}
        for a in range(2 * n):
            for b in range(2 * n):
                if V[a, b] != 0: nn[((a, 1), (a, 0), (b, 1), (b, 0))] = complex(V[a, b])
        add('one_body_squared', '(fermi_close %s (fmul %s %s) (subst_op %s %s %s))' % (EPS2, G, G, cmat(np.asarray(R).tolist()), cnat(2 * n), coq_fop_terms(nn)),
            {'call': 'prepare_one_body_squared_evolution', 'one_body': hm.tolist()}, key=repr(hm.tolist()))
        if spatial and n > 1:
            # spin_basis=False: the matrix is used as it stands (here a general symmetric matrix on n modes, no spin structure)
            V2, R2 = prepare_one_body_squared_evolution(hm, spin_basis=False)
            G2 = coq_fop_terms(one_body_terms(hm)); nn2 = {}
            for a in range(n):
                for b in range(n):
                    if V2[a, b] != 0: nn2[((a, 1), (a, 0), (b, 1), (b, 0))] = complex(V2[a, b])
            add('one_body_squared', '(fermi_close %s (fmul %s %s) (subst_op %s %s %s))' % (EPS2, G2, G2, cmat(np.asarray(R2).tolist()), cnat(n), coq_fop_terms(nn2)),
                {'call': 'prepare_one_body_squared_evolution(spin_basis=False)', 'one_body': hm.tolist()}, key=('s', repr(hm.tolist())))
    # ---- spin-orbital expansion and frozen-core active space = freezing orbitals of the full Hamiltonian
    for i in range(N(40, 300)):
        n = rng.choice([2, 3] if ctx.quick else [2, 3, 3])
        h = rand_h(n); eri = rand_eri(rng, n); nuc = float(dy(rng))
        one, two = spinorb_from_spatial(h, eri)
        # documented spin-orbital Hamiltonian: sum h_pq a+_{p s} a_{q s} + 1/2 sum (pq|rs)-convention [p,q,r,s] a+_{p s} a+_{q t} a_{r t} a_{s s}
        doc = {(): nuc} if nuc else {}
        def addt(t, c):
            if c != 0: doc[t] = doc.get(t, 0) + c
        for p, q in itertools.product(range(n), repeat=2):
            for s in (0, 1): addt(((2 * p + s, 1), (2 * q + s, 0)), h[p, q])
        for p, q, r, s_ in itertools.product(range(n), repeat=4):
            for s in (0, 1):
                for t in (0, 1): addt(((2 * p + s, 1), (2 * q + t, 1), (2 * r + t, 0), (2 * s_ + s, 0)), 0.5 * eri[p, q, r, s_])
        full = spec_poly({(): nuc, (1, 0): one, (1, 1, 0, 0): 0.5 * two})
        add('spinorb_expansion', '(fermi_equiv %s %s)' % (coq_fop_terms(full), coq_fop_terms(doc)), {'call': 'spinorb_from_spatial', 'n_spatial': n, 'one_body': h.tolist()}, key=repr((h.tolist(), eri.tolist())))
        o1, t1 = get_tensors_from_integrals(h, eri)
        add('tensors_from_integrals', '(fermi_equiv %s %s)' % (coq_fop_terms(spec_poly({(): nuc, (1, 0): o1, (1, 1, 0, 0): t1})), coq_fop_terms(doc)), {'call': 'get_tensors_from_integrals', 'n_spatial': n}, key=('t', repr((h.tolist(), eri.tolist()))))
        # the same through a MolecularData record carrying these integrals: get_integrals / get_molecular_hamiltonian
        mol = of.MolecularData([('H', (0, 0, 0)), ('H', (0, 0, 0.7414))], 'sto-3g', 1, filename=os.path.join(tempfile.gettempdir(), 'vf_c17_mol_%d' % os.getpid()))
        mol.nuclear_repulsion = nuc; mol.one_body_integrals = h.copy(); mol.two_body_integrals = eri.copy()
        try:
            mh = mol.get_molecular_hamiltonian()
            add('molecular_hamiltonian', '(fermi_equiv %s %s)' % (coq_fop_terms(spec_poly({(): mh.constant, (1, 0): mh.one_body_tensor, (1, 1, 0, 0): mh.two_body_tensor})), coq_fop_terms(doc)),
                {'call': 'MolecularData.get_molecular_hamiltonian', 'n_spatial': n, 'one_body': h.tolist(), 'eri': repr(eri.tolist()), 'nuclear_repulsion': nuc}, key=('m', repr((h.tolist(), eri.tolist()))))
        except Exception as e:
            ctx.count('molecular_hamiltonian', 1); ctx.violation('C17 MolecularData.get_molecular_hamiltonian raised %s: %s' % (type(e).__name__, e), {'one_body': h.tolist()})
        # every partition into occupied / active / virtual
        for k in range(0, n):
            for occ in itertools.combinations(range(n), k):
                rest = [j for j in range(n) if j not in occ]
                for m in range(1, len(rest) + 1):
                    for act in itertools.combinations(rest, m):
                        if rng.random() < N(0.5, 0.0): continue
                        virt = [j for j in rest if j not in act]
                        core, h_a, eri_a = get_active_space_integrals(h, eri, list(occ), list(act))
                        o_a, t_a = spinorb_from_spatial(h_a, eri_a)
                        active = spec_poly({(): nuc + core, (1, 0): o_a, (1, 1, 0, 0): 0.5 * t_a})
                        frozen = sorted([2 * j + s for j in list(occ) + virt for s in (0, 1)])
                        occv = [(f // 2) in occ for f in frozen]
                        if not exact_terms_ok(active, lo=30): continue
                        add('active_space', '(freeze_ok %s %s %s %s %s)' % (cnat(2 * n), cNl(frozen), cbl(occv), coq_fop_terms(full), coq_fop_terms(active)),
                            {'call': 'get_active_space_integrals', 'n_spatial': n, 'occupied': list(occ), 'active': list(act), 'one_body': h.tolist()}, key=(repr((h.tolist(), eri.tolist())), occ, act))
                        try:
                            mha = mol.get_molecular_hamiltonian(occupied_indices=list(occ), active_indices=list(act))
                            ctx.count('molecular_hamiltonian_active', 1, nontrivial_key=(repr((h.tolist(), eri.tolist())), occ, act))
                            if not (abs(mha.constant - (nuc + core)) < 1e-12 and np.array_equal(mha.one_body_tensor, o_a) and np.array_equal(mha.two_body_tensor, 0.5 * t_a)):
                                ctx.violation('C17 MolecularData.get_molecular_hamiltonian(occupied, active) differs from the spin-orbital expansion of get_active_space_integrals',
                                              {'n_spatial': n, 'occupied': list(occ), 'active': list(act), 'one_body': h.tolist(), 'eri': repr(eri.tolist())})
                        except Exception as e:
                            ctx.violation('C17 MolecularData.get_molecular_hamiltonian(occupied, active) raised %s: %s' % (type(e).__name__, e), {'occupied': list(occ), 'active': list(act)})
                        # and agreement with freeze_orbitals on the fermion operator
                        occ_so = [2 * j + s for j in occ for s in (0, 1)]; virt_so = [2 * j + s for j in virt for s in (0, 1)]
                        if rng.random() < 0.6:
                            # the documented arguments are plain lists of spin orbitals: any order (e.g. all spin-up first)
                            occ_so = [2 * j for j in occ] + [2 * j + 1 for j in occ] if rng.random() < 0.5 else rng.sample(occ_so, len(occ_so))
                            virt_so = rng.sample(virt_so, len(virt_so))
                        fo = freeze_orbitals(of.get_fermion_operator(of.InteractionOperator(nuc, one, 0.5 * two)), occ_so, virt_so or None, prune=True)
                        if m == len(rest) or True:
                            used = sorted({jj for t in fo.terms for jj, _ in t})
                            # pruning compacts only used indices; compare when every active spin orbital is used
                            if len(used) == 2 * m and exact_terms_ok(fo.terms, lo=30):
                                add('active_space_vs_freeze_orbitals', '(fermi_equiv %s %s)' % (coq_fop(fo), coq_fop_terms(active)),
                                    {'call': 'freeze_orbitals vs active-space Hamiltonian', 'occupied': list(occ), 'active': list(act)}, key=('f', repr((h.tolist(), eri.tolist())), occ, act))
    # ---- four spatial orbitals with interleaved core and active orbitals (core {0,2} or {1}, active orbitals between and above):
    #      freeze_orbitals with its orbital lists in any order against the active-space Hamiltonian
    for i in range(N(2, 10)):
        n = 4; h = rand_h(n); eri = rand_eri(rng, n); nuc = float(dy(rng))
        one, two = spinorb_from_spatial(h, eri)
        occ, act = rng.choice([((0, 2), (1, 3)), ((1,), (0, 3)), ((0, 2), (1,)), ((2,), (0, 1, 3))])
        virt = [j for j in range(n) if j not in occ and j not in act]
        core, h_a, eri_a = get_active_space_integrals(h, eri, list(occ), list(act))
        o_a, t_a = spinorb_from_spatial(h_a, eri_a)
        active = spec_poly({(): nuc + core, (1, 0): o_a, (1, 1, 0, 0): 0.5 * t_a})
        occ_so = [2 * j for j in occ] + [2 * j + 1 for j in occ]; virt_so = [2 * j + s for j in virt for s in (1, 0)]
        if rng.random() < 0.5: occ_so = occ_so[::-1]
        fo = freeze_orbitals(of.get_fermion_operator(of.InteractionOperator(nuc, one, 0.5 * two)), list(occ_so), list(virt_so) or None, prune=True)
        used = sorted({jj for t in fo.terms for jj, _ in t})
        if len(used) == 2 * len(act) and exact_terms_ok(fo.terms, lo=30) and exact_terms_ok(active, lo=30):
            add('active_space_vs_freeze_orbitals', '(fermi_equiv %s %s)' % (coq_fop(fo), coq_fop_terms(active)),
                {'call': 'freeze_orbitals vs active-space Hamiltonian (4 spatial orbitals)', 'occupied': list(occ_so), 'unoccupied': list(virt_so), 'one_body': h.tolist(), 'eri': repr(eri.tolist())}, key=('f4', repr((h.tolist(), eri.tolist())), occ, act))
    # ---- RDMs of random N-particle states (numerical, supporting): expectations and mapping functions
    from openfermion.utils import rdm_mapping_functions as rm
    for i in range(N(10, 60)):
        nq = rng.choice([3, 4] if ctx.quick else [3, 4, 5]); ne = rng.randint(2, nq - 1)
        idx = [k for k in range(2 ** nq) if bin(k).count('1') == ne]
        psi = np.zeros(2 ** nq, dtype=complex)
        for k in idx: psi[k] = complex(dy(rng), dy(rng))
        if not np.any(psi): psi[idx[0]] = 1.0
        psi = psi / np.linalg.norm(psi)
        def ev(op): return psi.conj() @ (of.get_sparse_operator(op, nq) @ psi)
        D1 = np.array([[ev(of.FermionOperator(((p, 1), (q, 0)))) for q in range(nq)] for p in range(nq)])
        D2 = np.zeros((nq,) * 4, dtype=complex)
        for p, q, r, s in itertools.product(range(nq), repeat=4): D2[p, q, r, s] = ev(of.FermionOperator(((p, 1), (q, 1), (r, 0), (s, 0))))
        rdm = of.InteractionRDM(D1, D2)
        h1 = np.zeros((nq, nq), dtype=complex); h2 = np.zeros((nq,) * 4, dtype=complex)
        for _ in range(4):
            p, q = rng.randrange(nq), rng.randrange(nq); c = dyc(rng, real=(p == q)); h1[p, q] = c; h1[q, p] = np.conj(c)
        p, q = rng.randrange(nq), rng.randrange(nq); h2[p, q, q, p] = float(dy(rng) or 1.0)
        iop = of.InteractionOperator(float(dy(rng)), h1, h2)
        ctx.count('rdm_numeric', 1, nontrivial_key=(nq, ne, i))
        if abs(rdm.expectation(iop) - ev(of.get_fermion_operator(iop))) > 1e-9:
            ctx.violation('C17 InteractionRDM.expectation differs from <psi|H|psi>', {'n_qubits': nq, 'n_electrons': ne})
        # InteractionRDM.get_qubit_expectations / expectation(QubitOperator): every Pauli string in the JW image of a one- or
        # two-body number-conserving term (spin-flipping ones included; the state is not an S_z eigenstate) against <psi|P|psi>
        pstrs = set()
        for _ in range(6):
            a_, b_, c_, d_ = (rng.randrange(nq) for _ in range(4))
            pstrs |= set(of.jordan_wigner(of.FermionOperator(((a_, 1), (b_, 0))) + of.FermionOperator(((b_, 1), (a_, 0)))).terms)
            if a_ != b_ and c_ != d_: pstrs |= set(of.jordan_wigner(of.FermionOperator(((a_, 1), (b_, 1), (c_, 0), (d_, 0))) + of.FermionOperator(((d_, 1), (c_, 1), (b_, 0), (a_, 0)))).terms)
        qtest = of.QubitOperator()
        for t in sorted(pstrs)[:12]: qtest += of.QubitOperator(t, float(dy(rng) or 1.0))
        try:
            qexp = rdm.get_qubit_expectations(qtest)
            tot = rdm.expectation(qtest)
            ref_tot = 0.0
            for t, c in qtest.terms.items():
                ref = complex(psi.conj() @ (of.get_sparse_operator(of.QubitOperator(t), nq) @ psi)); ref_tot += c * ref
                ctx.count('rdm_qubit_expectations', 1, nontrivial_key=(i, t))
                if abs(complex(qexp.terms.get(t, 0.0)) - ref) > 1e-9:
                    ctx.violation('C17 InteractionRDM.get_qubit_expectations(%r) = %r differs from <psi|P|psi> = %r' % (t, complex(qexp.terms.get(t, 0.0)), ref), {'n_qubits': nq, 'n_electrons': ne, 'pauli': repr(t)})
            if abs(complex(tot) - ref_tot) > 1e-8:
                ctx.violation('C17 InteractionRDM.expectation(QubitOperator) differs from <psi|Q|psi>', {'n_qubits': nq, 'n_electrons': ne, 'terms': repr(qtest.terms)})
        except Exception as e:
            ctx.violation('C17 InteractionRDM qubit expectations raised %s: %s' % (type(e).__name__, e), {'n_qubits': nq, 'terms': repr(qtest.terms)})
        qe = {}
        # get_interaction_rdm from qubit expectations of the JW images
        from openfermion.measurements import get_interaction_rdm
        all_terms = set()
        for p, q in itertools.product(range(nq), repeat=2): all_terms |= set(of.jordan_wigner(of.FermionOperator(((p, 1), (q, 0)))).terms)
        for p, q, r, s in itertools.product(range(nq), repeat=4): all_terms |= set(of.jordan_wigner(of.FermionOperator(((p, 1), (q, 1), (r, 0), (s, 0)))).terms)
        expect = of.QubitOperator()
        for t in all_terms: expect.terms[t] = complex(psi.conj() @ (of.get_sparse_operator(of.QubitOperator(t), nq) @ psi))
        try:
            r2 = get_interaction_rdm(expect, nq)
            if not np.allclose(r2.one_body_tensor, D1, atol=1e-9) or not np.allclose(r2.two_body_tensor, D2, atol=1e-9):
                ctx.violation('C17 get_interaction_rdm does not reproduce the RDMs of the state', {'n_qubits': nq, 'n_electrons': ne})
        except Exception as e:
            ctx.violation('C17 get_interaction_rdm raised %s: %s' % (type(e).__name__, e), {'n_qubits': nq})
        # mapping functions (OpenFermion conventions: tpdm[p,q,r,s] = <p+ q+ r s>)
        try:
            opdm = rm.map_two_pdm_to_one_pdm(D2, ne)
            if not np.allclose(opdm, D1, atol=1e-9): ctx.violation('C17 map_two_pdm_to_one_pdm differs from the 1-RDM of the state', {'n_qubits': nq, 'n_electrons': ne})
            oh = rm.map_one_pdm_to_one_hole_dm(D1)
            Q1 = np.array([[ev(of.FermionOperator(((p, 0), (q, 1)))) for q in range(nq)] for p in range(nq)])
            if not np.allclose(oh, Q1, atol=1e-9): ctx.violation('C17 map_one_pdm_to_one_hole_dm differs from <a_p a+_q>', {'n_qubits': nq, 'n_electrons': ne})
            th = rm.map_two_pdm_to_two_hole_dm(D2, D1)
            Q2 = np.zeros((nq,) * 4, dtype=complex)
            for p, q, r, s in itertools.product(range(nq), repeat=4): Q2[p, q, r, s] = ev(of.FermionOperator(((p, 0), (q, 0), (r, 1), (s, 1))))
            if not np.allclose(th, Q2, atol=1e-9): ctx.violation('C17 map_two_pdm_to_two_hole_dm differs from <a_p a_q a+_r a+_s>', {'n_qubits': nq, 'n_electrons': ne})
            ph = rm.map_two_pdm_to_particle_hole_dm(D2, D1)
            G2 = np.zeros((nq,) * 4, dtype=complex)
            for p, q, r, s in itertools.product(range(nq), repeat=4): G2[p, q, r, s] = ev(of.FermionOperator(((p, 1), (q, 0), (r, 1), (s, 0))))
            if not np.allclose(ph, G2, atol=1e-9): ctx.violation('C17 map_two_pdm_to_particle_hole_dm differs from <a+_p a_q a+_r a_s>', {'n_qubits': nq, 'n_electrons': ne})
        except Exception as e:
            ctx.violation('C17 rdm mapping raised %s: %s' % (type(e).__name__, e), {'n_qubits': nq})
    ctx.sample({'part': 'active_space', 'note': 'all occupied/active/virtual partitions of 2-3 spatial orbitals with eight-fold symmetric dyadic integrals'})
    # ---- RDM mapping functions as formulas: on ARBITRARY Gaussian-integer tensors the returned arrays equal, entry by
    #      entry, the right-hand sides whose operator identities are the [B] theorems C17_rdm_*_identity_4; inverses undo them
    def ct2(M): return '(' + clist(['(' + clist([cC(complex(x)) for x in row]) + ' : list C)' for row in M]) + ' : list (list C))'
    def ct4(T): return '(' + clist(['(' + clist(['(' + clist(['(' + clist([cC(complex(x)) for x in c]) + ' : list C)' for c in b]) + ' : list (list C))' for b in a]) + ' : list (list (list C)))' for a in T]) + ' : list (list (list (list C))))'
    for i in range(N(8, 40)):
        n = rng.choice([2, 3])
        gi = lambda: complex(rng.randint(-3, 3), rng.randint(-3, 3) if rng.random() < 0.6 else 0)
        T1 = np.array([[gi() for _ in range(n)] for _ in range(n)]); T2 = np.array([gi() for _ in range(n ** 4)]).reshape((n,) * 4)
        T2 = T2 + T2.transpose(1, 0, 3, 2)      # pair-exchange symmetry T[p,q,r,s] = T[q,p,s,r] (shared by every 2-RDM): the space on which the maps are mutually inverse
        rp = {'call': 'rdm mapping functions on arbitrary tensors', 'n': n, 'opdm': repr(T1.tolist()), 'tpdm': repr(T2.tolist())}
        try:
            th = rm.map_two_pdm_to_two_hole_dm(T2, T1); ph = rm.map_two_pdm_to_particle_hole_dm(T2, T1); oh = rm.map_one_pdm_to_one_hole_dm(T1)
            back = [rm.map_two_hole_dm_to_two_pdm(th, T1), rm.map_particle_hole_dm_to_two_pdm(ph, T1), rm.map_one_hole_dm_to_one_pdm(oh)]
        except Exception as e:
            ctx.violation('C17 rdm mapping function raised %s: %s' % (type(e).__name__, e), rp); continue
        add('rdm_map_formulas', '(two_hole_map_ok %s %s %s %s && particle_hole_map_ok %s %s %s %s && one_hole_map_ok %s %s %s)' %
            (cnat(n), ct2(T1), ct4(T2), ct4(th), cnat(n), ct2(T1), ct4(T2), ct4(ph), cnat(n), ct2(T1), ct2(oh)), rp, key=(n, i))
        ctx.count('rdm_map_inverses', 1, nontrivial_key=(n, i))
        if not (np.array_equal(back[0], T2) and np.array_equal(back[1], T2) and np.array_equal(back[2], T1)):
            ctx.violation('C17 rdm mapping functions: an inverse map does not undo its forward map exactly', rp)
    res = coq_eval_bools(ctx, 'c17', IMPORTS, items, chunk=20)
    judge(ctx, res, meta, 'C17')
