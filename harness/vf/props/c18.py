"""C18: measurement schedules cover every required term and partition the operator."""
import itertools
from ..core import *
from ..ops import *
from .c04 import judge

IMPORTS = 'From OFV Require Import Base.Cplx Sem.PauliSem Model.SymbolicOp Model.QubitOp Model.Grouping Check.Schedules Thm.C18.PairBetween.\n'
NEEDS = ['Check/Schedules', 'Model/Grouping', 'Thm/C18/Grouping', 'Thm/C18/PairBetween']
LEVEL = 'proof'

def centry(e):
    if isinstance(e, tuple):
        if len(e) != 2 or e[0] is None or e[1] is None: raise ValueError('malformed pairing entry %r' % (e,))
        return '(inl (%s, %s))' % (cnat(e[0]), cnat(e[1]))
    if e is None: raise ValueError('None label in a pairing')
    return '(inr %s)' % cnat(e)
def cpairing(p): return '(' + clist([centry(e) for e in p]) + ' : pairing)'
def cpairings(ps): return '(' + clist([cpairing(p) for p in ps]) + ' : list pairing)'
def cnl(l): return '(' + clist([cnat(x) for x in l]) + ' : list nat)'

def run(ctx):
    from ..impl import of
    from openfermion.measurements import fermion_partitioning as fp, qubit_partitioning as qp
    rng = ctx.rng
    items, meta = [], []
    def add(part, expr, replay, key=None):
        items.append(expr); meta.append((part, replay)); ctx.count(part, 1, nontrivial_key=key)
    def guarded(part, replay, fn):
        try: return fn()
        except Exception as e:
            ctx.violation('C18 %s: %s: %s' % (part, type(e).__name__, e), dict(replay, error=repr(e))); return None
    N = (lambda q, t: q if ctx.quick else t)
    # pair_within: all lengths up to nmax
    nmax = N(40, 96)
    for n in range(1, nmax + 1):
        lab = list(range(n)); rp = {'call': 'pair_within', 'labels': 'range(%d)' % n}
        ps = guarded('pair_within', rp, lambda: [tuple(p) for p in fp.pair_within(lab)])
        if ps is None: continue
        e = guarded('pair_within', rp, lambda: '(pair_within_ok %s %s)' % (cnl(lab), cpairings(ps)))
        if e: add('pair_within', e, rp, key=n)
    ctx.parts['pair_within']['exhaustive'] = 'all lengths 1..%d' % nmax
    # the same on label lists in which 0 (a falsy label) is not the first element: rotations, reversal, random permutations
    for n in range(2, N(30, 60) + 1):
        for variant in ('rot', 'rev', 'perm'):
            lab = list(range(n))
            if variant == 'rot': r = rng.randrange(1, n); lab = lab[r:] + lab[:r]
            elif variant == 'rev': lab = lab[::-1]
            else: rng.shuffle(lab)
            rp = {'call': 'pair_within', 'labels': repr(lab)}
            ps = guarded('pair_within', rp, lambda: [tuple(p) for p in fp.pair_within(list(lab))])
            if ps is None: continue
            e = guarded('pair_within', rp, lambda: '(pair_within_ok %s %s)' % (cnl(lab), cpairings(ps)))
            if e: add('pair_within_labels', e, rp, key=(n, variant))
    # pair_between: all length pairs
    m = N(9, 14)
    for a, b in itertools.product(range(1, m + 1), repeat=2):
        f1, f2 = list(range(a)), list(range(100, 100 + b)); rp = {'call': 'pair_between', 'lens': [a, b]}
        ps = guarded('pair_between', rp, lambda: [tuple(p) for p in fp.pair_between(f1, f2)])
        if ps is None: continue
        e = guarded('pair_between', rp, lambda: '(pair_between_ok %s %s %s)' % (cnl(f1), cnl(f2), cpairings(ps)))
        if e: add('pair_between', e, rp, key=(a, b))
        # the same output as index pairs (position in frag1, position in frag2) against the proved index model
        def idxpairs(pairing): return '(' + clist(['(%s, %s)' % (cnat(x[0]), cnat(x[1] - 100)) for x in pairing if isinstance(x, tuple) and len(x) == 2]) + ' : list (nat * nat))'
        e2 = guarded('pair_between', rp, lambda: '(pb_model_ok %s %s (%s : list (list (nat * nat))))' % (cnat(a), cnat(b), clist([idxpairs(p) for p in ps])))
        if e2: add('pair_between_model', e2, rp, key=(a, b))
    # pair_within_simultaneously
    for n in range(4, N(17, 25)):
        lab = list(range(n)); rp = {'call': 'pair_within_simultaneously', 'labels': 'range(%d)' % n}
        ps = guarded('pair_within_simultaneously', rp, lambda: [tuple(p) for p in fp.pair_within_simultaneously(lab)])
        if ps is None: continue
        e = guarded('pair_within_simultaneously', rp, lambda: '(pws_ok %s %s)' % (cnl(lab), cpairings(ps)))
        if e: add('pair_within_simultaneously', e, rp, key=n)
    # longer lists (block sizes like (4,5,5,5), (6,7,7,7) only occur from length 19 on): the same quadruple-coverage
    # property decided by a direct enumeration in the harness (supporting; the Coq checker covers the shorter lists)
    for n in range(N(17, 25), N(45, 81)):
        lab = list(range(n)); rp = {'call': 'pair_within_simultaneously', 'labels': 'range(%d)' % n}
        ps = guarded('pair_within_simultaneously', rp, lambda: [tuple(p) for p in fp.pair_within_simultaneously(lab)])
        if ps is None: continue
        covered = set(); bad = None
        for pairing in ps:
            prs = [tuple(e) for e in pairing if isinstance(e, tuple) and len(e) == 2]
            flat_ = [x for e in prs for x in e] + [e for e in pairing if not isinstance(e, tuple)] + [e[0] for e in pairing if isinstance(e, tuple) and len(e) == 1]
            if sorted(flat_) != lab: bad = 'a pairing is not a partition of the labels into pairs (and at most one single)'
            for a_ in range(len(prs)):
                for b_ in range(a_ + 1, len(prs)): covered.add(frozenset(prs[a_] + prs[b_]))
        ctx.count('pair_within_simultaneously_long', 1, nontrivial_key=n)
        if bad is None:
            miss = next((q for q in itertools.combinations(lab, 4) if frozenset(q) not in covered), None)
            if miss is not None: bad = 'the quadruple %r is never split into two simultaneous pairs' % (miss,)
        if bad: ctx.violation('C18 pair_within_simultaneously(range(%d)): %s' % (n, bad), rp)
    # symmetric / binned variants: quadruples whose bin indices xor to zero must be covered
    for nf in range(2, N(9, 12)):
        for ns in range(0, N(4, 5)):
            if 2 ** ns > 2 * nf: continue
            lab = list(range(2 * nf)); rp = {'call': 'pair_within_simultaneously_symmetric', 'num_fermions': nf, 'num_symmetries': ns}
            ps = guarded('pws_symmetric', rp, lambda: [tuple(p) for p in fp.pair_within_simultaneously_symmetric(nf, ns)])
            if ps is None: continue
            allowed = '(fun q => match q with [i; j; k; l] => Nat.eqb (Nat.lxor (Nat.lxor (Nat.modulo i %d) (Nat.modulo j %d)) (Nat.lxor (Nat.modulo k %d) (Nat.modulo l %d))) 0 | _ => false end)' % ((2 ** ns,) * 4)
            e = guarded('pws_symmetric', rp, lambda: '(pws_sym_ok %s %s %s)' % (cnl(lab), allowed, cpairings(ps)))
            if e: add('pws_symmetric', e, rp, key=(nf, ns))
    # _asynchronous_iter (all pairs between K lists of length L) and _get_padding, complete small ranges
    for K in range(2, N(10, 15)):
        for L in range(1, N(7, 10)):
            lists = [[100 * k + i for i in range(L if (k + L) % 3 else max(1, L - 1))] for k in range(K)]
            rp = {'call': '_asynchronous_iter', 'num_lists': K, 'list_length': L}
            def flat(o):
                if isinstance(o, (tuple, list)): return [y for x in o for y in flat(x)]
                return [] if o is None else [o]
            outs = guarded('asynchronous_iter', rp, lambda: [flat(o) for o in fp._asynchronous_iter([iter(l) for l in lists])])
            if outs is None: continue
            lit = '(' + clist([cnl(o) for o in outs]) + ' : list (list nat))'
            add('asynchronous_iter', '(async_ok %s %s)' % ('(' + clist([cnl(l) for l in lists]) + ' : list (list nat))', lit), rp, key=(K, L))
    rows = []
    for nb in range(2, N(14, 20)):
        for bs in range(1, N(14, 30)):
            rows.append('padding_ok %s %s %s' % (cnat(nb), cnat(bs), cnat(fp._get_padding(nb, bs))))
    for j in range(0, len(rows), 120):
        add('get_padding', '(forallb (fun b : bool => b) %s)' % clist(['(' + r + ')' for r in rows[j:j + 120]]), {'call': '_get_padding', 'rows': rows[j:j + 2]}, key=j)
    # partition iterators and pauli_string_iterator
    for n in range(2, N(13, 21)):
        for k in range(1, min(n, 4) + 1):
            lab = list(range(n)); rp = {'call': 'partition_iterator', 'n': n, 'k': k}
            parts = guarded('partition_iterator', rp, lambda: [[list(x) for x in p] for p in qp.partition_iterator(lab, k)])
            if parts is None: continue
            lit = '(' + clist([clist([cnl(x) for x in p]) for p in parts]) + ' : list (list (list nat)))'
            add('partition_iterator', '(partitions_ok %s %s %s)' % (cnl(lab), cnat(k), lit), rp, key=(n, k))
    for n in range(1, N(7, 9)):
        for k in range(1, min(n, 3) + 1):
            rp = {'call': 'pauli_string_iterator', 'n': n, 'k': k}
            ws = guarded('pauli_string_iterator', rp, lambda: [list(w) for w in qp.pauli_string_iterator(n, k)])
            if ws is None: continue
            lit = '(' + clist([cnl(['IXYZ'.index(c) for c in w]) for w in ws]) + ' : list (list nat))'
            add('pauli_string_iterator', '(pauli_strings_ok %s %s %s)' % (cnat(n), cnat(k), lit), rp, key=(n, k))
    # group_into_tensor_product_basis_sets: for many seeds
    for i in range(N(60, 400)):
        nq = rng.choice([2, 3, 4, 5, 6])
        op = mk_qubit(of, rand_qubit_terms(rng, nq, rng.randint(1, 14), maxlen=rng.choice([2, 3, 5])))
        for seed in ([None] + rng.sample(range(1000), N(3, 8))):
            rp = {'call': 'group_into_tensor_product_basis_sets', 'seed': seed, 'terms': {repr(t): repr(c) for t, c in op.terms.items()}}
            shuffles = []
            def recorded():
                # record every shuffle the implementation performs (the proved model takes them as its `choose`)
                import numpy
                orig = numpy.random.RandomState
                class Rec:
                    def __init__(self, sd=None): self.r = orig(sd)
                    def shuffle(self, x): self.r.shuffle(x); shuffles.append(list(x))
                    def __getattr__(self, a): return getattr(self.r, a)
                numpy.random.RandomState = Rec
                try: return qp.group_into_tensor_product_basis_sets(op, seed)
                finally: numpy.random.RandomState = orig
            g = guarded('grouping', rp, recorded)
            if g is None: continue
            if len(shuffles) == len(op.terms):
                orders = '(' + clist(['(' + clist([coq_qterm(b) for b in sh]) + ' : list gkey)' for sh in shuffles]) + ' : list (list gkey))'
                res_lit = '(' + clist([cpair(coq_qterm(k), '(' + clist([cpair(coq_qterm(t), cC(c)) for t, c in v.terms.items()]) + ' : list (pword * C))') for k, v in g.items()]) + ' : list group)'
                add('grouping_model', '(grouping_model_ok %s %s %s)' % (orders, coq_qop(op), res_lit), dict(rp, shuffles=repr(shuffles)), key=(repr(op.terms), seed))
            else:
                ctx.violation('C18 grouping: the implementation no longer shuffles the bases once per term (model tie lost)', rp, no_input=True)
            lit = '(' + clist([cpair(coq_qterm(k), coq_qop(v)) for k, v in g.items()]) + ' : list (pword * qop))'
            add('grouping', '(grouping_ok %s %s)' % (coq_qop(op), lit), rp, key=(repr(op.terms), seed))
        if i < 2: ctx.sample({'part': 'grouping', 'operator': str(op), 'groups': {repr(k): str(v) for k, v in g.items()}})
    res = coq_eval_bools(ctx, 'c18', IMPORTS, items, chunk=12, timeout=1500)
    judge(ctx, res, meta, 'C18')
