"""C19: LCU sampling tables and cost arithmetic are exact."""
import itertools, math, os, tempfile
from dataclasses import replace as dataclasses_replace
from fractions import Fraction
import numpy as np
from ..core import *
from ..ops import *
from .c04 import judge

IMPORTS = ('From OFV Require Import Base.Cplx Sem.PauliSem Model.SymbolicOp Model.QubitOp Model.LadderOp Model.JordanWigner Model.Predicates '
           'Model.LCU Check.OpEquiv Check.OneNorm.\n')
NEEDS = ['Thm/C19/Alias', 'Thm/C19/AliasF', 'Check/OneNorm']
def cZl(l): return '(' + clist([cZ(int(x)) for x in l]) + ' : list Z)'

def rand_eri(rng, n):
    """real two-electron integrals with the eight-fold symmetry, OpenFermion index convention"""
    B = np.zeros((2, n, n))
    for L in range(2):
        for p in range(n):
            for q in range(p, n): B[L, p, q] = B[L, q, p] = rng.randint(-2, 2) / 2
    chem = np.einsum('Lpq,Lrs->pqrs', B, B)
    return np.transpose(chem, (0, 2, 3, 1))

def run(ctx):
    from ..impl import of
    from openfermion.circuits import lcu_util as lu
    from openfermion.functionals.get_one_norm import get_one_norm_int, get_one_norm_int_woconst
    from openfermion.chem.molecular_data import spinorb_from_spatial
    from openfermion.resource_estimates import utils as ru
    from openfermion.resource_estimates.thc.compute_cost_thc import compute_cost
    from openfermion.resource_estimates.sparse.costing_sparse import cost_sparse
    from .c04 import spec_tensor
    rng = ctx.rng
    items, meta = [], []
    def add(part, expr, replay, key=None):
        items.append(expr); meta.append((part, replay)); ctx.count(part, 1, nontrivial_key=key)
    N = (lambda q, t: q if ctx.quick else t)
    # ---- alias tables: exhaustive small weight lists, random large ones; implementation vs model and vs the exactness checker
    def comps(n, total):
        if n == 0:
            if total == 0: yield []
            return
        for k in range(total + 1):
            for r in comps(n - 1, total - k): yield [k] + r
    small = [w for n in range(1, N(5, 6)) for t in range(0, N(4, 6)) for w in comps(n, n * t)]
    big = []
    for _ in range(N(150, 1500)):
        n = rng.choice([2, 3, 7, 16, 50, 200]); t = rng.choice([1, 2, 8, 64, 1000])
        w = [0] * n
        kind = rng.random()
        for _ in range(n * t if kind < 0.5 else 0): w[rng.randrange(n)] += 1
        if kind >= 0.5:
            rem = n * t
            for i in range(n - 1):
                x = rng.randint(0, min(rem, 3 * t)); w[i] = x; rem -= x
            w[n - 1] = rem
        big.append(w)
    for w in small + big:
        rp = {'call': '_preprocess_for_efficient_roulette_selection', 'weights': w if len(w) <= 20 else w[:20] + ['...']}
        try:
            alt, keep = lu._preprocess_for_efficient_roulette_selection(w)
        except Exception as e:
            ctx.violation('C19 alias_tables: %s: %s' % (type(e).__name__, e), dict(rp, error=repr(e))); continue
        add('alias_tables', '(alias_ok %s %s %s && match roulette %s with Some (a, k) => zlist_eqb a %s && zlist_eqb k %s | None => false end)' %
            (cZl(w), cZl(alt), cZl(keep), cZl(w), cZl(alt), cZl(keep)), rp, key=tuple(w) if len(set(w)) > 1 else None)
    ctx.parts['alias_tables']['exhaustive'] = 'all weight lists with n <= %d, t <= %d; plus %d random lists up to n = 200' % (N(4, 5), N(3, 5), len(big))
    # ---- preprocess_lcu_coefficients_for_reversible_sampling: discretisation within epsilon + exact table
    for i in range(N(150, 1500)):
        n = rng.choice([1, 2, 3, 5, 8, 13, 40])
        coeffs = [abs(rng.choice([rng.random(), rng.randint(1, 50) / 8, 1e-3 * rng.random(), 10 ** rng.uniform(-2, 2)])) for _ in range(n)]
        if sum(coeffs) == 0: continue
        eps = rng.choice([0.3, 0.1, 1e-2, 1e-4, 0.05])
        alt, keep, mu = lu.preprocess_lcu_coefficients_for_reversible_sampling(coeffs, eps)
        numers, denom, mu2 = lu._discretize_probability_distribution(coeffs, eps)
        t = 2 ** mu
        add('lcu_sampling', '(discretize_ok %s %s %s %s && alias_ok %s %s %s && forallb (fun k => (k <=? %s)%%Z) %s)' %
            ('(' + clist([cQ(Fraction(c)) for c in coeffs]) + ' : list Qcanon.Qc)', cQ(Fraction(eps)), cZl(numers), cZ(mu), cZl(numers), cZl(alt), cZl(keep), cZ(t), cZl(keep)),
            {'call': 'preprocess_lcu_coefficients_for_reversible_sampling', 'coefficients': coeffs, 'epsilon': eps}, key=(tuple(coeffs), eps))
        if i < 2: ctx.sample({'part': 'lcu_sampling', 'coefficients': coeffs, 'epsilon': eps, 'alternates': alt, 'keep_numers': keep, 'mu': mu})
    # ---- lambda_norm and one-norms against the 1-norm of the verified Jordan-Wigner image
    for i in range(N(60, 500)):
        n = rng.choice([1, 2, 3, 4])
        one = np.zeros((n, n)); two = np.zeros((n, n))
        for p in range(n):
            for q in range(p, n):
                one[p, q] = one[q, p] = dy(rng); two[p, q] = two[q, p] = dy(rng)
        dch = of.DiagonalCoulombHamiltonian(one, two, float(dy(rng)))
        val = lu.lambda_norm(dch)
        d = {}
        for p in range(n):
            for q in range(n):
                for t, c in ((((p, 1), (q, 0)), one[p, q]), (((p, 1), (p, 0), (q, 1), (q, 0)), two[p, q])):
                    if c != 0: d[t] = d.get(t, 0) + c
        add('lambda_norm', '(one_norm_ok %s false %s %s)' % (coq_fop_terms(d), cQ(Fraction(float(val))), cQ(Fraction(1, 10 ** 9))),
            {'call': 'lambda_norm', 'one_body': one.tolist(), 'two_body': two.tolist(), 'returned': float(val)}, key=repr(d))
    for i in range(N(25, 200)):
        n = rng.choice([1, 2, 2, 3] if ctx.quick else [1, 2, 3, 3])
        h = np.zeros((n, n))
        for p in range(n):
            for q in range(p, n): h[p, q] = h[q, p] = rng.randint(-4, 4) / 4
        eri = rand_eri(rng, n); const = rng.choice([0.0, 0.5, -1.25])
        if i % 4 == 3:
            # integer-valued integrals handed over as integer arrays (lattice / model Hamiltonians): same value required
            h = np.array([[int(rng.randint(-2, 2)) for _ in range(n)] for _ in range(n)]); h = h + h.T
            eri = np.round(rand_eri(rng, n) * 4).astype(np.int64)
            one, two = spinorb_from_spatial(h.astype(float), eri.astype(float))
        else:
            one, two = spinorb_from_spatial(h, eri)
        spec = spec_tensor(const, one, 0.5 * two)
        v1, v2 = get_one_norm_int(const, h, eri), get_one_norm_int_woconst(h, eri)
        if i % 2 == 0:
            # the MolecularData entry points: the values checked below are those of the record carrying these integrals
            from openfermion.functionals.get_one_norm import get_one_norm_mol, get_one_norm_mol_woconst
            # one record object is reused: its integrals change between the calls (e.g. after an orbital rotation)
            if '_c19_mol' not in globals() or rng.random() < 0.2:
                globals()['_c19_mol'] = of.MolecularData([('H', (0, 0, 0)), ('H', (0, 0, 0.7414))], 'sto-3g', 1, filename=os.path.join(tempfile.gettempdir(), 'vf_c19_mol_%d' % os.getpid()))
            mol = globals()['_c19_mol']
            mol.nuclear_repulsion = const; mol.one_body_integrals = h; mol.two_body_integrals = eri
            v1, v2 = get_one_norm_mol(mol), get_one_norm_mol_woconst(mol)
        add('get_one_norm', '(one_norm_ok %s true %s %s && one_norm_ok %s false %s %s)' % (coq_fop_terms(spec), cQ(Fraction(float(v1))), cQ(Fraction(1, 10 ** 9)), coq_fop_terms(spec), cQ(Fraction(float(v2))), cQ(Fraction(1, 10 ** 9))),
            {'call': 'get_one_norm_int / _woconst' if i % 2 else 'get_one_norm_mol / _woconst', 'constant': const, 'one_body_integrals': h.tolist(), 'two_body_integrals_nonzero': int(np.count_nonzero(eri)), 'returned': [float(v1), float(v2)]}, key=(repr(h.tolist()), repr(eri.tolist()), const))
    # ---- QROM helpers: complete ranges
    Lmax = N(600, 4096)
    rows = []
    for M in (1, 2, 3, 5, 8, 21, 64):
        for L in range(M, Lmax + 1, 1 if L_step(ctx) == 1 else 1):
            k, v = ru.QR(L, M)
            rows.append('qr_ok %s %s %s %s 20' % (cZ(L), cZ(M), cZ(k), cZ(v)))
    for L in range(1, N(2000, 8000)):
        k, v = ru.QI(L)
        rows.append('qi_ok %s %s %s 20' % (cZ(L), cZ(k), cZ(v)))
    for j in range(0, len(rows), 200):
        add('QR_QI', '(forallb (fun b : bool => b) %s)' % clist(['(' + r + ')' for r in rows[j:j + 200]]), {'call': 'QR/QI', 'rows': rows[j:j + 3]}, key=j)
    ctx.parts['QR_QI']['exhaustive'] = 'QR: all M <= L <= %d for 7 values of M; QI: all L < %d; minimum over all k in [0, 20)' % (Lmax, N(2000, 8000))
    for i in range(N(120, 1200)):
        L1, L2, M = rng.randint(1, 5000), rng.randint(1, 300), rng.randint(1, 40)
        a = ru.QR2(L1, L2, M); b = ru.QI2(L1, L2)
        add('QR2_QI2', '(qr2_ok %s %s %s %s %s %s && qi2_ok %s %s %s %s %s)' % (cZ(L1), cZ(L2), cZ(M), cZ(a[0]), cZ(a[1]), cZ(a[2]), cZ(L1), cZ(L2), cZ(b[0]), cZ(b[1]), cZ(b[2])),
            {'call': 'QR2/QI2', 'args': [L1, L2, M], 'returned': [a, b]}, key=(L1, L2, M))
    add('power_two', '(forallb (fun b : bool => b) %s)' % clist(['(power_two_ok %s %s)' % (cZ(m), cZ(ru.power_two(m))) for m in range(0, 1025)]), {'call': 'power_two', 'range': '0..1024'}, key=0)
    # ---- cost functions: total = step * ceil(pi lam / (2 dE)); monotone in lam and 1/dE; step independent of both
    for i in range(N(40, 300)):
        n = rng.choice([10, 26, 54, 108]); chi = rng.choice([10, 12]); beta = rng.choice([16, 20]); M = rng.choice([50, 100, 350]); stps = 20000
        lam1 = rng.uniform(5, 2000); lam2 = lam1 * rng.uniform(1.01, 3); dE1 = rng.choice([0.001, 0.0016, 0.01]); dE2 = dE1 * rng.uniform(1.01, 4)
        for name, fn in (('thc', lambda lam, dE: compute_cost(n, lam, dE, chi, beta, M, stps)), ('sparse', lambda lam, dE: cost_sparse(n, lam, rng_d, dE, chi, stps))):
            rng_d = rng.choice([1000, 5000, 20000, 4096])
            r11 = fn(lam1, dE1); r21 = fn(lam2, dE1); r12 = fn(lam1, dE2)
            add('cost_' + name, '(cost_ok %s %s %s %s && cost_ok %s %s %s %s && cost_ok %s %s %s %s && (%s =? %s)%%Z && (%s =? %s)%%Z && (%s <=? %s)%%Z && (%s <=? %s)%%Z)' %
                (cQ(Fraction(lam1)), cQ(Fraction(dE1)), cZ(r11[0]), cZ(r11[1]), cQ(Fraction(lam2)), cQ(Fraction(dE1)), cZ(r21[0]), cZ(r21[1]), cQ(Fraction(lam1)), cQ(Fraction(dE2)), cZ(r12[0]), cZ(r12[1]),
                 cZ(r11[0]), cZ(r21[0]), cZ(r11[0]), cZ(r12[0]), cZ(r11[1]), cZ(r21[1]), cZ(r12[1]), cZ(r11[1])),
                {'call': 'compute_cost' if name == 'thc' else 'cost_sparse', 'n': n, 'lam': [lam1, lam2], 'dE': [dE1, dE2], 'returned': [r11, r21, r12]}, key=(name, lam1, dE1))
    # loose precision targets: one to a handful of phase-estimation iterations (pi lam / (2 dE) around and below 1)
    for i in range(N(20, 120)):
        n = rng.choice([10, 26, 54]); chi = rng.choice([10, 12]); beta = rng.choice([16, 20]); M = rng.choice([50, 100]); stps = 20000; rng_d = rng.choice([1000, 4096])
        dE = rng.choice([1.0, 2.0, 4.0]); lam = rng.choice([0.05, 0.3, 0.6, 0.7, 1.2, 1.3, 2.5, 5.0]) * dE * rng.choice([1.0, 0.99, 1.01])
        for name, fn in (('thc', lambda lam_, dE_: compute_cost(n, lam_, dE_, chi, beta, M, stps)), ('sparse', lambda lam_, dE_: cost_sparse(n, lam_, rng_d, dE_, chi, stps))):
            try: r = fn(lam, dE)
            except Exception as e:
                ctx.stat('cost_small_ratio', 'raised_%s' % type(e).__name__); continue
            add('cost_small_ratio', '(cost_ok %s %s %s %s)' % (cQ(Fraction(lam)), cQ(Fraction(dE)), cZ(r[0]), cZ(r[1])),
                {'call': 'compute_cost' if name == 'thc' else 'cost_sparse', 'n': n, 'lam': lam, 'dE': dE, 'returned': list(r)}, key=(name, lam, dE, n))
    # ---- surface-code physical costing: AlgorithmParameters.estimate_cost and the search in cost_estimator
    import datetime
    from openfermion.resource_estimates.surface_code_compilation import physical_costing as pc
    facs = list(pc.iter_known_factories(physical_error_rate=1.0e-3)); facs4 = list(pc.iter_known_factories(physical_error_rate=1.0e-4))
    def spec_fail(prm, rounds):
        ls = math.ceil(prm.max_allocated_logical_qubits * (1 + prm.routing_overhead_proportion))
        return min(1.0, prm.magic_state_factory.failure_rate * prm.toffoli_count
                   + prm.proportion_of_bounding_box * 0.1 * (100 * prm.physical_error_rate) ** ((prm.logical_data_qubit_distance + 1) / 2) * ls * rounds)
    for i in range(N(60, 600)):
        per = rng.choice([1.0e-3, 1.0e-3, 1.0e-4]); fac = rng.choice(facs if per == 1.0e-3 else facs4)
        toff = rng.choice([rng.randint(1, 50), rng.randint(1, 10 ** 6), rng.randint(10 ** 6, 10 ** 11)]); fc = rng.choice([1, 2, 3, 4, 4, 6, 7])
        nlog = rng.randint(1, 5000); routing = rng.choice([0.0, 0.25, 0.5, 0.5, 0.75, 1.0]); dist = rng.choice(range(7, 35, 2)); cyc = rng.choice([1, 1, 2, 5])
        prm = pc.AlgorithmParameters(physical_error_rate=per, surface_code_cycle_time=datetime.timedelta(microseconds=cyc), logical_data_qubit_distance=dist,
                                     magic_state_factory=fac, toffoli_count=toff, max_allocated_logical_qubits=nlog, factory_count=fc,
                                     routing_overhead_proportion=routing, proportion_of_bounding_box=rng.choice([1, 1.0, 0.5]))
        rp = {'call': 'AlgorithmParameters.estimate_cost', 'factory': fac.details, 'factory_rounds': fac.rounds, 'footprint': fac.physical_qubit_footprint, 'toffoli_count': toff, 'factory_count': fc,
              'logical_qubits': nlog, 'routing': routing, 'distance': dist, 'cycle_us': cyc, 'physical_error_rate': per}
        try: ce = prm.estimate_cost()
        except Exception as e:
            ctx.count('physical_cost', 1); ctx.violation('C19 estimate_cost raised %s: %s' % (type(e).__name__, e), rp); continue
        us = ce.duration // datetime.timedelta(microseconds=1)
        rounds = us // cyc
        rp['returned'] = [int(ce.physical_qubit_count), int(us), float(ce.algorithm_failure_probability)]
        if ce.duration != rounds * datetime.timedelta(microseconds=cyc) or abs(ce.algorithm_failure_probability - spec_fail(prm, rounds)) > 1e-9 * max(1.0, spec_fail(prm, rounds)):
            ctx.violation('C19 estimate_cost: duration is not a whole number of cycles, or the failure probability differs from factory + data failure of the reported rounds', rp)
        add('physical_cost', '(phys_cost_ok %s %s %s %s %s %s %s %s %s)' % (cZ(toff), cZ(fc), cQ(Fraction(fac.rounds)), cZ(nlog), cQ(Fraction(routing)), cZ(dist), cZ(int(fac.physical_qubit_footprint)), cZ(int(rounds)), cZ(int(ce.physical_qubit_count))),
            rp, key=(toff, fc, fac.details, nlog, routing, dist))
    # cost_estimator: the returned estimate is that of the returned parameters, is admissible (failure <= 0.1) and minimises qubits x duration over all known factories and distances 7, 9, .., 33
    for i in range(N(6, 40)):
        nlog = rng.randint(50, 4000); toff = rng.choice([rng.randint(10 ** 4, 10 ** 7), rng.randint(10 ** 7, 10 ** 11)]); pbb = rng.choice([1.0, 0.5])
        rp = {'call': 'cost_estimator', 'num_logical_qubits': nlog, 'num_toffoli': toff, 'portion_of_bounding_box': pbb}
        ctx.count('cost_estimator', 1, nontrivial_key=(nlog, toff, pbb))
        try: best, prm = pc.cost_estimator(nlog, toff, physical_error_rate=1.0e-3, portion_of_bounding_box=pbb)
        except Exception as e:
            ctx.violation('C19 cost_estimator raised %s: %s' % (type(e).__name__, e), rp); continue
        cands = []
        for fac in facs:
            for dist in range(7, 35, 2):
                rounds_x = Fraction(toff) * Fraction(fac.rounds) / 4
                rnd = int(rounds_x)
                ls = math.ceil(nlog * 1.5); q = ls * 2 * (dist + 1) ** 2 + 4 * fac.physical_qubit_footprint
                fail = min(1.0, fac.failure_rate * toff + pbb * 0.1 * (100 * 1.0e-3) ** ((dist + 1) / 2) * ls * rnd)
                cands.append((q * rnd, fail, fac.details, dist))
        feas = [c for c in cands if c[1] <= 0.1 * (1 - 1e-9)]
        if best is None:
            if feas: ctx.violation('C19 cost_estimator returned no estimate although admissible layouts exist', dict(rp, example=repr(min(feas))))
            continue
        again = prm.estimate_cost()
        vol = best.physical_qubit_count * (best.duration // datetime.timedelta(microseconds=1))
        okk = (again == best and best.algorithm_failure_probability <= 0.1 and prm.toffoli_count == toff and prm.max_allocated_logical_qubits == nlog
               and all(vol <= c[0] * (1 + 1e-9) + c[0] / max(1, toff) for c in feas))
        if not okk:
            ctx.violation('C19 cost_estimator: the returned layout is not the admissible minimiser of qubits x duration (returned volume %r, best admissible %r)' % (vol, min(feas)[:1] if feas else None), dict(rp, returned=repr(best)))
        # doubling the Toffoli count doubles the duration of the same layout (up to one round)
        prm2 = dataclasses_replace(prm, toffoli_count=2 * toff); c2 = prm2.estimate_cost()
        d1 = best.duration // datetime.timedelta(microseconds=1); d2 = c2.duration // datetime.timedelta(microseconds=1)
        if abs(d2 - 2 * d1) > 2 or c2.physical_qubit_count != best.physical_qubit_count:
            ctx.violation('C19 estimate_cost: duration is not proportional to the Toffoli count (%r -> %r)' % (d1, d2), rp)
    res = coq_eval_bools(ctx, 'c19', IMPORTS, items, chunk=40, timeout=1500)
    judge(ctx, res, meta, 'C19')

def L_step(ctx): return 1
