"""C20: text and file round trips return the same operator."""
import os, tempfile, shutil, itertools
import numpy as np
from ..core import *
from ..ops import *
from .c04 import judge

IMPORTS = ('From Coq Require Import String.\nFrom OFV Require Import Base.Cplx Model.SymbolicOp Model.LadderOp Model.Program Model.Predicates Model.FileStore Check.DictEquiv.\nOpen Scope string_scope.\n')
NEEDS = ['Thm/C20/Store']
KCLS = {'FermionOperator': ('KFermion', {1: 1, 0: 0}), 'BosonOperator': ('KBoson', {1: 1, 0: 0}),
        'QubitOperator': ('KQubit', {'X': 1, 'Y': 2, 'Z': 3}), 'QuadOperator': ('KQuad', {'q': 0, 'p': 1})}
ACTS = {'FermionOperator': [1, 0], 'BosonOperator': [1, 0], 'QubitOperator': ['X', 'Y', 'Z'], 'QuadOperator': ['q', 'p']}

def cg(clsname, terms):
    amap = KCLS[clsname][1]
    return '(' + clist([cpair(clist(['(%s, %s)' % (cN(i), cN(amap[a])) for i, a in t]), cC(c)) for t, c in terms.items()]) + ' : gop)'

def rand_op(of, rng, clsname):
    cls = getattr(of, clsname); acts = ACTS[clsname]
    op = cls()
    kind = rng.random()
    if kind < 0.08: return op                                  # zero operator
    pool = rng.choice([[0, 1, 2], [0, 7, 12, 105], [3, 12345, 64, 10]])
    for _ in range(rng.randint(1, 5)):
        L = rng.randint(0, 4)
        if clsname == 'QubitOperator': t = tuple((q, rng.choice(acts)) for q in sorted(rng.sample(pool, min(L, len(pool)))))
        else: t = tuple((rng.choice(pool), rng.choice(acts)) for _ in range(L))
        c = rng.choice([1, -1, 3, 0.5, -2.25, 1e-3, 1.5e10, 1j, -2j, 0.5 - 1.5j, -1 + 0.25j, -0.0 - 1j, 1e-9, -3e-12, 2e-9j,
                        np.float64(0.75), np.complex128(1 - 2j), np.int64(4), np.float32(0.5), np.complex64(0.5 + 1.5j), np.complex64(-2j), np.float16(0.25), np.int32(-3), 1 / 3, -7.123456789012345e-5, complex(1 / 3, -2 / 7),
                        complex(1, 1e-6), complex(250, -2e-3), complex(-3, 4e-9), complex(1e-7, 1), complex(2e-9, -5e4), complex(1, 1e-13)])
        if kind < 0.16: c = rng.choice([1e-9, -3e-12, 2e-9j, 5e-10])   # all coefficients negligible
        op.terms[cls(t).terms.__iter__().__next__()] = c             # canonical key of the class
    return op

def run(ctx):
    from ..impl import of
    from openfermion.utils.operator_utils import OperatorUtilsError
    rng = ctx.rng
    items, meta = [], []
    def add(part, expr, replay, key=None):
        items.append(expr); meta.append((part, replay)); ctx.count(part, 1, nontrivial_key=key)
    N = (lambda q, t: q if ctx.quick else t)
    # ---- A. constructing an operator from its printed string
    for i in range(N(400, 4000)):
        clsname = rng.choice(list(KCLS)); cls = getattr(of, clsname)
        op = rand_op(of, rng, clsname)
        s = str(op)
        rp = {'call': '%s(str(op))' % clsname, 'terms': {repr(t): repr(c) for t, c in op.terms.items()}, 'printed': s}
        printable = [t for t, c in op.terms.items() if abs(c) >= 1e-8]
        if not printable:
            if s != '0': ctx.violation('C20 print_parse: an operator without printable terms prints %r instead of 0' % s, rp)
            ctx.count('print_parse', 1); continue
        try:
            back = cls(s)
        except Exception as e:
            ctx.violation('C20 print_parse: %s(str(op)) raised %s: %s' % (clsname, type(e).__name__, e), dict(rp, error=repr(e))); continue
        add('print_parse', '(dict_eqb gfactor gfeqb %s (stored true %s))' % (cg(clsname, back.terms), cg(clsname, op.terms)), rp, key=(clsname, s))
        if i < 2: ctx.sample({'part': 'print_parse', 'class': clsname, 'printed': s})
    # ---- B. histories of save / load / modify / save in a fresh temporary directory
    for h in range(N(120, 1200)):
        tmp = tempfile.mkdtemp(prefix='vf_c20_')
        try:
            names = rng.sample(['a', 'b.data', 'op_1', 'a.data', 'x.dat'], 3)
            steps, expect = [], []
            for _ in range(rng.randint(2, 10)):
                name = rng.choice(names); text = rng.random() < 0.5
                if rng.random() < 0.55:
                    clsname = rng.choice(list(KCLS)); op = rand_op(of, rng, clsname); ow = rng.random() < 0.4
                    try:
                        of.save_operator(op, name, tmp, allow_overwrite=ow, plain_text=text); r = 'ROk'
                    except OperatorUtilsError as e:
                        r = 'RErrExists' if 'exists' in str(e) else 'RErrNoName'
                    steps.append('(FSave %s %s "%s" %s %s)' % (KCLS[clsname][0], cg(clsname, {t: complex(c) for t, c in op.terms.items()}), name, cbool(ow), cbool(text)))
                    expect.append('(@None (cls * gop), %s)' % r)
                else:
                    # only load in the format the file was written in (a format mismatch is an error of unspecified class)
                    path = os.path.join(tmp, name if name.endswith('.data') else name + '.data')
                    if os.path.exists(path):
                        with open(path, 'rb') as f: head = f.read(20)
                        text = head.split(b':')[0] in (b'FermionOperator', b'BosonOperator', b'QubitOperator', b'QuadOperator')
                    try:
                        lo = of.load_operator(name, tmp, plain_text=text)
                        expect.append('(Some (%s, %s), ROk)' % (KCLS[type(lo).__name__][0], cg(type(lo).__name__, lo.terms)))
                    except FileNotFoundError:
                        expect.append('(@None (cls * gop), RErrMissing)')
                    except Exception as e:      # any other failure of a well-formed load is a deviation from the model
                        expect.append('(@None (cls * gop), RErrFormat)')
                    steps.append('(FLoad "%s" %s)' % (name, cbool(text)))
            files = sorted(os.listdir(tmp))
            expr = ('(let (d, rs) := frun [] %s in results_eqb rs %s && files_eqb d %s)' %
                    (clist(steps), clist(expect), clist(['"%s"' % f for f in files])))
            add('histories', expr, {'call': 'save_operator/load_operator history', 'steps': steps, 'files': files}, key=repr(steps))
        finally:
            shutil.rmtree(tmp, ignore_errors=True)
    # ---- C. MolecularData save / load (HDF5 runtime; compared here, exact array equality), twice
    run_molecular(ctx, of, rng, N(12, 80))
    run_molecular_directory(ctx, of, rng, N(15, 100))
    res = coq_eval_bools(ctx, 'c20', IMPORTS, items, chunk=60)
    judge(ctx, res, meta, 'C20')

def run_molecular_directory(ctx, of, rng, n):
    """histories on one data directory with auto-generated file names: records that differ in basis, multiplicity, charge or
    description are different records; after all are saved each loads back with its own attributes"""
    for i in range(n):
        tmp = tempfile.mkdtemp(prefix='vf_c20d_')
        try:
            geom = [('H', (0.0, 0.0, 0.0)), (rng.choice(['H', 'Li', 'O']), (0.0, 0.0, 0.75))]
            b0, m0, c0, d0 = rng.choice(['sto-3g', 'cc-pvdz']), rng.choice([1, 2, 3]), rng.choice([1, -1, 2, -2, 0]), rng.choice(['', 'a', '0.75'])
            # neighbours of one record: each differs from it in exactly one identifying attribute
            near = [(b0, m0, -c0 if c0 else 1, d0), (b0, m0, c0 + (1 if c0 >= 0 else -1), d0), (b0, m0 % 3 + 1, c0, d0), ('6-31g', m0, c0, d0), (b0, m0, c0, d0 + 'x')]
            idents = {(b0, m0, c0, d0)} | set(rng.sample(near, rng.choice([1, 2, 3])))
            idents = sorted(idents); rng.shuffle(idents)
            recs = []
            for k, (basis, mult, charge, desc) in enumerate(idents):
                m = of.MolecularData(geom, basis, mult, charge, description=desc, data_directory=tmp)
                m.hf_energy = -1.0 - k; m.nuclear_repulsion = 0.5 + k; m.one_body_integrals = np.full((2, 2), float(k + 1))
                m.save(); recs.append(m)
            ctx.count('molecular_data_directory', 1, nontrivial_key=repr(idents))
            names = [os.path.basename(m.filename) for m in recs]
            bad = None
            if len(set(names)) != len(names): bad = 'two different records share the file name %r' % [x for x in names if names.count(x) > 1][0]
            for k, (basis, mult, charge, desc) in enumerate(idents):
                if bad: break
                m2 = of.MolecularData(geom, basis, mult, charge, description=desc, data_directory=tmp); m2.load()
                if (m2.charge, m2.multiplicity, m2.basis, m2.description) != (charge, mult, basis, desc) or m2.hf_energy != -1.0 - k or m2.nuclear_repulsion != 0.5 + k or not np.array_equal(m2.one_body_integrals, np.full((2, 2), float(k + 1))):
                    bad = 'record %r loads back with attributes of another record (charge %r, hf_energy %r)' % ((basis, mult, charge, desc), m2.charge, m2.hf_energy)
            if bad: ctx.violation('C20 molecular_data_directory: %s' % bad, {'call': 'MolecularData save/load with generated file names in one directory', 'records': [list(x) for x in idents], 'file_names': names})
        except Exception as e:
            ctx.violation('C20 molecular_data_directory: %s: %s' % (type(e).__name__, e), {'call': 'MolecularData save/load with generated names', 'error': repr(e)})
        finally:
            shutil.rmtree(tmp, ignore_errors=True)

def run_molecular(ctx, of, rng, n):
    for i in range(n):
        tmp = tempfile.mkdtemp(prefix='vf_c20m_')
        try:
            natoms = rng.choice([1, 2, 3])
            geom = [(rng.choice(['H', 'He', 'Li', 'O']), (rng.uniform(-1, 1), rng.uniform(-1, 1), float(k))) for k in range(natoms)]
            # explicit file names with and without the .hdf5 extension, base names ending in characters of the extension
            base = rng.choice(['mol', 'mol', 'mol_0.75', 'record5', 'h2_dfh', 'x.', 'fd5h'])
            given = base + rng.choice(['', '.hdf5'])
            m = of.MolecularData(geom, rng.choice(['sto-3g', 'cc-pvdz']), rng.choice([1, 3]), rng.choice([0, 1, -1]), description=rng.choice(['', 'test_1', '0.7414']), filename=os.path.join(tmp, given))
            no = rng.choice([1, 2, 3])
            vals = {}
            for attr, mk in (('n_orbitals', lambda: no), ('n_qubits', lambda: 2 * no), ('nuclear_repulsion', lambda: rng.choice([0.0, np.float64(0.0), rng.uniform(0, 5)])), ('hf_energy', lambda: rng.choice([0.0, -rng.uniform(0, 5)])),
                             ('fci_energy', lambda: rng.choice([0.0, np.float64(0.0), -rng.uniform(0, 5)])), ('orbital_energies', lambda: np.array([rng.uniform(-2, 2) for _ in range(no)])),
                             ('one_body_integrals', lambda: np.array([[rng.uniform(-1, 1) for _ in range(no)] for _ in range(no)])),
                             ('two_body_integrals', lambda: np.random.RandomState(rng.randrange(10 ** 6)).rand(no, no, no, no)),
                             ('canonical_orbitals', lambda: np.random.RandomState(rng.randrange(10 ** 6)).rand(no, no)), ('mp2_energy', lambda: 0.0), ('ccsd_energy', lambda: -1.0)):
                if rng.random() < 0.6: vals[attr] = mk(); setattr(m, attr, vals[attr])
            ok = True; why = ''
            for cycle in range(2):
                m.save()
                if sorted(os.listdir(tmp)) != [base + '.hdf5']: ok = False; why = 'saved under %r, directory holds %r' % (given, sorted(os.listdir(tmp)))
                m2 = of.MolecularData(filename=os.path.join(tmp, base + ('.hdf5' if cycle else '')))
                for attr in ('n_orbitals', 'n_qubits', 'nuclear_repulsion', 'hf_energy', 'fci_energy', 'orbital_energies', 'one_body_integrals', 'two_body_integrals', 'canonical_orbitals', 'mp2_energy', 'ccsd_energy'):
                    a = getattr(m, attr); b = getattr(m2, attr)
                    if a is None or b is None:
                        if not (a is None and b is None): ok = False; why = '%s: %r vs %r' % (attr, a, b)
                    elif not np.array_equal(np.asarray(a), np.asarray(b)): ok = False; why = '%s differs' % attr
                if [(a, list(p)) for a, p in m2.geometry] != [(a, list(p)) for a, p in m.geometry] or m2.basis != m.basis or m2.multiplicity != m.multiplicity or m2.charge != m.charge or m2.description != m.description:
                    ok = False; why = 'identity attributes differ'
                m = m2
            ctx.count('molecular_data', 1, nontrivial_key=i)
            if not ok:
                ctx.violation('C20 molecular_data: save/load does not return the same attributes (%s)' % why, {'call': 'MolecularData.save/load', 'geometry': repr(geom), 'file_name_given': given, 'set': sorted(vals), 'why': why})
        except Exception as e:
            ctx.violation('C20 molecular_data: %s: %s' % (type(e).__name__, e), {'call': 'MolecularData.save/load', 'error': repr(e)})
        finally:
            shutil.rmtree(tmp, ignore_errors=True)
