#!/bin/bash
# Build the whole Coq development from /repo's current source (Gen), offline, full .vo build.
cd "$(dirname "$0")" || exit 2
export PYTHONHASHSEED=0 PYTHONPATH=/verif/harness:/repo/src PYTHONDONTWRITEBYTECODE=1 PYTHONWARNINGS=ignore
mkdir -p build evidence replays
find coq/theories -name '*.vo' -o -name '*.vok' -o -name '*.vos' -o -name '*.glob' -o -name '.*.aux' | xargs -r rm -f
rm -f coq/Makefile coq/Makefile.conf coq/_CoqProject coq/.Makefile.d
/venv/bin/python - <<'PY'
import sys
from vf import gen, core
print('gen:', gen.regenerate())
rc, out = core.coq_build(timeout=3000)
print(out[-3000:])
h = core.hygiene()
if h: print('HYGIENE:', h); sys.exit(1)
sys.exit(1 if rc else 0)
PY
rc=$?
if [ $rc -ne 0 ]; then echo "setup: build failed"; exit 1; fi
# independent re-check of the property files and their dependencies; axiom list stored for the evidence
( cd coq && timeout 3000 coqchk -silent -o -Q theories OFV $(ls theories/Props/*.vo | sed 's#theories/#OFV.#; s#/#.#g; s#\.vo$##') > ../build/coqchk.log 2>&1; echo "coqchk exit $?" >> ../build/coqchk.log )
tail -15 build/coqchk.log
grep -q 'coqchk exit 0' build/coqchk.log
