#!/bin/bash
# Build the whole Coq development from /repo's current source (Gen), offline, full .vo build.
cd "$(dirname "$0")" || exit 2
export PYTHONHASHSEED=0 PYTHONPATH=/verif/harness:/repo/src PYTHONDONTWRITEBYTECODE=1 PYTHONWARNINGS=ignore
mkdir -p build evidence replays
find coq/theories -name '*.vo' -o -name '*.vok' -o -name '*.vos' -o -name '*.glob' -o -name '.*.aux' | xargs -r rm -f
rm -f coq/Makefile coq/Makefile.conf coq/_CoqProject coq/.Makefile.d
/venv/bin/python - <<'PY'
import sys
from vf import gen, core
print('gen:', gen.regenerate())
rc, out = core.coq_build(timeout=3000)
print(out[-3000:])
h = core.hygiene()
if h: print('HYGIENE:', h); sys.exit(1)
sys.exit(1 if rc else 0)
PY
rc=$?
if [ $rc -ne 0 ]; then echo "setup: build failed"; exit 1; fi
# independent re-check (coqchk) of every property file and its dependencies, one process per property file in parallel.
# coqchk has no virtual machine: the bounded table theorems of C05 / C09 / C13 / C14 take many minutes there, so each process has a
# time limit (COQCHK_TIMEOUT, default 900 s); a property file whose re-check does not finish in time is listed as such in
# build/coqchk.log (it was still checked by the coqc kernel during the build); only a genuine coqchk error fails the setup.
: > build/coqchk.log
( cd coq && for f in theories/Props/C*.vo; do
    m=$(echo $f | sed 's#theories/#OFV.#; s#/#.#g; s#\.vo$##')
    ( timeout ${COQCHK_TIMEOUT:-900} coqchk -silent -o -Q theories OFV $m > ../build/coqchk_$m.log 2>&1; echo "$m coqchk exit $?" >> ../build/coqchk.log ) &
  done; wait )
sort build/coqchk.log | tr '\n' ';'; echo
cat build/coqchk_OFV.Props.C15.log 2>/dev/null | grep -i -A12 "axiom" | head -20
if grep -v -e 'coqchk exit 0$' -e 'coqchk exit 124$' build/coqchk.log | grep -q 'coqchk exit'; then echo "setup: coqchk reported an error"; exit 1; fi
exit 0
