#!/bin/bash
# usage: allpass.sh <tier> [ids...]  -- run every check of a tier on the current tree, log exit codes (under ./build)
cd "$(dirname "$0")/.."
TIER=${1:-quick}; shift
IDS=${@:-C01 C02 C03 C04 C05 C06 C07 C08 C09 C10 C11 C12 C13 C14 C15 C16 C17 C18 C19 C20}
mkdir -p build
[ -f coq/theories/Props/C01.vo ] || ./setup.sh > build/allpass_setup.out 2>&1
LOG=build/allpass_$TIER.log; : > $LOG
for p in $IDS; do
  s=$(date +%s)
  timeout ${ALLPASS_TIMEOUT:-7200} ./check $p --tier $TIER > build/allpass_${TIER}_$p.out 2>&1; rc=$?
  echo "$p rc=$rc secs=$(( $(date +%s) - s )) violations=$(grep -c '^VIOLATION' build/allpass_${TIER}_$p.out) known=$(grep -c '^KNOWN-FINDING' build/allpass_${TIER}_$p.out)" >> $LOG
done
echo DONE >> $LOG
