#!/bin/bash
# independent re-check of every property file without the setup time limit (Props/C05 alone takes about 50 minutes)
cd "$(dirname "$0")/../coq" || exit 2
for f in theories/Props/C*.vo; do
  m=$(echo $f | sed 's#theories/#OFV.#; s#/#.#g; s#\.vo$##')
  ( timeout ${COQCHK_TIMEOUT:-5000} coqchk -silent -o -Q theories OFV $m > ../build/coqchk_full_$m.log 2>&1; echo "$m coqchk exit $?" ) &
done; wait
