#!/usr/bin/env python3
"""Writes /verif/DESIGN.md: static text below + tables generated from known_findings.json and seeded/*/meta.json."""
import json, os, glob, subprocess
V = os.path.dirname(os.path.dirname(os.path.abspath(__file__)))

HEAD = r'''# DESIGN — machine-checked proof (Coq 8.16.1) for 20 semantic properties of OpenFermion

This document was written before the code (commit history of /verif keeps that first version) and has
been revised to describe the framework *as built*.  Section 1 explains the approach, section 2 the
common machinery, section 3 what is proved / checked per property, section 4 the genuine defects
found in quantumlib/OpenFermion (fixed or recorded), section 5 the seeded changes used to test the
checks and which check catches which, section 6 the limits and deviations from the first plan,
section 7 the trusted base.

Vocabulary

* **model** – a total, computable Gallina function that transcribes one piece of the Python code
  (same case analysis, loops turned into structural or fuelled recursion, dictionaries as association
  lists in insertion order).  Models describe the code that exists.
* **semantics / spec** – the short mathematical meaning an operator is supposed to have (section 2.2).
* **[F]** theorem proved for all sizes / inputs (induction, no bound).
  **[B]** theorem over a finite domain that is *stated in the theorem* (`forallb ... = true` over an
  explicit enumeration, proved by `vm_compute`); it is a proof for that domain and is never presented
  as the unbounded claim.
* **verified checker** – a Gallina decision procedure `check input output : bool` with a soundness
  theorem `check ... = true -> Spec ...`; it is evaluated *inside Coq* (`vm_compute`) on the exact
  values the implementation returned, so each accepted case carries kernel-grade evidence for that
  input (translation validation).

---------------------------------------------------------------------------------------------

## 1. Why proof, and what it reaches that the tests do not

The 1894 tests compare a handful of literal operators with hand-written answers, using the library's
own `==`, which was itself defective (finding D2).  Every property in `properties.jsonl` quantifies
over *all* operators, sizes, index coincidence patterns, lattice shapes, list lengths or operation
sequences.  Most of the code behind them is symbolic algebra over finite dictionaries, integer / bit
manipulation and index bookkeeping - code for which a theorem about an executable model settles every
size at once, and for which an exact reference algebra can be *proved* correct once and then used as
an oracle for everything else.

The framework has three legs:

1. a **formal semantics** (section 2.2): Pauli words, fermionic ladder operators and bosonic /
   quadrature operators act on basis states; everything "denotes the same operator" means is defined
   there in a few lines;
2. **executable Gallina models** of the Python functions with **theorems** against that semantics, and
   **verified checkers** built from the proved algebra (Pauli normal form, Jordan-Wigner image,
   commutators, matrix elements) that decide the property on concrete implementation outputs;
3. a **checked tie** to `/repo`'s current source on every run: literal tables are re-translated from
   the source and re-proved equal to the model tables; the hand models are run by `vm_compute` on the
   same inputs as the implementation (correspondence); and the implementation's outputs are fed to
   the verified checkers.

A change to OpenFermion that breaks a property then breaks a regenerated proof obligation, the
correspondence with a proved model, or is rejected by a verified checker; the failing input is the
replay.  Where the truth lives in floating-point LAPACK / cirq numerics (C11, C12, C14, C15, parts of
C06, C16, C17) the logic part (schedules, index maps, bookkeeping, algebraic identities) is modelled
and proved, the numerical claim is decided per input on the exact rational values of the returned
floats, and the remainder is labelled numerical evidence.

---------------------------------------------------------------------------------------------

## 2. Common machinery

### 2.1 Layout

```
/verif/check                       ./check Cxx --tier quick|thorough      (-> harness/vf/cli.py)
/verif/setup.sh                    clean full .vo build of coq/ from /repo's current source + coqchk
/verif/coq/theories/Base/          Cplx.v (Gaussian rationals Qc*Qc, ring), Lin.v (formal sums), Mat.v (exact matrices)
/verif/coq/theories/Sem/           PauliSem.v FermiSem.v BoseSem.v
/verif/coq/theories/Model/         transcriptions of the Python code (no proofs inside)
/verif/coq/theories/Thm/Cxx/       proofs
/verif/coq/theories/Check/         verified checkers and declarative specifications
/verif/coq/theories/Gen/           *.v regenerated from /repo by harness/vf/gen.py on every run (not committed)
/verif/coq/theories/Props/Cxx.v    ONLY `Theorem ... Proof. exact lemma. Qed.` + `Print Assumptions`
/verif/harness/vf/                 core.py (Coq build/evaluation, evidence, findings), gen.py (translator),
                                   ops.py (exact literals), props/cxx.py (one module per property)
/verif/corpus/Cxx/                 minimised regression cases, run first
/verif/known_findings.json         committed list of defects (open / fixed); never written at run time
/verif/seeded/<name>/              seeded changes (patch.diff, demo.py, meta.json) used to test the checks
/verif/tools/                      cq (compile one file, show the goal at the failing tactic), mk (incremental build),
                                   mkmanifest.py, mkdesign.py, tryseed.sh, allpass.sh (every check of a tier, exit codes logged)
```

`./check Cxx` does, in order: regenerate `Gen/*.v` from the current source; incremental full build
(`coq_makefile`, `make`, never `-vos`; every `coqc`/`make` under `timeout`); hygiene scan (no `Admitted`,
`admit`, `Axiom`, `Parameter`, `Conjecture`, guard switches); compile `Props/Cxx.v` alone and record the
theorem list and the `Print Assumptions` output (obligations / discharged); run the property module:
generate inputs from one PRNG seeded by `VERIF_SEED`, run the implementation (`/venv/bin/python`,
`PYTHONPATH=/repo/src`, `PYTHONHASHSEED=0`), serialise inputs and outputs *exactly* (every int / float
/ complex as a fraction `num/den`) into Coq terms, evaluate model comparisons and checkers with
`vm_compute` in generated case files (parallel `coqc`, results are lists of booleans; a file that fails
to evaluate is bisected so that the offending case is isolated), classify, write
`evidence/Cxx.json`, print `KNOWN-FINDING:` / `VIOLATION` lines, exit 0/1.

### 2.2 The semantic universe

* Coefficients `C := Qc * Qc` (Gaussian rationals, Leibniz equality, `ring`).  Every Python number is
  a dyadic rational, so implementation values are imported exactly, never rounded.
* Formal sums `lin K := list (C * K)`, `leq a b := forall k, coeff k a = coeff k b`, `lbind` (linear
  extension); `lin_eqb` decides `leq` and is proved sound.
* Qubits (`PauliSem.v`): a basis state is an `N` bit mask; `X_j` flips bit j, `Z_j` multiplies by
  `(-1)^bit`, `Y_j = i X_j Z_j`.  The 16-entry product table is proved against this
  (`pauli_mul_sound`), factors on different qubits commute (`then1_comm`).
* Fermions (`FermiSem.v`): occupation mask; `a_j|v> = 0` or `(-1)^{#occupied below j}|v - e_j>`, `a+_j`
  symmetric - stated independently of any qubit encoding.  The CAR are theorems (`Thm/C03/CAR.v`).
* Bosons / quadratures (`BoseSem.v`): Bargmann-Fock representation on monomials `x^k`
  (`b+ = x.`, `b = d/dx`; `q = x.`, `p = -i hbar d/dx`), rational matrix elements; the orthonormal
  truncated-Fock matrices are related by `sqrt(r!/c!)` (used in C06).
* Matrices (`Check/MatrixOf.v`, `Check/Sectors.v`): entry `(r,c) = <r|op|c>` with basis vector number k
  having qubit / mode j set iff bit `n-1-j` of k is set - the only place endianness enters.

### 2.3 The proved reference algebra and the verified checkers built from it

* `qsimplify_sound`, `qsimplify_canonical`, `qmul_hom`, `qadd_hom`, `qsub_hom`, `qscale_hom`, `qpow_hom`
  [F]: the model of `QubitOperator` arithmetic denotes composition / sums on basis states and always
  produces canonical terms; the same generic theorems (`SymHom.v`) are instantiated for
  `FermionOperator`.
* `jw_ladder_den`, `jw_sound`, `jw0_sound` [F]: the Jordan-Wigner model denotes the Fock action of every
  FermionOperator (mode j on qubit j).
* `dict_eqb_sound` [F]: two duplicate-free dictionaries that agree coefficient-wise denote the same map.
* Hence the checkers `pauli_equiv`, `fermi_pauli_equiv`, `fermi_equiv`, `fcomm_check`, `fdcomm_check`,
  `fcomm_zero`, `qcomm_check` with soundness theorems [F] (`Check/OpEquiv.v`, `Check/Commutator.v`):
  "true" implies equality of the denoted operators on every basis state (resp. of `AB-BA`,
  `[A,[B,C]]`).  Tolerance versions (`pauli_close`, `fermi_close`) bound every coefficient of the exact
  difference and are used on float-valued operators.
* `hc_map_adjoint` [F]: `<s'|hc(A)|s> = conj <s|A|s'>` for every fermionic operator.
* Declarative per-property checkers (`Check/*.v`): encoding transport (`encoding_check`), code
  validity, sector index lists, Fock matrix elements, reductions, Givens reconstruction, quadratic
  Hamiltonians, schedules, LCU tables.  Where they are definitions of the property on a finite domain
  their "soundness" is by unfolding (`forallb_forall`), and the theorems in `Props/` say so.

### 2.4 The tie to /repo, checked on every run

(a) **Translator** (`harness/vf/gen.py`, fail-closed Python `ast`, never executes repository code):
`_PAULI_OPERATOR_PRODUCTS`, the class attributes (`different_indices_commute`, ...) and `EQ_TOLERANCE`
become `Gen/*.v`; `Thm/C01/GenTie.v` re-proves on every run that the source table equals the model
table (whose soundness is a theorem).  The same translator turns pure integer *functions* (parameters,
`if` / `return`, `+ - * %`, comparisons; Python integers become `Z`, whose `+ - * mod` are the same
functions) into Gallina: `hubbard._right_neighbor` / `_bottom_neighbor` are regenerated as
`Gen/HubbardNeighbors.v` and `Thm/C13/GenTie.v` re-proves, for ALL arguments, that they equal the model
the bond theorems are about - a tie by translation with an unbounded obligation.  A changed literal or an unknown AST shape breaks the
obligation; the check then looks for a failing input through the correspondence.

(b) **Correspondence** for every hand model: same inputs through implementation and model, compared
inside Coq exactly (dictionaries modulo order and exactly-zero entries).  Inputs of the *exact stream*
are small dyadic rationals chosen so that every intermediate value is exactly representable in
binary64 and never within a factor 10 of `EQ_TOLERANCE`; runs whose outputs are not small dyadics are
discarded (counted in the evidence).  Threshold-straddling inputs (C02) keep a 10% margin from every
threshold.

(c) **Verified checkers on implementation outputs** for everything that is not modelled
line-by-line (fast paths, conversions, reductions, schedules, numerics).

(d) **Complete small domains**: where the input is one small integer or a small index tuple the whole
range is enumerated (e.g. all index tuples below 4 for `jordan_wigner_two_body`, all `n_qubits <= 48/128`
for the BK sets, all lengths `<= 40/96` for `pair_within`, all pairs / triples of dual-basis terms).

### 2.5 Violation protocol and known findings

A discrepancy is reported as `VIOLATION property=Cxx replay=<file>`; the replay file contains the
(minimised, for C01 programs) input.  If only a proof obligation, a model evaluation or the harness
itself breaks and no failing input is found, the line ends with `no-failing-input-found` and the
replay names the obligation.  `known_findings.json` lists defects by id with status `open` or `fixed`;
a failure is downgraded to `KNOWN-FINDING:` (exit 0) only when the property module tags it with the
id of an *open* finding through a decidable region predicate on the input (D6: `d6_region` in
`props/c07.py`; D7: "a key only in the subtrahend" in `props/c08.py`; D24: `d24` in `props/c13.py`).  `fixed` entries suppress
nothing; their witnesses live in `corpus/` or in the generators.

### 2.6 Tiers and cost

`quick`: 6 s - 120 s per property on an idle 16-core machine (whole set about 10 minutes; C13, C17 and C11 are the
slowest), `setup.sh` (full `.vo` build plus `coqchk`) about 6 minutes more on a fresh copy.  `thorough`: larger complete
domains (documented per property in MANIFEST `level_claimed.text`), 5-10x more random cases; half a minute to two minutes for
most properties, 11 - 20 minutes for C11, C13, C17 and C18 (whole set about one hour and ten minutes; last full pass: all 20 exit 0).  BLAS threads are limited
to two per process by `check`; every `coqc` call carries its own time limit and a timed-out chunk of cases is bisected.
The quick checks were additionally run under PRNG seeds 0 .. 8 on the unchanged tree (`VERIF_SEED`); the two alarms this
raised were errors of the machinery and are described in section 6.
Evidence files contain measured counts per sub-check (`coverage.parts`), samples, the theorem list and
the `Print Assumptions` summary.

---------------------------------------------------------------------------------------------

## 3. Per property: what is proved, what is checked

(The precise wording is in MANIFEST.json `level_claimed.text`; file names refer to `coq/theories`.)

| id | unbounded theorems [F] | bounded theorems [B] (domain in the statement) | decided per input inside Coq | numerical only |
|---|---|---|---|---|
| C01 | Qubit: simplify sound + canonical, `*`,`+`,`-`,scalar,`**` homomorphisms; Fermion: same; source Pauli table = model table (re-proved each run) | Majorana merge / sort (index sets < 5, words <= 4) | aliasing programs over 5 classes vs the heap model; Majorana arithmetic vs model and JW denotation | - |
| C02 | `isclose` = per-term spec, symmetric, order / other-term independent; `C02_is_normal_ordered_implies_fixed` (every word length) | Majorana commutation test, `is_normal_ordered` = fixed points of normal ordering | ==, !=, isclose, predicates, tensor equality | - |
| C03 | CAR in the Fock semantics; checker soundness; `C03_normal_ordered_term_sound` / `C03_normal_ordered_sound`: the model of fermionic normal ordering (double loop, recursive contraction, fuel) with exact accumulation preserves the denotation of every word of any length and of every operator; `C03_normal_ordered_is_ordered` (insertion-sort invariant: every returned term is in normal order, with the code's tolerance), `C03_normal_ordered_word_fixed`, `C03_normal_ordering_idempotent_on_terms` | normal-ordering model sound / ordered / idempotent for all words <= 4 (fermion 3 modes; boson, quad hbar 2 and 1/2) | all three algebras, InteractionOperator, chemist_ordered, reorder, canonicity pairs | - |
| C04 | JW ladder / operator soundness; `C04_majorana_jw_sound` (every MajoranaOperator: gamma_2q = a_q + a+_q, gamma_2q+1 = i(a+_q - a_q)); checker soundness | - | every fast path (InteractionOperator, DCH, one_body/two_body on all index tuples < 4, reverse JW); dual-basis jellium / plane-wave helpers on cubic, rectangular and sheared cells (tolerance 1e-9 inside Coq) | - |
| C05 | `C05_bk_ladder_linear` (every n, mode, state, given decidable mask identities); `C05_bk_sound_upto_128` (every operator and state, n <= 128), encoding injective; `C05_bkt_sound_upto_40` (tree variant) | encoding validity for every n_qubits <= 7 (BK and BK-tree); Fenwick set identities n_qubits <= 128 | index sets (n <= 48/128), images, operators, encoding property on outputs, SRL all (i,j) n <= 16/40, InteractionOperator path | - |
| C06 | product = composition (basis of MatrixOf); `C06_linear_operator_term_correct` (the vector-splitting algorithm of LinearQubitOperator, modelled on perfect binary trees, realises the Pauli semantics for every n, canonical term, vector), `C06_linear_operator_semantics` (whole operators: output amplitudes = coefficients of op applied to the vector) | - | every matrix entry of sparse operators vs MatrixOf / Bargmann; matvec (also against the model `lqo`), parallel matvec (forced orders), diagonal, expectation, variance | quad matrices, eigenspectrum traces, ARPACK wrappers (get_ground_state, get_gap), density matrix, inner product |
| C07 | adjoint theorem; commutator-checker soundness | - | hermitian_conjugated, (anti)commutator, double commutator + hopping shortcut, all dual-basis pairs / triples, DC commutator, trotter_error predicates, bch_expand against an exact BCH series (nilpotent exp/log inside Coq) | - |
| C08 | checker soundness | - | tensor arithmetic, all conversions and round trips, boson<->quad, rotate_basis = substitution, DOCI | rotation spectra |
| C09 | GF(2) evaluation homomorphism, canonical form sound; `C09_parity_code_roundtrip`, `C09_jw_code_roundtrip` (every n) | - | BinaryPolynomial expressions, code validity on whole domains, binary_code_transform, JW/BK reproduction | - |
| C10 | `C10_number_indices_exact` (every n and particle number: each state of the sector exactly once); number operator eigenvalues | - | sector lists vs full enumeration, restricted matrices, determinant bases, expectation values | ground state at particle number (eigenpair, sector support, lowest sector eigenvalue) |
| C11 | `C11_square/rect/gauss_layers_ok` (every size: adjacent, disjoint within a layer, depth) | covering (each required entry once) for n <= 32 (20) | reconstruction of every decomposition; emitted schedule = model | - |
| C12 | `C12_diagonal_form_spectrum` (every diagonal form: eigenvalues are the subset sums); product / adjoint theorems used | - | Bogoliubov constraints + diagonal form, majorana_form, canonical form, eigenvector residuals | subset-sum spectrum, Slater minors |
| C13 | `C13_bonds_are_lattice_edges`, `C13_each_bond_once` (every lattice size, both boundary conditions); `C13_gen_right/bottom_neighbor_is_model` (source functions, translated on every run, equal the model for all arguments) | same, re-checked for x,y <= 12 | all Hubbard-type generators vs edge-list specification, Hermiticity, conservation, general model, jellium consistency | jellium transcendental sums (consistency only) |
| C14 | `C14_swap_network_correct` (every n, both offsets: pairs once, adjacent, reversal) | same, n <= 40 by evaluation | swap network events; oracle tie | all circuit / gate unitaries, gates from InteractionOperators (G_I = exp(i H_I)) |
| C15 | Suzuki leaf times sum, leaf count; over R: the split factor 1/(4 - 4^(1/(2k-1))) cancels the order-(2k-1) term | - | oracle tie | convergence order, exactness, final assignment, controlled variants |
| C16 | checker soundness; `C16_agrees_on_sector_sound`: a positive verdict (H' - H) prod (1+s_i)/2 = 0 implies H' v = H v for every vector v stabilised by all s_i | - | reduce agrees on sector, tapering step, projection / freezing matrix elements, Pauli rotation | sector spectra, SCBK |
| C17 | product homomorphism, checker soundness | RDM mapping identities (two-hole, particle-hole, one-hole, contractions) for all index tuples over 4 modes | low-rank reconstruction, one-body-squared identity, spin-orbital expansion, every active-space partition; RDM mapping functions = the proved right-hand sides on arbitrary integer tensors | truncation values, RDMs of random states |
| C18 | `C18_grouping_is_partition` (every seed / shuffle family, every operator); `C18_pair_between_each_pair_once`, `C18_pair_between_pairing_disjoint` (every pair of lengths); checker soundness (by unfolding) | - | grouping model replayed with the recorded shuffles; complete outputs of all generators on complete length ranges | - |
| C19 | `C19_alias_table_exact` (every non-negative weight list summing to n t: no overrun, exact table) | same for n <= 5, t <= 5 by enumeration | alias tables, discretisation, norms, QR/QI over complete ranges, QR2/QI2, power_two, THC / sparse cost arithmetic, surface-code `estimate_cost` (checker `phys_cost_ok`) | `cost_estimator` minimality, failure probability |
| C20 | save/load state machine: no overwrite (step and histories), load-after-save | - | histories vs model, print/parse | MolecularData round trips (HDF5), several records with generated names in one directory |

---------------------------------------------------------------------------------------------
'''

LIMITS = r'''
---------------------------------------------------------------------------------------------

## 6. Limits, and deviations from the first version of this design

* **No property is listed under `not_applicable`.**  Each has a logic core decided with Coq; the
  numerical remainder is named in MANIFEST `level_note` and in section 3, last column.
* **Deviation: no OCaml extraction.**  The first plan extracted the models to an `ofref` binary and
  re-checked a sample with `vm_compute`.  As built, *all* model evaluation happens inside Coq with
  `vm_compute` (generated case files, 16 parallel `coqc`): a few thousand cases per property in
  seconds, and extraction leaves the trusted base.
* **Deviation: more verified-checker validation, fewer line-by-line models.**  The proved Pauli /
  Jordan-Wigner algebra turned out to be a universal exact oracle, so fast paths, conversions,
  reductions and shortcuts are judged by soundness-proved checkers on implementation outputs instead
  of being re-modelled one by one.  This gives per-input kernel-grade evidence and does not alarm on
  harmless refactoring, but it is not an unbounded theorem about that code; the bounded / unbounded
  theorems that exist are listed in section 3.
* **Done beyond the first plan:** unbounded theorems for the normal-ordering model (denotation, orderedness, fixed points),
  the Majorana Jordan-Wigner path, the LinearQubitOperator algorithm, the sector verdict of the tapering checker, the
  swap network, the alias tables, `pair_between`, the grouping loop, `jw_number_indices`, the parity / JW codes.
* **Not done (planned as P2/P3):** `pauli_faithful` (completeness of the normal form), a symbolic proof
  of the Fenwick identities for all n (the linear-encoding theorem is proved; its side conditions are
  computed for n <= 128, tree variant n <= 40), an unbounded proof for `pair_within`
  (bounded instead),
  real-analysis
  lemmas for gate families, `[S]` symbolic-size theorems (replaced by per-input exact checks).
* Bounded theorems state their bound; the correspondence covers the same domain completely where the
  input is a small integer.
* sympy-valued coefficients, marshal / HDF5 bytes, the OS file system, multiprocessing, LAPACK, cirq's
  simulator and libm are not modelled; floats are handled as exact rationals with stated tolerances
  and generated inputs stay away from decision thresholds, so rounding cannot flip a verdict.
* False alarms met while building (all were errors of the machinery, corrected, none listed as a
  finding): SCBK sector specification (the reduced operator has the spectrum of the (N parity, N_up
  parity) sector, not of the N-electron space); `ffft` sign / dagger convention (fixed from the
  docstring's equivalent `bogoliubov_transform` construction); DOCI parent tensors use the integral
  convention (factor 1/2, as in the library's tests); uncontrolled Trotter circuits drop the constant's
  global phase; `rotate_basis` with 0.6/0.8 entries needs a tolerance; RDM harness bugs (cancelled
  Pauli terms, N = 1 division); empty-list type inference in generated Coq files; the Fourier pairing of
  plane-wave and dual-basis jellium was first demanded on every grid (for sheared cells with an even axis
  it genuinely fails: recorded as finding D24, not a false alarm); `jw_get_ground_state_at_particle_number`
  on an identically zero sector block makes ARPACK raise - the property speaks about the convention of
  the returned state only, so such blocks are skipped and counted in the evidence.  A check that
  `DOCIHamiltonian.__getitem__` returns the entries of `n_body_tensors` alarmed on the unchanged tree: that
  indexing is deliberately a view of hc / hr1 / hr2 (pinned value by value in the library's own tests), while
  the parent tensors are one non-unique antisymmetrised choice; the property's "indexing" clause is about
  tensors that *are* the coefficient arrays, so the check was removed (DOCI arithmetic and the parent tensors
  stay judged through the pair-qubit operator).  Running the quick checks under further
  PRNG seeds (2..5) exposed two more errors of the machinery on the unchanged tree: (a) C16 chose manual fixed
  positions in the support of the *original* stabilizers; a position on which the stabilizer, once cleared from the
  earlier fixed positions, acts trivially cannot be fixed at all (no correct answer exists, the property quantifies over
  admissible positions) - the generator now follows the documented elimination and only proposes admissible positions;
  (b) a C01 program whose dumps grew to a 6 MB Coq literal made the evaluation time out, which was reported as a broken
  obligation - programs beyond 2500 dumped (variable, term) entries are now discarded and counted.  A first version of
  the large-size `ffft` check built dense 2^15 x 2^15 permutation matrices and never finished; it now simulates the
  circuit decomposed into two-qubit gates.  The last full thorough pass showed one more
  error of this kind: the `always_insert` reconstructions added to C11 multiplied all n(n-1)/2 rotations exactly also for
  8 x 8 matrices in the thorough tier and ran into the evaluation time limit (which would have been reported as a broken
  obligation); they are now limited to 6 x 6.

---------------------------------------------------------------------------------------------

## 7. Trusted base

* Coq 8.16.1 kernel including the `vm_compute` virtual machine (no `native_compute`).  `setup.sh` runs `coqchk -o` on every
  `Props/Cxx.vo` (one process per property file, in parallel; logs `build/coqchk_OFV.Props.Cxx.log`, summary
  `build/coqchk.log`).  `coqchk` has no virtual machine, so the bounded table theorems (`vm_compute` over all n <= 128 etc.)
  are re-evaluated by plain conversion there: 19 of the 20 property files finish in 40 s - 8 min; `Props/C05` (the
  Bravyi-Kitaev tables for n <= 128 and the tree tables for n <= 40) needs about 50 minutes (run once by hand with `COQCHK_TIMEOUT=5000`: exit 0, same axiom
  summary), far longer than the 15-minute limit given to each process in `setup.sh`, where it is therefore listed as not
  re-checked (exit 124) and rests on the `coqc` kernel check of the build alone.  (A single `coqchk` run over all files, as in earlier versions of `setup.sh`, exceeded 50 minutes and
  made `setup.sh` fail; `COQCHK_TIMEOUT` sets the limit.)
* Axioms: **none declared**.  `Print Assumptions` reports "Closed under the global context" for every
  property theorem (recorded in each evidence file) except one: `C15_suzuki_split_cancels` is stated over
  the standard library's real numbers (`Coq.Reals`) and therefore depends on the library's own axioms
  `ClassicalDedekindReals.sig_forall_dec` and `FunctionalExtensionality.functional_extensionality_dep`
  (as printed; `Thm/C15/SuzukiR.v` is the only file importing `Reals`).  `coqchk -o` (build/coqchk.log) lists the
  axioms of every loaded library file, i.e. additionally `ClassicalDedekindReals.sig_not_dec` and
  `Classical_Prop.classic` from the loaded `Reals` library; they are not used by the theorem.  No `Admitted` / `admit`; no guard, positivity or
  universe switches.  Libraries used: Coq standard library only (`QArith`, `Qcanon`, `ZArith`, `NArith`,
  `List`, `Bool`, `Lia`, `Ring`, `String`, `Sorted`, `Permutation`, `FinFun`, `ZifyBool`/`ZifyNat`; `Reals` in one file).
* `harness/vf/gen.py`: the `ast` translator for literal tables and for pure integer functions (it
  identifies Python's unbounded `int` `+ - * %` with `Z.add`, `Z.sub`, `Z.mul`, `Z.modulo`, and a Python
  truth test of a flag parameter with a Coq `bool`).
* The Python harness: float -> exact-rational conversion (`fractions.Fraction`), serialisation of inputs
  and outputs into Coq terms, generators, region predicates for open findings, the spec operators it
  assembles for some properties (tensor denotation `spec_poly`, docstring Hamiltonians in C08/C13/C17),
  and the numerical-only comparisons listed in section 3 (numpy / scipy / cirq as oracles there).
* Hand-written models in `Model/*.v` are tied to the code only by the correspondence runs and the Gen
  obligations.  Modelled rather than verified: SymbolicOperator arithmetic, QubitOperator / Ising /
  base-class `_simplify`, Majorana merge / sort, `jordan_wigner` (fermion path), normal ordering (three
  algebras), `hermitian_conjugated`, `isclose` and predicates, BK index sets / ladder images / Fenwick
  tree, Hubbard neighbour functions, Givens schedules, swap network, alias-table construction,
  save/load state machine, the last step of `taper_off_qubits`, `jordan_wigner` (Majorana path), `LinearQubitOperator._matvec`
  (on perfect binary trees), `jw_number_indices`, `pair_between`, the grouping loop of
  `group_into_tensor_product_basis_sets`, the parity / Jordan-Wigner binary codes, `SymbolicOperator.accumulate`.
* libm `cos` / `sin` / `exp` in the harness when angles returned by the implementation are turned into
  matrix entries (C11, C16); a rational enclosure of pi (C19).
'''

def findings_table():
    d = json.load(open(os.path.join(V, 'known_findings.json')))['findings']
    def key(f): return int(f['id'][1:])
    rows = ['| id | property | status | commit | what |', '|---|---|---|---|---|']
    for f in sorted(d, key=key):
        what = f['what']
        for pre in ('fixed: ',): what = what.replace(pre, '')
        rows.append('| %s | %s | %s | %s | %s |' % (f['id'], f['property'], f['status'], f.get('commit', '-') or '-', what.replace('|', '/')))
    return '\n'.join(rows)

def seeds_table():
    rows = ['| seed | property | what it needs to manifest | detected by (`./check` quick) |', '|---|---|---|---|']
    for p in sorted(glob.glob(os.path.join(V, 'seeded', '*', 'meta.json'))):
        m = json.load(open(p)); name = os.path.basename(os.path.dirname(p))
        det = m.get('detected_by', 'yes' if m.get('detected') else 'NO')
        rows.append('| %s | %s | %s | %s |' % (name, m.get('property'), str(m.get('what_it_needs_to_manifest', '')).replace('|', '/').replace('\n', ' ')[:400], det))
    return '\n'.join(rows)

def main():
    txt = HEAD
    txt += '''
## 4. Genuine defects found in quantumlib/OpenFermion

Each was exhibited by a check on the unchanged tree, reproduced against the real code, triaged
(defect vs false alarm), and either repaired by one minimal unguarded `fix:` commit in /repo (the
unedited test suite passes with all of them: 2118 passed, identical to the baseline) or recorded as an
open finding when an existing test pins the faulty behaviour.

''' + findings_table() + '''

Open findings are reported as `KNOWN-FINDING:` lines by the C07 / C08 / C13 checks, only inside their region.

---------------------------------------------------------------------------------------------

## 5. Seeded changes: which check catches which

Fresh sub-agents were given only the text of one property and a scratch worktree and asked for a
change that breaks it, passes the existing tests, and needs something specific to manifest.  Each kept
change was confirmed here: the demonstration fails on the changed tree and passes on the original,
the baseline suite still passes in the changed tree, and the patch was applied to /repo, the check run,
and the patch reverted.  Checks were strengthened where a seed was missed at first (noted below).

''' + seeds_table() + '''

Strengthening done because of seeds: C13 gained the multi-band `FermiHubbardModel` specification (the
seed only manifests with two bands and an on-site inter-orbital interaction; this also exposed finding
D19); C18 gained the `_asynchronous_iter` all-pairs check and the `_get_padding` specification (the seed
needs 8 bins of prime length 5, outside the enumerated symmetric-variant range); C05 quick now covers
`_seeley_richard_love` for all (i, j) up to 16 qubits (the seed needs modes 9 / 11 / 13); C20 maps any
unexpected load failure to a model mismatch instead of crashing.  The second round (seeds named
`*_r2_*`, each in a different function than the first) was caught at once for 11 properties; the 9 that
were missed led to the extensions noted in the table, and one of them exposed the open finding D24.
Rounds 3 to 8 (`*_r3_*` .. `*_r8_*`) asked each time for a different function and for specific kinds of
mistake (aliasing, dtype, ignored options, boundary sizes, rarely used entry points; round 8: defects that need a
combination - state kept between calls, two options together, a particular order of operations); the share caught at
the first run was between 50 % and 70 % per round (lowest for the stateful round 8), and every miss was turned into a check extension (column
"detected" of the table).

**Harmless rewrites (false-alarm experiment).**  The converse was tested too: for every property a fresh
sub-agent rewrote three to six of the anchored functions in a behaviour-preserving way (loops to
comprehensions, recursion to iteration, extracted / renamed private helpers, vectorised numpy code,
caching) and validated the rewrite itself by a differential test of several hundred to several thousand
inputs against the original tree plus the full test suite.  `tools/trybenign.sh <id> <worktree>` runs
the check on such a tree; the checks must stay quiet (exit 0, no VIOLATION line).  Result: see
`seeded/BENIGN.md` (written from those runs) - no check raised an alarm on a behaviour-preserving
rewrite.  The parts of the machinery most exposed to harmless rewrites are the `gen.py` obligations
(the translator is fail-closed: an unrecognised shape of the Pauli product table or of the Hubbard
neighbour functions is reported as a broken obligation, ending in `no-failing-input-found`, as the
task prescribes) and the recorded-event comparisons (swap-network callback order, shuffle calls), which
follow documented behaviour only.
'''
    txt += LIMITS
    open(os.path.join(V, 'DESIGN.md'), 'w').write(txt)

if __name__ == '__main__': main()
