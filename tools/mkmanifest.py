#!/usr/bin/env python3
"""Writes /verif/MANIFEST.json from the table below (kept valid at all times)."""
import json, os, subprocess
V = os.path.dirname(os.path.dirname(os.path.abspath(__file__)))
ALL = ['C%02d' % i for i in range(1, 21)]
CHECKS = {
 'C01': dict(cat='proof', design='3/C01',
   text='Unbounded Coq theorems about an executable model of SymbolicOperator/QubitOperator arithmetic (simplify sound and canonical, *, +, -, scalar, ** are homomorphisms onto the action on basis states), the Pauli product table regenerated from the source and re-proved equal to the model table on every run, and a correspondence run of random aliasing programs over five operator classes (every variable dumped after every statement) evaluated by vm_compute inside Coq.',
   note='Trusted: Coq kernel+VM, gen.py, the harness serialisation; the hand model is tied to the code by the correspondence run only. Fermion/boson/quad/Ising/Majorana homomorphism theorems: see evidence theorems list; sympy coefficients not modelled.',
   tech='Coq proof (induction over words and dictionaries) + Gen obligations + vm_compute correspondence'),
 'C04': dict(cat='proof', design='3/C04',
   text='Unbounded Coq theorems: the Jordan-Wigner model (a transcription of _jordan_wigner_fermion_operator on top of the proved QubitOperator arithmetic) denotes the Fock-space action of every FermionOperator (jw_ladder_sound, jw_sound, jw0_sound). Every other path (Hermitian InteractionOperator, DiagonalCoulombHamiltonian, jordan_wigner_one_body/two_body on all index coincidence patterns, reverse_jordan_wigner) is decided per input by the checker fermi_pauli_equiv, proved sound in Coq, run by vm_compute on the exact values returned by the implementation against a spec operator built by the harness.',
   note='Unbounded proof for the FermionOperator path model; fast paths are translation-validated per input by a verified checker (not proved for all inputs). Dual-basis jellium helpers: float comparison. Trusted: kernel+VM, harness spec construction and serialisation.',
   tech='Coq proof of JW soundness + verified equivalence checker (Pauli normal form) evaluated by vm_compute'),
 'C03': dict(cat='proof', design='3/C03',
   text='Coq: the canonical anticommutation relations are proved for all modes/states in the Fock semantics (the rewrite rules of normal ordering); an executable transcription of normal_ordered_ladder_term / normal_ordered_quad_term is proved, by complete enumeration inside Coq, to preserve the denotation, produce normal-ordered terms and be idempotent on all words of length <= 4 (3 fermionic modes; 2 bosonic/quadrature modes, hbar = 2 and 1/2). Every implementation output (exhaustive small words + random operators, large indices, all three algebras, several hbar, InteractionOperator, chemist_ordered, reorder, two spellings of one operator) is compared with the model and judged by the verified checker fermi_equiv / the Bargmann-Fock action.',
   note='Unbounded: CAR lemmas and checker soundness. Bounded [B]: model correctness on the stated word domain. Beyond it: per-input validation of implementation outputs. Completeness of the boson/quad grid test (operators of degree <= d agree iff they agree on monomials of exponent <= d) is cited, not formalised.',
   tech='Coq proof (CAR, checker soundness) + exhaustive vm_compute theorems + verified-checker translation validation'),
 'C07': dict(cat='proof', design='3/C07',
   text='Coq theorems for all operators/modes/states: hermitian_conjugated on fermionic operators is the adjoint (conjugate-transpose matrix elements), an involution and anti-multiplicative; the checkers fcomm_check / fdcomm_check / fcomm_zero / qcomm_check are proved to decide exactly AB-BA, [A,[B,C]] and their vanishing for the denoted operators. Every implementation result (hermitian_conjugated for four classes, commutator, anticommutator, double_commutator with the hopping shortcut on all index patterns, the dual-basis predicates on ALL pairs/triples of dual-basis terms of n modes, the using_term_info variant on its documented family, the diagonal-Coulomb commutator, trotter_error predicates) is judged by these checkers inside Coq.',
   note='Unbounded proofs: adjoint theorem, checker soundness. The predicates/shortcuts of the implementation are validated per input (complete for n=3 modes quick, n=4 thorough), not proved for all n. Known finding D6 (trivially_double_commutes_dual_basis) is reported as KNOWN-FINDING inside its region only. bch_expand: see evidence parts.',
   tech='Coq proof (adjoint, commutator-checker soundness) + exhaustive small-domain validation by vm_compute'),
 'C02': dict(cat='proof', design='3/C02',
   text='Coq theorems: isclose (model of the repaired per-term tolerance) is exactly the per-term specification for all operators, symmetric, and independent of other terms and dictionary order (isclose_spec, isclose_sym); bounded theorems by complete enumeration: Majorana merge/sort parity and _majorana_terms_commute agree with the denoted operators (all index sets below 5), is_normal_ordered accepts exactly the fixed points of normal ordering (words of length <= 4, 3 modes). Correspondence: ==, !=, isclose (threshold-straddling pairs, 0-20 shared large terms, both argument orders, shuffled dictionaries, custom tol), MajoranaOperator == / commutes_with, is_hermitian (against the adjoint theorem operator and the verified equivalence checker), is_identity, is_normal_ordered, is_two_body_number_conserving (also implies [op,N]=0 by the verified commutator checker), is_boson_preserving, PolynomialTensor.__eq__.',
   note='Magnitude comparisons are modelled exactly through squares; generated pairs keep a 10% margin from every threshold so float rounding cannot flip a verdict. numpy.isclose asymmetry of MajoranaOperator.__eq__ (rtol*|b|) is below that margin and not exercised. sympy coefficients not modelled.',
   tech='Coq proof (isclose specification) + exhaustive vm_compute theorems + vm_compute correspondence'),
 'C05': dict(cat='proof', design='3/C05',
   text='Coq [B] theorems by complete enumeration: for every n_qubits <= 7 the modelled bravyi_kitaev and bravyi_kitaev_tree ladder images are the Fock ladder operators transported by a signed permutation W of the occupation basis (W|0>=|0>, number operators diagonal), hence CAR and isospectrality with JW; for every n_qubits <= 128 and every mode the literal bit-trick index sets satisfy the Fenwick update/parity/occupation identities. Correspondence complete on n_qubits <= 48 (thorough 128) for the index sets of both transforms; ladder/Majorana images and operators against the model on non-powers of two and n_qubits beyond the mode count; the property itself (encoding_check with W reconstructed from the implementation images) on implementation outputs for n <= 5(6) qubits, both transforms, operators and MajoranaOperators; InteractionOperator path and _seeley_richard_love (all (i,j), n <= 9/16) against the FermionOperator path by the verified Pauli equivalence checker.',
   note='Bounded theorems state their bounds; the abstract linear-encoding theorem that would lift the set identities (n <= 128) to the operator statement for all n is not formalised. Trusted: kernel+VM, harness serialisation.',
   tech='exhaustive vm_compute theorems in Coq + model correspondence + verified-checker validation of the encoding property'),
 'C18': dict(cat='translation_validation', design='3/C18',
   text='Checkers written and proved sound in Coq (pair_within_ok, pair_between_ok, pws_ok, pws_sym_ok, partitions_ok, pauli_strings_ok, grouping_ok) decide, by vm_compute inside Coq, the property on the complete output of the implementation for every list length in the explored range: pair_within lengths 1..40 (thorough 96), pair_between all length pairs up to 9x9 (14x14), pair_within_simultaneously lengths 4..16 (32), the symmetric/binned variants for num_fermions <= 6 (10) and num_symmetries <= 3 with the xor-of-bins admissibility rule, partition_iterator n <= 12 (20), k <= 4, pauli_string_iterator n <= 6 (8), k <= 3, and group_into_tensor_product_basis_sets for random operators and several seeds (partition of the terms, each term contained in its key, keys name one Pauli per qubit).',
   note='No unbounded theorem about the generators themselves: the guarantee is complete only on the enumerated lengths (the domain is one small integer, so the enumeration is exhaustive there). Trusted: kernel+VM, serialisation of the yielded tuples.',
   tech='verified checkers in Coq evaluated on exhaustive bounded domains'),
 'C19': dict(cat='proof', design='3/C19',
   text='Coq: an executable transcription of the two-pass alias-table construction is proved exact (induced two-stage distribution equals the weights, ranges, donor pointer stays inside the list) for every weight list with n <= 5, t <= 5 by complete enumeration; exact rational specifications (alias_ok, discretize_ok, qr_ok/qi_ok = global minimiser over k in [0,20) with the ceiling value, qr2_ok/qi2_ok = minimiser over the 16x16 grid, power_two_ok, cost_ok = total is step times ceil(pi lam/(2 dE)) with a rational enclosure of pi, one_norm_ok = 1-norm of the proved Jordan-Wigner image) are evaluated inside Coq on the implementation outputs: alias tables exhaustively (small) and randomly up to n = 200 against model and specification, preprocess_lcu_coefficients for several epsilon, lambda_norm / get_one_norm_int(_woconst) on random symmetric tensors, QR for all L <= 600 (4096) and seven M, QI for all L < 2000 (8000), QR2/QI2 random, power_two 0..1024, THC and sparse cost functions (total, monotonicity, step independence).',
   note='The float expression of the discretisation and the log/ceil float paths are compared with exact arithmetic (inputs near ties are not generated). Unbounded alias-table theorem not formalised (bounded enumeration only). pi is enclosed in [3.14159265358979, 3.14159265358980] (trusted constant).',
   tech='exhaustive vm_compute theorem + exact rational specifications evaluated in Coq on implementation outputs'),
}
def main():
    fixes = subprocess.run("git -C /repo log --format=%H --grep='^fix:'", shell=True, capture_output=True, text=True).stdout.split()
    m = {
      'version': 1,
      'setup_cmd': './setup.sh',
      'hooks': {'guard': 'OPENFERMION_VERIF', 'enable': 'no hooks are needed: the checks drive public APIs of /repo/src in-process',
                'baseline_off_cmd': 'cd /repo && /venv/bin/python -m pytest -ra -q -p no:cacheprovider --timeout=900 --continue-on-collection-errors',
                'source_commits': fixes, 'add_only': True},
      'engines': [{'name': 'coq-model', 'path': 'coq/theories', 'serves_properties': sorted(CHECKS), 'kind_free_text': 'Coq 8.16.1 development: semantics, executable models, theorems, verified checkers; evaluated by vm_compute on cases written by harness/vf'}],
      'checks': [], 'not_applicable': [],
      'notes': 'See DESIGN.md. known_findings.json lists recorded and fixed defects.'}
    for p in ALL:
        if p in CHECKS:
            c = CHECKS[p]
            m['checks'].append({'property_id': p, 'quick_cmd': './check %s --tier quick' % p, 'thorough_cmd': './check %s --tier thorough' % p,
              'evidence_file': 'evidence/%s.json' % p, 'replay_cmd_template': './check %s --replay {path}' % p, 'engine': 'coq-model',
              'level_claimed': {'category': c['cat'], 'text': c['text'], 'design_ref': 'DESIGN.md section ' + c['design']},
              'level_note': c['note'], 'technique': c['tech']})
        else:
            m['not_applicable'].append({'property_id': p, 'reason': 'check not built yet in this round (planned, see DESIGN.md section 3); not claimed'})
    json.dump(m, open(os.path.join(V, 'MANIFEST.json'), 'w'), indent=1)
if __name__ == '__main__': main()
