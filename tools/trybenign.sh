#!/bin/bash
# usage: trybenign.sh <Cxx> <worktree with a behaviour-preserving rewrite> [tier] -- the check must stay quiet (exit 0)
P=$1; W=$2; TIER=${3:-quick}
mkdir -p /tmp/benign_out
cd /verif && VERIF_REPO=$W PYTHONPATH=/verif/harness:$W/src VERIF_SEED=${VERIF_SEED:-0} timeout 3000 ./check $P --tier $TIER > /tmp/benign_out/$P.out 2>&1; rc=$?
echo "$P benign check exit=$rc violations=$(grep -c '^VIOLATION' /tmp/benign_out/$P.out)"; grep -m3 "^#\|VIOLATION" /tmp/benign_out/$P.out | cut -c1-300
