#!/bin/bash
# usage: tryseed.sh <Cxx> <seeddir (contains _seed/patch.diff demo.py meta.json)> <name> [tier]
# confirms the demo against original and changed trees, applies the patch to /repo, runs the check, reverts.
P=$1; W=$2; NAME=$3; TIER=${4:-quick}
S=$W/_seed
[ -f $S/patch.diff ] || { echo "no patch"; exit 2; }
echo "== demo on original"; OF_SRC=/repo/src timeout 300 /venv/bin/python $S/demo.py 2>&1 | grep -v -i "warn\|wire_symbols" | tail -2; r0=${PIPESTATUS[0]}
echo "== demo on changed"; OF_SRC=$W/src timeout 300 /venv/bin/python $S/demo.py 2>&1 | grep -v -i "warn\|wire_symbols" | tail -2; r1=${PIPESTATUS[0]}
echo "demo exit codes: original=$r0 changed=$r1"
cd /repo && git status --short | grep -v '^??' | head -3
mkdir -p /tmp/seed
if [ -n "$NOAPPLY" ]; then
  # run the check against the seed worktree itself (VERIF_REPO), leaving /repo untouched (usable while other checks run)
  cd /verif && VERIF_REPO=$W PYTHONPATH=/verif/harness:$W/src VERIF_SEED=${VERIF_SEED:-0} timeout 1500 ./check $P --tier $TIER > /tmp/seed/$NAME.check.out 2>&1; rc=$?
else
  git -C /repo apply $S/patch.diff || { echo "patch does not apply"; exit 2; }
  cd /verif && VERIF_SEED=${VERIF_SEED:-0} timeout 1500 ./check $P --tier $TIER > /tmp/seed/$NAME.check.out 2>&1; rc=$?
  git -C /repo checkout -- .
fi
echo "check exit=$rc"; grep -c VIOLATION /tmp/seed/$NAME.check.out; grep -m3 "^#\|VIOLATION" /tmp/seed/$NAME.check.out | cut -c1-300
mkdir -p /verif/seeded/$NAME && cp $S/patch.diff $S/demo.py $S/meta.json /verif/seeded/$NAME/ 2>/dev/null
python3 - <<PY
import json
p='/verif/seeded/$NAME/meta.json'
try: m=json.load(open(p))
except Exception: m={}
m.update({'property':'$P','demo_exit_original':$r0,'demo_exit_changed':$r1,'check_cmd':'./check $P --tier $TIER','check_exit':$rc,'detected':($rc==1)})
json.dump(m,open(p,'w'),indent=1)
PY
